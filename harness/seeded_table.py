"""Regenerates the table of seeded changes in DESIGN.md (between the SEEDED-TABLE markers) from /verif/seeded/*/meta.json."""
import json
import os
import re

ROOT = os.path.dirname(os.path.dirname(os.path.abspath(__file__)))

# what had to be strengthened before the change was caught (empty: caught by the check as first built)
STRENGTHENED = {
    'C01-c01-m3': 'late-reply scenarios: an operation times out (both stall kinds), its stream answers while the next operation runs',
    'C02-c02-m1': 'an incomplete host frame pending when the host turns to reading is a framing failure',
    'C02-c02-m2': 'adversarial sessions vary the CNXN version word; mode alternation decorrelated from the generator',
    'C02-c02-m3': 'exploration with a preemption point at every bulk_write (frames of two tasks interleave)',
    'C04-c04-m1': 'eager device + local sink failing in the middle of a pull (a WRITE in flight when the host closes)',
    'C04-c04-m2': 'zero-length device WRITEs; clause C04.MissingOkay when the reader stalls while its own stream owes an OKAY',
    'C04-c04-m3': 'multi-WRITE pushes rejected early with reply reordering in the C04 sessions',
    'C05-c05-m3': 'zero keys given as None, [] and ()',
    'C06-c06-m3': 'distinct stat/list results per thread; preemption point at reads of the local source of a push',
    'C07-c07-m2': 'reconnect of the same object to a peer with another maxdata between two pushes',
    'C07-c07-m3': 'non-ASCII device paths and file names',
    'C08-c08-m3': 'progress callbacks raising a BaseException that is not an Exception',
    'C09-c09-m1': 'returned fields projected strictly (negative / >= 2^32 values are not silently masked into range)',
    'C09-c09-m2': 'an operation aborted in the middle of its reply followed by the same kind of operation on the same connection',
    'C09-c09-m3': 'async only; reported by C10 (rejected multi-WRITE push with the FAIL cut into two WRITEs) and C16',
    'C12-c12-m1': 'a lock re-acquired while held (detector locks) is reported as C12.NoHang; harness bug fixed: injected faults raised TypeError',
    'C12-c12-m2': 'the in-memory transport raises a subclass of TcpTimeoutException as its timeout error',
    'C13-c13-m2': 'faults exactly at the close() and connect() of the recovery phase (C12)',
    'C14-c14-m2': 'late-reply scenarios reused in C14; generic line-level preemption when the allocation block is rewritten',
    'C14-c14-m3': 'generic line-level preemption (the block no longer matched the lines AdbAlloc transcribes: was a machinery failure)',
    'C15-c15-m3': 'clause C15.LargePushArrivesIntact on the real loopback runs (a slow but healthy peer)',
    'C16-c16-m1': 'every alignment of the last records against the end of the send buffer (sizes 4016..4107)',
    'C16-c16-m3': 'all reordering cases of the C10 grid are paired',
    'C17-c17-m1': 'search for a token whose signature has a leading zero byte (reference RSA with the private exponent)',
    'C17-c17-m2': 'keygen twice at the same path (key rotation)',
    'C17-c17-m3': 'one signer shared by two threads, every line-level interleaving of Sign()',
    'C18-c18-m2': 'a session over constrained sockets (4 KiB buffers, slow reader) in SessionSame',
    'C19-c19-m3': 'deep-queue histories (300 / 1000 packets parked for one pair)',
    'C20-c20-m2': 'an unplugged device: after USBErrorNoDevice the descriptor reads of the fake backend fail too',
    'C03-c03-m1': 'corruption sweep also over a payload whose genuine checksum is 0 (all zero bytes) and over 0xFF bytes',
}


def first_sentence(note):
    note = ' '.join(note.split())
    m = re.split(r'(?<=[.;:])\s', note, maxsplit=1)
    return (m[0] if m else note)[:230]


def build():
    rows = []
    d = os.path.join(ROOT, 'seeded')
    for sid in sorted(os.listdir(d)):
        mp = os.path.join(d, sid, 'meta.json')
        if not os.path.exists(mp):
            continue
        m = json.load(open(mp))
        caught = []
        for c, v in m['checks'].items():
            if v.get('exit') == 1:
                cl = ''
                for line in v.get('lines', []):
                    if line.startswith('VIOLATION') and 'clause=' in line:
                        cl = line.split('clause=')[-1].strip()
                        break
                caught.append('%s `%s`' % (c, cl) if cl else c)
        status = ' → ' + ', '.join(caught) if caught else ' → **not caught**'
        needs = first_sentence(m.get('needs', ''))
        st = STRENGTHENED.get(sid)
        rows.append('| %s%s | %s | %s | %s |' % (sid, ' *' if st else '', needs.replace('|', '/'), status.replace(' → ', '', 1), st or ''))
    head = ('| id (* = missed at first) | the change, in its author\'s words | reported by (quick tier) | what was strengthened |\n|---|---|---|---|\n')
    n = len(rows)
    caught_n = sum(1 for r in rows if '**not caught**' not in r)
    return head + '\n'.join(rows) + '\n\n%d seeded changes confirmed, %d reported by at least one registered quick check.\n' % (n, caught_n)


def main():
    p = os.path.join(ROOT, 'DESIGN.md')
    s = open(p).read()
    table = '<!-- SEEDED-TABLE-BEGIN -->\n' + build() + '<!-- SEEDED-TABLE-END -->'
    if 'SEEDED_TABLE' in s:
        s = s.replace('SEEDED_TABLE', table)
    else:
        s = re.sub(r'<!-- SEEDED-TABLE-BEGIN -->.*?<!-- SEEDED-TABLE-END -->', lambda _: table, s, flags=re.S)
    open(p, 'w').write(s)
    print('table written')


if __name__ == '__main__':
    main()
