"""Regenerates the table of seeded changes in DESIGN.md (between the SEEDED-TABLE markers) from /verif/seeded/*/meta.json."""
import json
import os
import re

ROOT = os.path.dirname(os.path.dirname(os.path.abspath(__file__)))

# what had to be strengthened before the change was caught (empty: caught by the check as first built)
STRENGTHENED = {
    'C01-c01-m3': 'late-reply scenarios: an operation times out (both stall kinds), its stream answers while the next operation runs',
    'C02-c02-m1': 'an incomplete host frame pending when the host turns to reading is a framing failure',
    'C02-c02-m2': 'adversarial sessions vary the CNXN version word; mode alternation decorrelated from the generator',
    'C02-c02-m3': 'exploration with a preemption point at every bulk_write (frames of two tasks interleave)',
    'C04-c04-m1': 'eager device + local sink failing in the middle of a pull (a WRITE in flight when the host closes)',
    'C04-c04-m2': 'zero-length device WRITEs; clause C04.MissingOkay when the reader stalls while its own stream owes an OKAY',
    'C04-c04-m3': 'multi-WRITE pushes rejected early with reply reordering in the C04 sessions',
    'C05-c05-m3': 'zero keys given as None, [] and ()',
    'C06-c06-m3': 'distinct stat/list results per thread; preemption point at reads of the local source of a push',
    'C07-c07-m2': 'reconnect of the same object to a peer with another maxdata between two pushes',
    'C07-c07-m3': 'non-ASCII device paths and file names',
    'C08-c08-m3': 'progress callbacks raising a BaseException that is not an Exception',
    'C09-c09-m1': 'returned fields projected strictly (negative / >= 2^32 values are not silently masked into range)',
    'C09-c09-m2': 'an operation aborted in the middle of its reply followed by the same kind of operation on the same connection',
    'C09-c09-m3': 'async only; reported by C10 (rejected multi-WRITE push with the FAIL cut into two WRITEs) and C16',
    'C12-c12-m1': 'a lock re-acquired while held (detector locks) is reported as C12.NoHang; harness bug fixed: injected faults raised TypeError',
    'C12-c12-m2': 'the in-memory transport raises a subclass of TcpTimeoutException as its timeout error',
    'C13-c13-m2': 'faults exactly at the close() and connect() of the recovery phase (C12)',
    'C14-c14-m2': 'late-reply scenarios reused in C14; generic line-level preemption when the allocation block is rewritten',
    'C14-c14-m3': 'generic line-level preemption (the block no longer matched the lines AdbAlloc transcribes: was a machinery failure)',
    'C15-c15-m3': 'clause C15.LargePushArrivesIntact on the real loopback runs (a slow but healthy peer)',
    'C16-c16-m1': 'every alignment of the last records against the end of the send buffer (sizes 4016..4107)',
    'C16-c16-m3': 'all reordering cases of the C10 grid are paired',
    'C17-c17-m1': 'search for a token whose signature has a leading zero byte (reference RSA with the private exponent)',
    'C17-c17-m2': 'keygen twice at the same path (key rotation)',
    'C17-c17-m3': 'one signer shared by two threads, every line-level interleaving of Sign()',
    'C18-c18-m2': 'a session over constrained sockets (4 KiB buffers, slow reader) in SessionSame',
    'C19-c19-m3': 'deep-queue histories (300 / 1000 packets parked for one pair)',
    'C20-c20-m2': 'an unplugged device: after USBErrorNoDevice the descriptor reads of the fake backend fail too',
    # ---- round 4 (harder changes: boundary values, state across operations / reconnects, async-only, interleavings, rare parameters)
    'C01-w4-c01-m1': 'outputs of several MiB with a multi-byte character straddling a multiple of 1 MiB (big_decode)',
    'C01-w4-c01-m3': 'a decode=True command aborted in the middle of a character, then another decode=True command (also across close/connect)',
    'C02-w4-c02-m1': 'payload lengths at exact multiples of 4 / 16 / 64 KiB',
    'C02-w4-c02-m2': 'reported by C12: recovery with connect() alone (no close), wire traffic of the recovery connection judged by the frame clauses',
    'C03-w4-c03-m1': 'corruption sweep repeated for every CNXN version word the device may announce',
    'C04-w4-c04-m2': 'clause C04.FreshId: an OPEN never carries the id of an earlier OPEN of the history (refused OPENs are modelled)',
    'C04-w4-c04-m3': 'reported by C12: the task is cancelled at every await of the scenario (async), everything put on the wire is judged',
    'C05-w4-c05-m1': 'one signer object reused for several connects, GetPublicKey returning bytes / str / bytearray',
    'C05-w4-c05-m2': 'reported by C12 and C13: a connect() ended by a cancellation / BaseException',
    'C05-w4-c05-m3': 'auth_timeout_s None / 0 / small with a device that answers late',
    'C06-w4-c06-m1': 'a stream kept open across 70 / 300 abandoned streams, its CLSE read by another operation',
    'C06-w4-c06-m2': 'three-way overlap of FileSync operations in the schedule explorer, distinct results per thread',
    'C06-w4-c06-m3': 'operations of a new connection next to a generator left over from the previous one (device ids restart)',
    'C07-w4-c07-m2': 'reconnect (with and without close) to a peer with another maxdata between two pushes',
    'C07-w4-c07-m3': 'reported by C06: overlapping pushes of different tasks',
    'C08-w4-c08-m1': 'non-ASCII device paths; clause RequestPath (the request carries the UTF-8 bytes of the path and their count)',
    'C09-w4-c09-m1': 'not reachable by a legal device for list/stat (the OKAY of the only request precedes its reply); reported by C10 on pushes',
    'C09-w4-c09-m2': 'a list/stat aborted in mid-reply, then close/connect and the same operation again',
    'C09-w4-c09-m3': 'non-ASCII and bytes device paths in list / stat / pull requests',
    'C10-w4-c10-m1': 'read_timeout_s = 0 with a ticking clock while device WRITEs precede the OKAY',
    'C10-w4-c10-m3': 'bytes device paths in rejected pulls',
    'C11-w4-c11-m1': 'stall kind: a stream that only sends empty WRITEs to a command with a whole-command limit; AdbTimed models the limit',
    'C11-w4-c11-m2': 'stall kind: an endless series of late CLSEs of unknown streams',
    'C11-w4-c11-m3': 'the library\'s own TcpTransport / TcpTransportAsync on a virtual network (harness/vtcp.py) under the stall grid',
    'C12-w4-c12-m1': 'fault kinds BrokenPipeError, plain OSError, USB transport errors',
    'C12-w4-c12-m3': 'recovery to a peer that announces a smaller maxdata; C04.Maxdata judged on the recovery connection; AdbRecover.SessionParams',
    'C13-w4-c13-m1': 'AdbApi models the streaming generator (handed out / first item requested); the first request is the operation',
    'C13-w4-c13-m2': 'connect() ended by a BaseException (cancelled task) as a failure kind',
    'C13-w4-c13-m3': 'close() whose transport close raises',
    'C14-w4-c14-m2': 'explorer: repeated operations per thread and a failed first write overlapped by another open',
    'C14-w4-c14-m3': 'late-reply sessions with a whole-command budget larger than the read timeout',
    'C15-w4-c15-m1': 'a 70 KB message accepted one byte per call (more than 65536 write calls for one buffer)',
    'C15-w4-c15-m2': 'a write failing at every index of a short-written buffer: the call raises or the peer has everything (AdbWriter.ResubmitStale)',
    'C15-w4-c15-m3': 'short writes under scheduled concurrency with a preemption point at every bulk_write (AdbWriter.LockPerCall / Contiguous)',
    'C16-w4-c16-m1': 'a peer announcing more than 1 MiB and a push that fills more than 1 MiB of the send buffer',
    'C16-w4-c16-m2': 'reconnect without close while a zero-id packet / late packets are parked in the store',
    'C16-w4-c16-m3': 'progress callbacks raising a BaseException in paired pull / push sessions',
    'C17-w4-c17-m1': 'stored boundary keys: rr = 2^4096 mod n and n0inv with a leading zero byte',
    'C18-w4-c18-m2': 'poll reads (timeout 0) in the contract spec and the loopback drivers',
    'C19-w4-c19-m1': 'one queue 5000 (thorough: 20000) packets deep',
    'C19-w4-c19-m2': 'the store is intact (the I/O manager asks it for the wrong pair); reported by C06: interleaved generators over streams with legacy zero ids',
    'C19-w4-c19-m3': 'the store is intact (the async I/O manager skips the store check under the lock); reported by C06 schedule exploration',
    'C20-w4-c20-m2': 'connect() with its own timeout, later calls with none / another one',
    # ---- round 5 (unusual argument types, rarely used entry points, platform branches, user objects that raise, coincidences between fields)
    'C01-w5-c01-m1': 'reported by C06: two device objects alive at once whose stream ids coincide',
    'C01-w5-c01-m2': 'decode=True outputs beyond the model alphabet (byte-order mark, non-characters, surrogates, overlong forms), CPython\'s codec as the oracle of the rule\'s two shapes',
    'C01-w5-c01-m3': 'ambient variation: bulk_read handing out bytearray / array(\'B\') / a view of a reused buffer',
    'C02-w5-c02-m2': 'ambient variation: the library\'s loggers at DEBUG (records really formatted)',
    'C02-w5-c02-m3': 'reported by C15: a bulk_write that accepts nothing (returns 0) and is asked again',
    'C03-w5-c03-m2': 'transports handing out a view of a reused receive buffer, in the tour replay and the paired sessions',
    'C03-w5-c03-m3': 'unknown command words taken from the wider protocol family (STLS, FileSync ids)',
    'C04-w5-c04-m1': 'reported by C06: two device objects alive at once',
    'C04-w5-c04-m2': 'streaming generators abandoned by the caller (event abandon, clause MonAbandon) and kept open across other operations',
    'C04-w5-c04-m3': 'reboot(fastboot=True) in the session generator',
    'C05-w5-c05-m2': 'several keys whose public-key texts are equal',
    'C05-w5-c05-m3': 'auth_timeout_s=None on an object with a numeric default transport timeout',
    'C06-w5-c06-m1': 'the cyclic garbage collector run inside bulk_read with abandoned generators in reference cycles; lock requests of the holder itself recorded globally (C06.NoDeadlock)',
    'C06-w5-c06-m2': 'remote ids that mirror the local ids ((1,2) and (2,1)), completed streams next to a long-lived one',
    'C06-w5-c06-m3': 'virtual time bound in every adb_shell module that looks at the clock; long pauses between generator steps',
    'C07-w5-c07-m1': 'sources whose read(n) returns fewer than n bytes before the end',
    'C07-w5-c07-m2': 'a BytesIO the caller has already read from, with and without a callback',
    'C07-w5-c07-m3': 'async callbacks in three legitimate forms (async def, object with async __call__, plain function returning an awaitable)',
    'C08-w5-c08-m1': 'STAT sizes that disagree with what RECV delivers (0, 1, size+1, 2^32-1) with a callback',
    'C08-w5-c08-m2': 'a transfer that outlasts read_timeout_s as a whole while a kept generator\'s packet arrives in the middle (tick per transport call)',
    'C08-w5-c08-m3': 'destinations given as pathlib.Path / bytes / file descriptor',
    'C09-w5-c09-m1': 'DEBUG logging with entry names that are not UTF-8',
    'C09-w5-c09-m2': 'transports handing out array(\'B\') / memoryview',
    'C09-w5-c09-m3': 'field values whose bytes spell protocol words (a mode that reads b\'FAIL\')',
    'C10-w5-c10-m2': 'FAIL reasons with % and {} in them',
    'C10-w5-c10-m3': 'rejected pulls to destinations that cannot be unlinked (file descriptor) or are path objects',
    'C11-w5-c11-m2': 'headers announcing payloads of almost 2^31 / 2^32 bytes followed by a trickle / end-of-stream',
    'C11-w5-c11-m3': 'directory push (the nested mkdir stream) under the stall grid',
    'C12-w5-c12-m2': 'authenticated connect with auth_timeout_s=None under faults incl. a stalled write that ends only when its timeout expires (no timeout: C12.NoHang)',
    'C12-w5-c12-m3': 'reboot() in the scenario; a call that returns although its request never reached the device is C12.NeverWrong',
    'C13-w5-c13-m2': 'available sampled at every transport call of a connect() attempt',
    'C13-w5-c13-m3': 'connect(rsa_keys=<iterable that raises when iterated>) as a failure kind',
    'C14-w5-c14-m1': 'schedules with threads started through _thread (unknown to threading.active_count())',
    'C14-w5-c14-m2': 'a third thread that reconnects the object, in the exhaustive line-level DFS (threads start from scratch)',
    'C14-w5-c14-m3': 'bytecode-level preemption (f_trace_opcodes): one preemption before every instruction of _open',
    'C15-w5-c15-m1': 'reported by C07: a named pipe as the source (st_size 0) with a callback',
    'C15-w5-c15-m2': 'a sendall-style transport whose bulk_write returns None, messages above 64 KiB',
    'C15-w5-c15-m3': 'BlockingIOError raised in the middle of a short-written buffer',
    'C16-w5-c16-m1': 'a local destination that cannot be opened',
    'C16-w5-c16-m2': 'device paths given as pathlib.PurePosixPath (unsupported: both classes must refuse alike)',
    'C16-w5-c16-m3': 'damaged packets in paired sessions (checksum field zero / off by one / payload bit); C03: wrong checksum fields with intact payloads',
    'C17-w5-c17-m1': 'a stored 2048-bit key with public exponent 3',
    'C17-w5-c17-m3': 'key file names with dots in them',
    'C18-w5-c18-m1': 'a read abandoned by cancelling its task, then data: nothing may be swallowed',
    'C18-w5-c18-m2': 'host writes in the contract (AdbTransport.HostWrite): connected with a timeout, written without one, more than the socket buffers hold',
    'C18-w5-c18-m3': 'urgent (out-of-band) data from the peer',
    'C19-w5-c19-m1': 'payloads equal to command words / empty / NULs (the store treats payloads as opaque)',
    'C19-w5-c19-m2': 'more than a thousand streams with something pending at once',
    'C19-w5-c19-m3': 'empty payloads parked',
    'C20-w5-c20-m1': 'devices selected by port path (list / sysfs string) and by serial, under backend errors',
    'C20-w5-c20-m2': 'platform.system() reporting Windows / Darwin / Linux',
    'C20-w5-c20-m3': 'two devices with the same serial number, one transport each, used in turn; clause RaisesOnlyForACause',
    # ---- round 6 (re-entrancy, iteration protocols, time arithmetic, resource hygiene on error paths, interpreter-level corners)
    'C02-w9-c02-m1': 'reported by C15: one buffer that needs 70 000 write calls (one byte accepted per call)',
    'C02-w9-c02-m3': 'one outbound message whose payload bytes sum to more than 2^32 (a 21 MB command line)',
    'C05-w9-c05-m2': 'handshakes on a slow link: several keys, every answer well within the read timeout, the exchange as a whole longer, strays in front of later answers',
    'C05-w9-c05-m3': 'reported by C13: `available` sampled while connect attempts are in progress',
    'C10-w9-c10-m1': 'record payloads that are not valid UTF-8 in every AdbSyncOp row',
    'C11-w9-c11-m1': 'reported by C10: AdbSyncOp rows replayed on a transport that answers silence with empty reads (not with its own timeout error)',
    'C04-w10-c04-m1': 'reported by C16 and C10 as they stood (async only: a device WRITE that overtakes its OKAY is no longer acknowledged)',
    'C04-w10-c04-m2': 'sessions in which the device hands the same remote id to one stream after the other',
    'C08-w10-c08-m1': 'reported by C16 and C10 as they stood (sync only: early DATA before the OKAY of the RECV request)',
    'C12-w10-c12-m1': 'fault enumeration under fragmented reads: a fault after part of a header or payload was read, then close / connect',
    'C02-w12-c02-m1': 'reported by C15 as it stood (two short writes in a row for one buffer)',
    'C20-w12-c20-m2': 'a libusb error inside a single close(), then use after close; TraceUsb: a read or write that succeeds while not connected is C20.UseAfterClose',
    'C14-w9-c14-m1': 'exploration with an OPEN the device refuses, overlapped by other threads\' opens, everyone opening again',
    'C14-w9-c14-m3': 'line-level schedules with a call that raises inside _open (unusable timeouts) next to other opens',
    'C17-w9-c17-m2': 'signers pickled into a fresh child interpreter, then asked to sign',
    'C17-w9-c17-m3': 'the documented key attributes of a signer that has already signed are replaced (key rotation on a live object)',
    'C01-w8-c01-m1': 'reported by C19: one queue 5000 packets deep (a flow-controlled adbd never parks that many for one stream)',
    'C01-w8-c01-m2': 'a caller\'s subclass that overrides the public streaming_shell(): shell() / exec_out() still return what the device wrote',
    'C03-w8-c03-m1': 'payloads above 4 KiB under fragmentation: the TYPE of what the caller is handed is compared with unfragmented delivery, not only its value',
    'C04-w8-c04-m1': 'reported by C06: a stream kept open across 300 abandoned streams, its CLSE read by another operation',
    'C04-w8-c04-m2': 'monitor clause C04.CloseUnanswered; commands with a whole-command limit on a transport whose every call takes time',
    'C04-w8-c04-m3': 'reported by C10: AdbSyncOp rows in which the device closes the stream INSTEAD of acknowledging the request',
    'C06-w8-c06-m2': 'exploration configs L / M: a pull whose local sink raises while the device still has a WRITE in flight, next to other operations (line-level preemption in read())',
    'C07-w8-c07-m2': 'reported by C10: a service that sends the status of every accepted file twice, then rejects a later file of the directory',
    'C08-w8-c08-m1': 'the same session in child interpreters started with -O and -OO (assert statements compiled away)',
    'C08-w8-c08-m2': 'a slow healthy link: a quiet spell before every packet and a trickling payload, each shorter than the read timeout, together longer',
    'C09-w8-c09-m1': 'device paths in decomposed / compatibility Unicode forms: the device is asked for exactly the code points given',
    'C09-w8-c09-m2': 'not reachable by a legal device for list/stat (see judgement calls); reported by C10 on pushes',
    'C09-w8-c09-m3': 'WRITEs without payload in the packetisation of sync replies (cuts=empties)',
    'C12-w8-c12-m1': 'reported by C01 / C06: a generator of the previous connection advanced while a stream of the new one is in flight',
    'C12-w8-c12-m3': 'a subclass whose close() says good-bye with a command: reconnect without close() after a fault',
    'C13-w8-c13-m3': 'refused pulls aimed at a folder that does not exist (str / bytes / pathlib): nothing may appear on disk',
    'C15-w8-c15-m2': 'a task cancelled in the middle of a message (short writes, a second sender queued): no write after the cancellation except the second sender\'s',
    'C15-w8-c15-m3': 'EINTR (InterruptedError) among the fault kinds, at every index of a short-written buffer',
    'C18-w8-c18-m1': 'connect(None), close(), connect(0.5), then a read without a timeout that must wait',
    'C18-w8-c18-m2': 'the port given as text, with timeouts on the way',
    'C18-w8-c18-m3': 'a write that finds the send buffer full while inbound bytes are pending; the peer makes room within the timeout',
    'C19-w8-c19-m3': 'reported by C06: tour replay (the store no longer matches the as-built model after a generator is closed)',
    'C01-w7-c01-m2': 'shell / exec_out / streaming_shell with every argument given by position in the documented order, raw output asked for',
    'C02-w7-c02-m3': 'reported by C15: sendall-style transports (bulk_write returns None) with messages above 64 KiB',
    'C03-w7-c03-m2': 'a polling transport that reports "nothing yet" 1500 times in a row at one point of the stream, then delivers the rest',
    'C04-w7-c04-m1': 'pushed directories that contain sub-directories (fixed family)',
    'C04-w7-c04-m2': 'maxdata above 1 MiB announced by the device, pushes larger than that',
    'C04-w7-c04-m3': 'generators dropped after a reconnect (`drop` op): nothing may be sent for a stream of the previous connection',
    'C05-w7-c05-m1': 'a device that challenges again after the public key was offered (pubkey modes reauth / reauth_only)',
    'C05-w7-c05-m2': 'reported by C13: `available` sampled while connect attempts are in progress',
    'C06-w7-c06-m3': 'another task on the device is cancelled at a message boundary wherever it is suspended (a canceller that takes every turn of the event loop), not only inside transport calls',
    'C07-w7-c07-m2': 'pushed directories with sub-directories among the entries: (local file, device path) pairs judged per file',
    'C07-w7-c07-m3': 'mtime=0 directory pushes on a ticking clock: each DONE carries the time of its own file (lower bound: arrival of the previous SEND)',
    'C08-w7-c08-m2': 'raising callbacks in a process that turns warnings into errors (ambient `warn_error`, fixed cases)',
    'C08-w7-c08-m3': 'destination names that merely look like shell syntax ($HOME, a directory literally named ~)',
    'C09-w7-c09-m1': 'not reachable by a legal device for list/stat (see judgement calls); reported by C10 on pushes',
    'C09-w7-c09-m3': 'a listing that arrives as one WRITE above 64 KiB over a transport that keeps transfer boundaries',
    'C10-w7-c10-m1': 'directory pushes in which one file is rejected and later ones are not: the rejection surfaces, nothing is pushed after it',
    'C11-w7-c11-m1': 'floods of one foreign stream while the deadline runs',
    'C11-w7-c11-m2': 'a megabyte that trickles in slower than the read timeout allows in total',
    'C11-w7-c11-m3': 'the untimed authentication wait under foreign traffic; the silence budget now withholds handshake packets too',
    'C12-w7-c12-m2': 'faulted async runs with one event loop per public call',
    'C12-w7-c12-m3': 'reported by C01: close() that raises (the transport cannot be closed either) before the reconnect, with late packets parked',
    'C13-w7-c13-m3': 'monitor clauses C13.NothingSentWhenClosed / C13.RaisesWhenClosed on random schedules of operations racing with close()',
    'C15-w7-c15-m2': 'a transport that queues the caller\'s object and transmits it at its next call; messages compared with a transport that copies at once',
    'C15-w7-c15-m3': 'directory push in the failed-write-mid-buffer family; when nothing raised the device must have received exactly the messages of the fault-free run',
    'C16-w7-c16-m1': 'async sessions with one event loop per public call (ambient `loop_per_call`)',
    'C16-w7-c16-m2': 'generators created on one connection state and advanced on another (created unconnected, advanced connected, and the reverse)',
    'C16-w7-c16-m3': 'FileSync requests that do not fit an empty send buffer (paths near the limit), sync and async paired',
    'C17-w7-c17-m3': 'one signer object asked to sign something that is not 20 bytes long first, then ordinary tokens',
    'C18-w7-c18-m3': 'the wall clock is stepped forwards / backwards by an hour while a timed read waits for a peer that answers in time',
    'C19-w7-c19-m2': 'reported by C06: the wanted packet parked under a zero-id pair behind stray packets heading the stream\'s other pairs',
    'C19-w7-c19-m3': 'reported by C06: a reconnect that fails at transport.connect() while packets of a held generator are parked',
    'C20-w7-c20-m3': 'two devices on the same port chain behind different buses, one transport each',
    'C01-w6-c01-m3': 'a write that did reach the device although the transport reported a timeout for it, then further commands',
    'C02-w6-c02-m3': 'authenticated handshakes whose public key text is not ASCII (str / bytes / bytearray)',
    'C03-w6-c03-m2': 'unknown command words in headers that announce a payload which is not there',
    'C03-w6-c03-m3': 'a payload whose byte sum exceeds 2^32 (17 MiB of 0xFF)',
    'C04-w6-c04-m1': 'destinations of 4080 .. 70000 bytes',
    'C04-w6-c04-m3': 'reported by C10: AdbSyncOp rows in which the device closes the stream in mid-reply',
    'C05-w6-c05-m1': 'reported by C13 (available sampled during connect attempts; BaseException out of connect)',
    'C05-w6-c05-m2': 'signers without a public key; SuccessWhenAccepted judged on every code run whose script says the device will accept',
    'C05-w6-c05-m3': 'stray packets before the CNXN that follows the public key, under every kind of auth timeout',
    'C06-w6-c06-m1': 'reported by C07: a push callback that runs stat() on the same device',
    'C06-w6-c06-m2': 'the virtual clock now also answers monotonic() / perf_counter() / *_ns()',
    'C07-w6-c07-m1': 'push callbacks that run a shell command / stat / pull on the same device',
    'C07-w6-c07-m3': 'a working directory that holds directories named like the pushed files',
    'C08-w6-c08-m1': 'ambient variation: a transport that keeps transfer boundaries (USB-like: an undersized read overflows)',
    'C08-w6-c08-m3': 'a pull callback that pulls another file from the same device; lock requests of the holder itself are recorded',
    'C09-w6-c09-m1': 'a directory of 1500 entries (and a pull of 1500 records)',
    'C09-w6-c09-m2': 'the same requests from a child interpreter whose filesystem encoding is ASCII',
    'C09-w6-c09-m3': 'a listing that outlasts read_timeout_s as a whole while a frozen stream is released in the middle of it',
    'C10-w6-c10-m2': 'a rejected file inside a directory push',
    'C11-w6-c11-m1': 'a rejected multi-WRITE push whose device stops acknowledging after its FAIL is on the wire (eager device, end-of-stream / foreign traffic)',
    'C12-w6-c12-m2': 'command output that is itself a well-formed packet header, with a timeout between header and payload',
    'C12-w6-c12-m3': 'reported by C06 (generator left over from the previous connection) and C14',
    'C14-w6-c14-m1': 'a third thread that closes and reconnects in the line-level DFS',
    'C14-w6-c14-m2': 'locks acquired with a timeout (acquire(True, 0) does not wait); opens with transport_timeout_s 0 / -1',
    'C14-w6-c14-m3': 'a stream kept open across every other public operation (root, reboot, stat, list, pull, push, refused OPEN, reconnects), then more opens',
    'C15-w6-c15-m2': 'harness robustness: a destination garbled by interleaved writes is a command the device does not know, not a KeyError',
    'C15-w6-c15-m3': 'short writes on a slow transport: a buffer needs longer than the transport timeout although no single call does',
    'C16-w6-c16-m1': 'values sent into streaming_shell\'s generator (send / asend)',
    'C16-w6-c16-m2': 'callbacks that are falsy objects',
    'C16-w6-c16-m3': 'operations on a device that is not connected, paired (local paths that exist or not); also C13',
    'C17-w6-c17-m3': 'a key path that is itself a symbolic link',
    'C18-w6-c18-m1': 'the peer aborts the connection (RST): close() twice, then connect() again',
    'C18-w6-c18-m2': 'a read without a timeout waits for a peer that stays silent longer than the connect timeout',
    'C19-w6-c19-m1': 'projection accepts any queue container',
    'C19-w6-c19-m2': 'other store objects are created, filled and cleared while a history runs',
    'C19-w6-c19-m3': 'hours of (virtual) wall-clock time pass between the operations of a history',
    'C20-w6-c20-m1': 'writes of 16 .. 70 KB with short transfers; clause WritesAPrefix',
    'C20-w6-c20-m2': 'a read that timed out with part of the data (USBErrorTimeout.received), then close, connect, read; per-connection byte names',
    'C03-c03-m1': 'corruption sweep also over a payload whose genuine checksum is 0 (all zero bytes) and over 0xFF bytes',
}


def first_sentence(note):
    note = ' '.join(note.split())
    m = re.split(r'(?<=[.;:])\s', note, maxsplit=1)
    return (m[0] if m else note)[:230]


def build():
    rows = []
    d = os.path.join(ROOT, 'seeded')
    for sid in sorted(os.listdir(d)):
        mp = os.path.join(d, sid, 'meta.json')
        if not os.path.exists(mp):
            continue
        m = json.load(open(mp))
        caught = []
        for c, v in m['checks'].items():
            if v.get('exit') == 1:
                cl = ''
                for line in v.get('lines', []):
                    if line.startswith('VIOLATION') and 'clause=' in line:
                        cl = line.split('clause=')[-1].strip()
                        break
                caught.append('%s `%s`' % (c, cl) if cl else c)
        status = ' → ' + ', '.join(caught) if caught else ' → **not caught**'
        needs = first_sentence(m.get('needs', ''))
        st = STRENGTHENED.get(sid)
        rows.append('| %s%s | %s | %s | %s |' % (sid, ' *' if st else '', needs.replace('|', '/'), status.replace(' → ', '', 1), st or ''))
    head = ('| id (* = missed at first) | the change, in its author\'s words | reported by (quick tier) | what was strengthened |\n|---|---|---|---|\n')
    n = len(rows)
    caught_n = sum(1 for r in rows if '**not caught**' not in r)
    return head + '\n'.join(rows) + '\n\n%d seeded changes confirmed, %d reported by at least one registered quick check.\n' % (n, caught_n)


def main():
    p = os.path.join(ROOT, 'DESIGN.md')
    s = open(p).read()
    table = '<!-- SEEDED-TABLE-BEGIN -->\n' + build() + '<!-- SEEDED-TABLE-END -->'
    if 'SEEDED_TABLE' in s:
        s = s.replace('SEEDED_TABLE', table)
    else:
        s = re.sub(r'<!-- SEEDED-TABLE-BEGIN -->.*?<!-- SEEDED-TABLE-END -->', lambda _: table, s, flags=re.S)
    open(p, 'w').write(s)
    print('table written')


if __name__ == '__main__':
    main()
