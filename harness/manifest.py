"""Generates /verif/MANIFEST.json from the table below (python -m harness.manifest)."""
import json
import os

ROOT = os.path.dirname(os.path.dirname(os.path.abspath(__file__)))

BASELINE_OFF = ("cd /repo && env -u ADB_SHELL_VERIF /venv/bin/python -m pytest -ra -q -p no:cacheprovider --timeout=900 "
                "--continue-on-collection-errors --junitxml=/tmp/adb_shell_baseline.junit.xml")

TB = 'TLC; the projection/codec in harness/wire.py; harness/simdev.py as a faithful adbd (validated against the Env spec in every trace)'

CHECKS = {
    'C19': dict(
        level='model_checking', design='5/C19',
        technique='TLA+ spec AdbStore explored by TLC; its labelled state graph walked on the real store (every op sequence within the bound); random histories validated by TLC against TraceStore',
        text='TLC enumerates every operation sequence of the C19 quantifier (3x3 ids x 3 ops, 2x2 ids x 5 ops) on the Layer-A store spec and checks FIFO / '
             'lookup soundness+completeness / CLSE-forgets / len on the spec itself; the same graph is then walked on the real _AdbPacketStore, one '
             'implementation step per model edge with results chosen by the implementation where C19 leaves a choice, so the enumeration transfers to the code; '
             'long random histories over 6x6 and 32-bit ids are validated by TLC as traces.',
        note='Bounded: exhaustive only within the stated id domains and lengths. Trusted: ' + TB + '; projection reads _dict/_queue.'),
}

CHECKS.update({
    'C01': dict(
        level='model_checking', design='5/C01',
        technique='TLC enumerates every (content, cut) scenario of ShellScen with expected values computed by the TLA+ Decode rule (cross-checked exhaustively against CPython); replay into shell/exec_out/streaming_shell sync+async; random traces validated against TraceEnv',
        text='Every output of <= 4 (thorough 5) symbols over an alphabet with a split-able 3-byte UTF-8 sequence, an invalid byte and ASCII, cut into WRITE payloads in every way, '
             'is replayed into all six API variants of both implementations and compared with values computed by TLC; large random outputs/cuts/fragmentations/ids are validated as traces by the Layer-A monitor.',
        note='Exhaustive only within the symbol bound; decode=True content restricted to the cross-checked alphabet. Trusted: ' + TB),
    'C02': dict(
        level='model_checking', design='5/C02',
        technique='TLA+ frame encoder (AdbFrame/FrameTable) evaluated by TLC over boundary arguments and payload classes, compared with AdbMessage.pack/unpack/checksum; every host frame of random sessions judged by AdbFrame!FrameClause in TraceEnv',
        text='5103 table rows (7 commands x 81 boundary argument pairs x 9 payload classes incl. 1 MiB of 0xFF) computed by an encoder that shares no code with struct/adb_message, '
             'compared byte for byte for bytes and bytearray payloads; plus the complete outgoing byte stream of random sessions framed by an independent parser and checked clause by clause by TLC.',
        note='Not all 2^64 argument pairs: boundary table plus observed packets. Payloads > 8 MiB outside the integer range. Trusted: ' + TB),
    'C04': dict(
        level='model_checking', design='5/C04',
        technique='protocol monitor AdbMon checked by TLC as an invariant of the design spec AdbHost (all stream shapes, all schedules/device orderings); transition tours replayed into sync+async devices; random sessions validated against TraceEnv',
        text='The AOSP stream rules (fresh non-zero id, arg1=0, NUL-terminated OPEN, id pair on every later packet, one OKAY per consumed WRITE, stop-and-wait, one CLSE, nothing after CLSE) are one TLA+ monitor; '
             'TLC shows the design satisfies it for every interleaving, the tours show the code follows the design, and random sessions with adversarial ids are judged by the same monitor.',
        note='Bounded models (<= 2 threads, <= 2 chunks). Device orderings limited to those adbd can produce (OKAY(k) before reply(k)). Trusted: ' + TB),
    'C06': dict(
        level='model_checking', design='5/C06',
        technique='TLC on AdbHost (intended vs as-built deviation constants; safety, deadlock, liveness under WF); transition tour replay into real threads and asyncio tasks; random real-code schedules validated against TraceEnv with the K1 history signature; design spec AdbCancel (a task cancelled at a message boundary loses nothing) with a canceller that takes every event-loop turn on the code',
        text='Exhaustive exploration of 2-3 concurrent operations at critical-section granularity on the design; every edge of the as-built 2-thread graph replayed on the real code with state comparison; '
             'independent schedule exploration of the real code (uniform / sticky / PCT-style schedules; extra preemption points at writes, local I/O and every line of the store and read(); faults and short writes; generators interleaved in one thread, across reconnects, two device objects, GC inside reads) judged by the Layer-A monitor. K1 was found by this check and fixed (KNOWN_FINDINGS.txt).',
        note='The exhaustive part is at critical-section granularity (design + tour); finer preemption is explored by sampling, not exhaustively. Trusted: ' + TB + '; the scheduler runs one thread at a time.'),
})

CHECKS.update({
    'C05': dict(level='model_checking', design='5/C05',
        technique='design spec AdbAuth (steps 0-7 of connect) with the Layer-A monitor AuthMon conjoined, explored by TLC over the whole product of device configurations; the same product (and 4 keys) executed on sync+async devices with recording signers, traces validated by TLC against TraceAuth',
        text='TLC shows the handshake design satisfies every clause (first packet CNXN, newest token signed, each key once in order, stop at accept, public key only after exhaustion with one callback, auth-timeout wait, success iff final CNXN, maxdata adopted, documented errors, unavailable after raising) for all configurations and two consecutive connects; every configuration is then run on the real code and judged by the same monitor.',
        note='Bounded (<= 3 keys in the model, 4 on the code; <= 2 strays in the model). Recording fake signers; real signers in C17. Trusted: ' + TB),
    'C07': dict(level='model_checking', design='5/C07',
        technique='design spec AdbPush (send-buffer arithmetic) explored by TLC for all scaled configurations; the same module with real constants evaluated into a table of expected WRITE sizes/records replayed as real pushes (sync+async); device-side decoded sync records validated by TLC against SyncMon/TraceSync',
        text='Exact/DataLimit/WriteLimit/NoEmptyWrite/Grammar hold for every (maxdata, size, path length) of the scaled instance; TLC-computed WRITE payload sizes and record sequences for boundary sizes at real maxdata values match the real pushes exactly; every push (BytesIO, file, directory from inside/outside, callbacks ok/raising, random 32-bit modes/mtimes, paths to 1000 chars, multi-MiB) is judged clause by clause.',
        note='Degenerate region maxdata <= 8+len(path,mode) excluded (outside the property). Trusted: ' + TB),
    'C08': dict(level='model_checking', design='5/C08',
        technique='design spec AdbSyncRead (buffered record reader) explored by TLC for every record-size sequence and cut set; every layout replayed at real scale as a pull (sync+async); random pulls validated against SyncMon/TraceSync and TraceEnv',
        text='ParseOK/NoLeftover for all cuts including inside headers; all TLC layouts plus every byte offset of a two-record exchange replayed; random sizes to 4 MiB, record sizes, cuts, fragmentation, destinations, callbacks (ok/raising) judged by PullExact/CallbackSum/CallbackInert and stream-closure clauses.',
        note='Scaled replay (model header byte = 4 real bytes). Trusted: ' + TB),
    'C09': dict(level='model_checking', design='5/C09',
        technique='AdbSyncRead layouts from TLC replayed as directory listings (20-byte DENT headers) and stat replies cut at every offset; random listings validated field by field (16-bit limbs) by SyncMon/TraceSync',
        text='Every TLC layout as a listing, stat at all 15 offsets and 27 boundary-value triples, random listings up to 300 entries with arbitrary name bytes and 32-bit fields under arbitrary packetisation.',
        note='Names compared as bytes. Trusted: ' + TB),
    'C10': dict(level='model_checking', design='5/C10',
        technique='AdbHost with rejected multi-WRITE pushes (FAIL free to overtake later OKAYs) explored by TLC, intended vs DEV_F5; tour replay; grid of rejection point x size x ordering x reason x packetisation on sync+async validated by SyncMon/TraceSync; record-level design spec AdbSyncOp (stat / list / pull / push against every reply script, silence, a failing sink), every row replayed on the code',
        text='Design: no stuck state and the FAIL is delivered for every ordering; code: every rejected transfer ends in the documented exception carrying the reason, never a success, never a timeout. F5 was found by this check and fixed (KNOWN_FINDINGS.txt).',
        note='Status ids restricted to FILESYNC_IDS; reorderings restricted to what adbd can produce. Trusted: ' + TB),
    'C13': dict(level='model_checking', design='5/C13',
        technique='life-cycle spec AdbApi (availability, one-call operations, the streaming generator, failing close, connect attempts ended by any exception) explored by TLC; its labelled graph walked on fresh sync+async device objects for every letter sequence (full alphabet to length 3/4, operation classes to 4/6), the set of possible model states carried along; design spec AdbCloseRace (close() racing with operations, conjoined with the Layer-A monitor) and random schedules of the real code racing operations against close()',
        text='Outcome class, whether the transport was asked to write, .available (also sampled at every transport call of a connect attempt) and local files compared with the model edges after every step of every sequence; model-edge coverage reported.',
        note='Trusted: ' + TB),
    'C14': dict(level='model_checking', design='5/C14',
        technique='AdbAlloc (one action per source line of the id allocation block) explored by TLC with lock / sanity mutation without; model paths replayed with sys.settrace line-level preemption; exhaustive line-level DFS of the real block judged by the C14 clauses of TraceEnv; opens that fail after taking their id (design: ids are spent, never handed back; code: refused OPENs and raising calls overlapped by other opens); thorough tier: inductive invariant of AdbAllocInd (the same allocator with M = 2^32 and any start value) discharged by Apalache, and checked by TLC with M = 9',
        text='IdRange and UniqueLive for 2-3 concurrent opens and counters at 0, M-3..M-1; every model path replayed on real threads; all line-level interleavings of two real _open calls (and random ones of three) near 0 and 2^32 judged on the OPEN packets on the wire.',
        note='Line-level interleavings exhaustively (2 threads); bytecode-level with one preemption at every instruction of _open. Trusted: ' + TB + '; sys.settrace.'),
})

CHECKS.update({
    'C03': dict(level='model_checking', design='5/C03',
        technique='design spec AdbReader (need-driven read loop, command/checksum validation) explored by TLC for every fragmentation incl. empty reads; transition tours imposed on the in-memory transport with every bulk_read request compared; paired fragmented/unfragmented sessions, corruption and unknown-command sweeps validated against TraceReader',
        text='NoOverRead/ExactReassembly/CorruptNeverDelivered/RightError on the design for good, corrupt and unknown-command packets; every edge of the read graphs of a connect+shell exchange replayed on sync+async; every read of random sessions judged against the frame boundary; all single-bit/byte corruptions of a 64-byte payload; unknown command words incl. all single-bit neighbours of the known ones.',
        note='Scaled tour (model header byte = 8 real bytes). Trusted: ' + TB),
    'C11': dict(level='model_checking', design='5/C11',
        technique='design spec AdbTimed (deadline checks, timeout normalisation) explored by TLC against the most general stalling adversary, tight constant computed (K=3 holds, K=2 fails), the converse bound NotEarly with ghost timers; every operation x await point x stall kind x timeout grid run under a virtual clock and validated against TraceTimed',
        text='Bounded/Ordered/RightError on the design; on the code every packet an operation awaits is withheld in turn under five stall kinds and a grid including None, 0 and negatives; elapsed virtual time, error class, fabricated results and the timeout of every transport call are judged. F6 (pull+callback ignoring its timeouts) was found by this check and fixed.',
        note='Virtual clock (every transport call costs 10 ms); K=6/12 on the code vs K=3 in the model. Trusted: ' + TB),
    'C12': dict(level='fault_enumeration', design='5/C12',
        technique='design spec AdbRecover (with-block lock discipline, clearing on connect/close, session epochs) explored by TLC with sanity mutations; exhaustive injection of every fault kind at every transport-call index of a scenario covering all operations, then close/reconnect/replay, validated against TraceRecover',
        text='Every index k of the ~115 transport calls x {timeout, reset, end-of-stream} x {sync, async} (thorough: random pairs, faults during recovery): the faulted operation raises or returns the right value, no lock stays held (detector locks), close completes, reconnect succeeds, the replayed scenario gives the fault-free results.',
        note='One scenario shape; the session is closed after the faulted operation. Trusted: ' + TB),
    'C15': dict(level='model_checking', design='5/C15',
        technique='design spec AdbWriter (two writers, resubmission of the remainder, failing writes, a transport that transmits the queued object later; sanity mutations IgnoreShortWrite, ResubmitStale, LockPerCall, ReuseHeader) explored by TLC; every capacity sequence over {1,2,half,len-1,len} up to 4 calls and random capacities on the in-memory transport, plus real loopback TCP with 4 KiB buffers and a slow reader, the peer-side byte stream judged by the frame clauses of TraceEnv',
        text='PeerGetsAll/InOrderNoGap on the design; on the code a gap or truncation is recognised on the peer side by an independent frame parser; large pushes over a real non-blocking socket must arrive intact. F1 was found by this check and fixed.',
        note='Loopback runs use real time but judge only byte-stream integrity. Trusted: ' + TB + '; the kernel TCP stack.'),
    'C16': dict(level='translation_validation', design='5/C16',
        technique='every scenario of the other checks (random/adversarial sessions, rejected transfers, handshake scripts, stalls, faults, short writes) run through AdbDevice and AdbDeviceAsync against identical simulators; paired Layer-A observables compared by TLC (TraceTwin), each run also accepted by TraceEnv; TCP transports paired on the C18 driver scripts',
        text='programs = paired scenarios; disagreements_checked = paired observables (host packets byte for byte, results, exception classes, .available).',
        note='Sequential scenarios only here; concurrent pairing through the tours of C06 (one model, two implementations). Trusted: ' + TB),
    'C17': dict(level='other', design='5/C17',
        technique='handshakes with the three real signer classes and keygen-written key files against a simulated adbd that verifies by pure-integer RSA and authorises exactly the key decoded from the offered blob; validated by TLC against TraceAuth; numeric content decided by harness/rsaproj.py',
        text='TLA+ contributes the protocol context (which token, which key, when the public key may be offered, persistence of the authorised key across sessions); EMSA-PKCS1-v1_5 over the token as a SHA-1 digest and the 524-byte Android RSAPublicKey layout are checked by independent arithmetic. F3 was found by this check and fixed.',
        note='2048-bit arithmetic is outside what TLC explores; cryptography is trusted to read the PEM public numbers.'),
    'C18': dict(level='model_checking', design='5/C18',
        technique='contract spec AdbTransport explored by TLC; a transition tour of its graph executed by a sequential driver owning both socket ends against TcpTransport and TcpTransportAsync on loopback, every step validated against TraceTransport; whole sessions over a socket server running the simulator compared with the in-memory transport',
        text='ReadAtMost, InOrderNoLossNoDup, TimeoutOnlyWhenEmpty, TimeoutError class, TimeoutNotEarly (20 % slack, lower bound only), CloseIdempotent, Reconnectable, SessionSame.',
        note='Real sockets and real time; no upper time bounds. Trusted: ' + TB + '; the kernel TCP stack.'),
    'C20': dict(level='model_checking', design='5/C20',
        technique='contract spec AdbTransport (scripts) + TraceUsb monitor; UsbTransport driven over a fake usb1 module (installed before import) with short transfers, backend errors at every call index, timeouts None/0/fractional, use after close; whole sessions wired to the simulator',
        text='ClaimsOnConnect, WritesToOut, ReadsFromIn, ReadAtMost, InOrder, TimeoutMs, ErrorsMapped, UseAfterClose, CloseIdempotent, Reconnectable, SessionSame.',
        note='The backend is a model of libusb1 as documented; no hardware.'),
})

NOT_YET = {}


def build():
    props = [json.loads(l)['id'] for l in open(os.path.join(ROOT, 'properties.jsonl'))]
    checks = []
    for pid in props:
        c = CHECKS.get(pid)
        if not c:
            continue
        checks.append(dict(
            property_id=pid,
            quick_cmd='./check %s --tier quick' % pid,
            thorough_cmd='./check %s --tier thorough' % pid,
            evidence_file='evidence/%s.json' % pid,
            replay_cmd_template='./check %s --replay {path}' % pid,
            engine='tlc',
            level_claimed=dict(category=c['level'], text=c['text'], design_ref='DESIGN.md section ' + c['design']),
            level_note=c['note'],
            technique=c['technique']))
    na = [dict(property_id=p, reason=NOT_YET.get(p, 'check not built yet in this round (planned, see DESIGN.md section 9); not claimed until it runs'))
          for p in props if p not in CHECKS]
    m = dict(
        version=1,
        setup_cmd='./check --setup',
        hooks=dict(guard='ADB_SHELL_VERIF', enable='no source hooks: checks set ADB_SHELL_VERIF=1 and observe through the transport object, the Lock/time names of the device modules and sys.settrace',
                   baseline_off_cmd=BASELINE_OFF, source_commits=[], add_only=True),
        engines=[dict(name='tlc', path='/usr/local/bin/tlc', serves_properties=sorted(CHECKS),
                      kind_free_text='TLA+ specifications in /verif/tla checked by TLC 1.8; bound to the code by graph walks / transition tours (spec->code) and batch trace validation (code->spec)')],
        checks=checks,
        not_applicable=na,
        notes='See DESIGN.md. Exit codes: 0 held, 1 VIOLATION line, 2 machinery failure.')
    return m


if __name__ == '__main__':
    m = build()
    with open(os.path.join(ROOT, 'MANIFEST.json'), 'w') as f:
        json.dump(m, f, indent=1)
    print('MANIFEST.json: %d checks, %d not_applicable' % (len(m['checks']), len(m['not_applicable'])))
