"""Generates /verif/MANIFEST.json from the table below (python -m harness.manifest)."""
import json
import os

ROOT = os.path.dirname(os.path.dirname(os.path.abspath(__file__)))

BASELINE_OFF = ("cd /repo && env -u ADB_SHELL_VERIF /venv/bin/python -m pytest -ra -q -p no:cacheprovider --timeout=900 "
                "--continue-on-collection-errors --junitxml=/tmp/adb_shell_baseline.junit.xml")

TB = 'TLC; the projection/codec in harness/wire.py; harness/simdev.py as a faithful adbd (validated against the Env spec in every trace)'

CHECKS = {
    'C19': dict(
        level='model_checking', design='5/C19',
        technique='TLA+ spec AdbStore explored by TLC; its labelled state graph walked on the real store (every op sequence within the bound); random histories validated by TLC against TraceStore',
        text='TLC enumerates every operation sequence of the C19 quantifier (3x3 ids x 3 ops, 2x2 ids x 5 ops) on the Layer-A store spec and checks FIFO / '
             'lookup soundness+completeness / CLSE-forgets / len on the spec itself; the same graph is then walked on the real _AdbPacketStore, one '
             'implementation step per model edge with results chosen by the implementation where C19 leaves a choice, so the enumeration transfers to the code; '
             'long random histories over 6x6 and 32-bit ids are validated by TLC as traces.',
        note='Bounded: exhaustive only within the stated id domains and lengths. Trusted: ' + TB + '; projection reads _dict/_queue.'),
}

CHECKS.update({
    'C01': dict(
        level='model_checking', design='5/C01',
        technique='TLC enumerates every (content, cut) scenario of ShellScen with expected values computed by the TLA+ Decode rule (cross-checked exhaustively against CPython); replay into shell/exec_out/streaming_shell sync+async; random traces validated against TraceEnv',
        text='Every output of <= 4 (thorough 5) symbols over an alphabet with a split-able 3-byte UTF-8 sequence, an invalid byte and ASCII, cut into WRITE payloads in every way, '
             'is replayed into all six API variants of both implementations and compared with values computed by TLC; large random outputs/cuts/fragmentations/ids are validated as traces by the Layer-A monitor.',
        note='Exhaustive only within the symbol bound; decode=True content restricted to the cross-checked alphabet. Trusted: ' + TB),
    'C02': dict(
        level='model_checking', design='5/C02',
        technique='TLA+ frame encoder (AdbFrame/FrameTable) evaluated by TLC over boundary arguments and payload classes, compared with AdbMessage.pack/unpack/checksum; every host frame of random sessions judged by AdbFrame!FrameClause in TraceEnv',
        text='5103 table rows (7 commands x 81 boundary argument pairs x 9 payload classes incl. 1 MiB of 0xFF) computed by an encoder that shares no code with struct/adb_message, '
             'compared byte for byte for bytes and bytearray payloads; plus the complete outgoing byte stream of random sessions framed by an independent parser and checked clause by clause by TLC.',
        note='Not all 2^64 argument pairs: boundary table plus observed packets. Payloads > 8 MiB outside the integer range. Trusted: ' + TB),
    'C04': dict(
        level='model_checking', design='5/C04',
        technique='protocol monitor AdbMon checked by TLC as an invariant of the design spec AdbHost (all stream shapes, all schedules/device orderings); transition tours replayed into sync+async devices; random sessions validated against TraceEnv',
        text='The AOSP stream rules (fresh non-zero id, arg1=0, NUL-terminated OPEN, id pair on every later packet, one OKAY per consumed WRITE, stop-and-wait, one CLSE, nothing after CLSE) are one TLA+ monitor; '
             'TLC shows the design satisfies it for every interleaving, the tours show the code follows the design, and random sessions with adversarial ids are judged by the same monitor.',
        note='Bounded models (<= 2 threads, <= 2 chunks). Device orderings limited to those adbd can produce (OKAY(k) before reply(k)). Trusted: ' + TB),
    'C06': dict(
        level='model_checking', design='5/C06',
        technique='TLC on AdbHost (intended vs as-built deviation constants; safety, deadlock, liveness under WF); transition tour replay into real threads and asyncio tasks; random real-code schedules validated against TraceEnv with the K1 history signature',
        text='Exhaustive exploration of 2-3 concurrent operations at critical-section granularity on the design; every edge of the as-built 2-thread graph replayed on the real code with state comparison; '
             'independent schedule exploration of the real code judged by the Layer-A monitor. K1 is a known finding (KNOWN_FINDINGS.txt).',
        note='Preemption only at lock/transport boundaries; line-level preemption inside critical sections not explored. Trusted: ' + TB + '; the scheduler runs one thread at a time.'),
})

NOT_YET = {}


def build():
    props = [json.loads(l)['id'] for l in open(os.path.join(ROOT, 'properties.jsonl'))]
    checks = []
    for pid in props:
        c = CHECKS.get(pid)
        if not c:
            continue
        checks.append(dict(
            property_id=pid,
            quick_cmd='./check %s --tier quick' % pid,
            thorough_cmd='./check %s --tier thorough' % pid,
            evidence_file='evidence/%s.json' % pid,
            replay_cmd_template='./check %s --replay {path}' % pid,
            engine='tlc',
            level_claimed=dict(category=c['level'], text=c['text'], design_ref='DESIGN.md section ' + c['design']),
            level_note=c['note'],
            technique=c['technique']))
    na = [dict(property_id=p, reason=NOT_YET.get(p, 'check not built yet in this round (planned, see DESIGN.md section 9); not claimed until it runs'))
          for p in props if p not in CHECKS]
    m = dict(
        version=1,
        setup_cmd='./check --setup',
        hooks=dict(guard='ADB_SHELL_VERIF', enable='no source hooks: checks set ADB_SHELL_VERIF=1 and observe through the transport object, the Lock/time names of the device modules and sys.settrace',
                   baseline_off_cmd=BASELINE_OFF, source_commits=[], add_only=True),
        engines=[dict(name='tlc', path='/usr/local/bin/tlc', serves_properties=sorted(CHECKS),
                      kind_free_text='TLA+ specifications in /verif/tla checked by TLC 1.8; bound to the code by graph walks / transition tours (spec->code) and batch trace validation (code->spec)')],
        checks=checks,
        not_applicable=na,
        notes='See DESIGN.md. Exit codes: 0 held, 1 VIOLATION line, 2 machinery failure.')
    return m


if __name__ == '__main__':
    m = build()
    with open(os.path.join(ROOT, 'MANIFEST.json'), 'w') as f:
        json.dump(m, f, indent=1)
    print('MANIFEST.json: %d checks, %d not_applicable' % (len(m['checks']), len(m['not_applicable'])))
