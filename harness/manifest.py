"""Generates /verif/MANIFEST.json from the table below (python -m harness.manifest)."""
import json
import os

ROOT = os.path.dirname(os.path.dirname(os.path.abspath(__file__)))

BASELINE_OFF = ("cd /repo && env -u ADB_SHELL_VERIF /venv/bin/python -m pytest -ra -q -p no:cacheprovider --timeout=900 "
                "--continue-on-collection-errors --junitxml=/tmp/adb_shell_baseline.junit.xml")

TB = 'TLC; the projection/codec in harness/wire.py; harness/simdev.py as a faithful adbd (validated against the Env spec in every trace)'

CHECKS = {
    'C19': dict(
        level='model_checking', design='5/C19',
        technique='TLA+ spec AdbStore explored by TLC; its labelled state graph walked on the real store (every op sequence within the bound); random histories validated by TLC against TraceStore',
        text='TLC enumerates every operation sequence of the C19 quantifier (3x3 ids x 3 ops, 2x2 ids x 5 ops) on the Layer-A store spec and checks FIFO / '
             'lookup soundness+completeness / CLSE-forgets / len on the spec itself; the same graph is then walked on the real _AdbPacketStore, one '
             'implementation step per model edge with results chosen by the implementation where C19 leaves a choice, so the enumeration transfers to the code; '
             'long random histories over 6x6 and 32-bit ids are validated by TLC as traces.',
        note='Bounded: exhaustive only within the stated id domains and lengths. Trusted: ' + TB + '; projection reads _dict/_queue.'),
}

NOT_YET = {}


def build():
    props = [json.loads(l)['id'] for l in open(os.path.join(ROOT, 'properties.jsonl'))]
    checks = []
    for pid in props:
        c = CHECKS.get(pid)
        if not c:
            continue
        checks.append(dict(
            property_id=pid,
            quick_cmd='./check %s --tier quick' % pid,
            thorough_cmd='./check %s --tier thorough' % pid,
            evidence_file='evidence/%s.json' % pid,
            replay_cmd_template='./check %s --replay {path}' % pid,
            engine='tlc',
            level_claimed=dict(category=c['level'], text=c['text'], design_ref='DESIGN.md section ' + c['design']),
            level_note=c['note'],
            technique=c['technique']))
    na = [dict(property_id=p, reason=NOT_YET.get(p, 'check not built yet in this round (planned, see DESIGN.md section 9); not claimed until it runs'))
          for p in props if p not in CHECKS]
    m = dict(
        version=1,
        setup_cmd='./check --setup',
        hooks=dict(guard='ADB_SHELL_VERIF', enable='no source hooks: checks set ADB_SHELL_VERIF=1 and observe through the transport object, the Lock/time names of the device modules and sys.settrace',
                   baseline_off_cmd=BASELINE_OFF, source_commits=[], add_only=True),
        engines=[dict(name='tlc', path='/usr/local/bin/tlc', serves_properties=sorted(CHECKS),
                      kind_free_text='TLA+ specifications in /verif/tla checked by TLC 1.8; bound to the code by graph walks / transition tours (spec->code) and batch trace validation (code->spec)')],
        checks=checks,
        not_applicable=na,
        notes='See DESIGN.md. Exit codes: 0 held, 1 VIOLATION line, 2 machinery failure.')
    return m


if __name__ == '__main__':
    m = build()
    with open(os.path.join(ROOT, 'MANIFEST.json'), 'w') as f:
        json.dump(m, f, indent=1)
    print('MANIFEST.json: %d checks, %d not_applicable' % (len(m['checks']), len(m['not_applicable'])))
