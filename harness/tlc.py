"""TLC drivers: model checking, edge streams (spec->code), batch trace validation (code->spec)."""
import json
import os
import re
import shutil
import subprocess
import tempfile
import time

ROOT = os.path.dirname(os.path.dirname(os.path.abspath(__file__)))
TLA = os.path.join(ROOT, 'tla')
WORK = os.path.join(ROOT, '.work')


class TlcError(Exception):
    """Machinery failure (parse error, TLC crash, timeout)."""


class Result(object):
    def __init__(self):
        self.generated = 0
        self.distinct = 0
        self.violations = []   # dict(kind, name, trace=[state text,...])
        self.out = ''
        self.wall = 0.0
        self.cmd = ''
        self.coverage = {}
        self.prints = []
        self.depth = 0

    @property
    def ok(self):
        return not self.violations


def workdir(prefix='w'):
    os.makedirs(WORK, exist_ok=True)
    return tempfile.mkdtemp(prefix=prefix + '-', dir=WORK)


def cfg_text(constants=None, spec='Spec', invariants=(), properties=(), constraints=(), action_constraints=(), view=None,
             deadlock=False, init=None, next_=None, symmetry=None, postcondition=None, alias=None):
    lines = []
    if constants:
        lines.append('CONSTANTS')
        for k, v in constants.items():
            lines.append('  %s %s' % (k, v) if v.startswith('<-') else '  %s = %s' % (k, v))
    if init:
        lines.append('INIT %s' % init)
        lines.append('NEXT %s' % next_)
    else:
        lines.append('SPECIFICATION %s' % spec)
    for i in invariants:
        lines.append('INVARIANT %s' % i)
    for p in properties:
        lines.append('PROPERTY %s' % p)
    for c in constraints:
        lines.append('CONSTRAINT %s' % c)
    for c in action_constraints:
        lines.append('ACTION_CONSTRAINT %s' % c)
    if view:
        lines.append('VIEW %s' % view)
    if symmetry:
        lines.append('SYMMETRY %s' % symmetry)
    if postcondition:
        lines.append('POSTCONDITION %s' % postcondition)
    if alias:
        lines.append('ALIAS %s' % alias)
    lines.append('CHECK_DEADLOCK %s' % ('TRUE' if deadlock else 'FALSE'))
    return '\n'.join(lines) + '\n'


def tla_value(v):
    """Python value -> TLA+ expression text."""
    if isinstance(v, bool):
        return 'TRUE' if v else 'FALSE'
    if isinstance(v, int):
        return str(v) if v >= 0 else '(0 - %d)' % (-v)
    if isinstance(v, str):
        return '"%s"' % v
    if isinstance(v, (list, tuple)):
        return '<<' + ', '.join(tla_value(x) for x in v) + '>>'
    if isinstance(v, (set, frozenset)):
        return '{' + ', '.join(tla_value(x) for x in sorted(v, key=repr)) + '}'
    if isinstance(v, dict):
        if not v:
            return '<<>>'
        if all(isinstance(k, str) and re.match(r'^[A-Za-z_][A-Za-z0-9_]*$', k) for k in v):
            return '[' + ', '.join('%s |-> %s' % (k, tla_value(x)) for k, x in v.items()) + ']'
        return '(' + ' @@ '.join('%s :> %s' % (tla_value(k), tla_value(x)) for k, x in v.items()) + ')'
    raise TypeError(v)


class Raw(str):
    """TLA+ expression text passed through unchanged."""


def mc_module(name, extends, defs):
    """A wrapper module defining constants as operators (cfg files take neither tuples nor negatives)."""
    body = '\n'.join('%s == %s' % (k, v if isinstance(v, Raw) else tla_value(v)) for k, v in defs.items())
    return '---- MODULE %s ----\nEXTENDS %s\n%s\n====\n' % (name, extends, body)


_RE_SUM = re.compile(r'(\d+) states generated, (\d+) distinct states found')
_RE_DEPTH = re.compile(r'The depth of the complete state graph search is (\d+)')


def run(module, cfg, wd=None, workers=16, env=None, timeout=900, simulate=None, depth=None, seed=None, coverage=False, cont=False,
        extra=(), keep=False, dfid=None, module_dir=None):
    """Run TLC on <module>.tla (found in module_dir or /verif/tla) with the cfg text given."""
    own = wd is None
    wd = wd or workdir(module)
    module_dir = module_dir or TLA
    cfgp = os.path.join(wd, module + '.cfg')
    with open(cfgp, 'w') as f:
        f.write(cfg)
    meta = os.path.join(wd, 'meta')
    cmd = ['tlc', '-workers', str(workers), '-metadir', meta, '-noGenerateSpecTE', '-config', cfgp]
    if coverage:
        cmd += ['-coverage', '1']
    if cont:
        cmd += ['-continue']
    if simulate:
        cmd += ['-simulate', simulate]
    if depth:
        cmd += ['-depth', str(depth)]
    if seed is not None:
        cmd += ['-seed', str(seed)]
    cmd += list(extra)
    cmd += [os.path.join(module_dir, module + '.tla')]
    e = dict(os.environ)
    lib = TLA if module_dir == TLA else module_dir + os.pathsep + TLA
    e['JAVA_TOOL_OPTIONS'] = (e.get('JAVA_TOOL_OPTIONS', '') + ' -DTLA-Library=' + lib + ' -Djava.io.tmpdir=' + wd).strip()   # TLC leaves an empty tlc-* directory in java.io.tmpdir: keep it inside the run's own scratch directory
    if env:
        e.update(env)
    t0 = time.time()
    try:
        p = subprocess.run(cmd, stdout=subprocess.PIPE, stderr=subprocess.STDOUT, env=e, timeout=timeout, cwd=wd)
    except subprocess.TimeoutExpired:
        subprocess.run(['pkill', '-f', 'tlc2[.]TLC.*' + os.path.basename(wd)])
        raise TlcError('TLC timed out after %ds: %s' % (timeout, ' '.join(cmd)))
    r = Result()
    r.wall = time.time() - t0
    r.cmd = ' '.join(cmd)
    r.out = p.stdout.decode('utf8', 'replace')
    parse(r)
    if own and not keep:
        shutil.rmtree(wd, ignore_errors=True)
    fatal = [l for l in r.out.splitlines() if l.startswith('Error:') and not any(k in l for k in (
        'is violated', 'Deadlock reached', 'The behavior up to this point', 'Temporal properties were violated',
        'The following behavior constitutes a counter-example'))]
    if p.returncode not in (0, 10, 11, 12, 13) or (fatal and not r.violations):
        raise TlcError('TLC failed (rc=%d): %s\n%s' % (p.returncode, r.cmd, r.out[-4000:]))
    if fatal and any('evaluat' in l or 'Parsing' in l or 'exception' in l.lower() for l in fatal):
        raise TlcError('TLC failed (rc=%d): %s\n%s' % (p.returncode, r.cmd, r.out[-4000:]))
    return r


def parse(r):
    out = r.out
    for m in _RE_SUM.finditer(out):
        r.generated, r.distinct = int(m.group(1)), int(m.group(2))
    m = _RE_DEPTH.search(out)
    if m:
        r.depth = int(m.group(1))
    lines = out.splitlines()
    i = 0
    cur = None
    while i < len(lines):
        l = lines[i]
        m = re.match(r'Error: Invariant (\S+) is violated', l)
        if m:
            cur = dict(kind='invariant', name=m.group(1), trace=[])
            r.violations.append(cur)
        elif l.startswith('Error: Deadlock reached'):
            cur = dict(kind='deadlock', name='Deadlock', trace=[])
            r.violations.append(cur)
        elif re.match(r'Error: Action property (\S+) is violated', l):
            cur = dict(kind='action', name=re.match(r'Error: Action property (\S+) is violated', l).group(1), trace=[])
            r.violations.append(cur)
        elif l.startswith('Error: Temporal properties were violated'):
            cur = dict(kind='temporal', name='Temporal', trace=[])
            r.violations.append(cur)
        elif re.match(r'State \d+:', l) and cur is not None:
            st = [l]
            i += 1
            while i < len(lines) and lines[i].strip() != '' and not re.match(r'State \d+:', lines[i]) and not lines[i].startswith('Error:'):
                st.append(lines[i])
                i += 1
            cur['trace'].append('\n'.join(st))
            continue
        elif l.startswith('<<"') or l.startswith('"'):
            r.prints.append(l)
        i += 1
    # coverage: "<Action line ... of module M>: distinct:total"
    for m in re.finditer(r'^<(\w+) line \d+, col \d+ to line \d+, col \d+ of module (\w+)>: (\d+):(\d+)', out, re.M):
        k = m.group(1)
        r.coverage[k] = r.coverage.get(k, 0) + int(m.group(4))


def printed(r, tag):
    """Values printed with PrintT(<<tag, ToJson(x)>>) -> list of python objects."""
    out = []
    pre = '<<"%s", ' % tag
    for l in r.prints:
        if l.startswith(pre):
            s = l[len(pre): l.rindex('>>')]
            out.append(json.loads(json.loads(s)))
    return out


def printed_tuples(r, tag):
    """Lines PrintT(<<tag, a, b, "c">>) with ints/strings only -> list of lists."""
    out = []
    pre = '<<"%s", ' % tag
    for l in r.prints:
        if l.startswith(pre):
            out.append(json.loads('[' + l[len(pre): l.rindex('>>')] + ']'))
    return out


CACHE = os.path.join(ROOT, 'cache')


def cached_run(module, cfg, tags=('EDGE',), timeout=3600, workers=1, depends=(), module_dir=None, extra_key=''):
    """TLC run whose result depends only on the specification (edge streams): cached under /verif/cache,
    keyed by the text of every module in /verif/tla it can depend on plus the cfg."""
    import gzip
    import hashlib
    h = hashlib.sha256()
    for fn in sorted(os.listdir(TLA)):
        if fn.endswith('.tla') and (not depends or fn[:-4] in depends):
            h.update(open(os.path.join(TLA, fn), 'rb').read())
    h.update(cfg.encode())
    h.update(module.encode())
    h.update(extra_key.encode())
    key = h.hexdigest()[:24]
    os.makedirs(CACHE, exist_ok=True)
    path = os.path.join(CACHE, '%s-%s.json.gz' % (module, key))
    if os.path.exists(path):
        try:
            with gzip.open(path, 'rt') as f:
                d = json.load(f)
            r = Result()
            r.generated, r.distinct, r.wall, r.cmd, r.prints, r.depth = d['generated'], d['distinct'], d['wall'], d['cmd'] + '   (cached)', d['prints'], d.get('depth', 0)
            r.coverage = d.get('coverage', {})
            return r
        except Exception:  # noqa
            os.remove(path)
    r = run(module, cfg, workers=workers, timeout=timeout, module_dir=module_dir)
    if r.violations:
        return r
    keep = [l for l in r.prints if any(l.startswith('<<"%s"' % t) for t in tags)]
    tmp = path + '.tmp%d' % os.getpid()
    with gzip.open(tmp, 'wt') as f:
        json.dump(dict(generated=r.generated, distinct=r.distinct, wall=r.wall, cmd=r.cmd, prints=keep, depth=r.depth, coverage=r.coverage), f)
    os.replace(tmp, path)
    return r


def sany(path):
    p = subprocess.run(['tla-sany', path], stdout=subprocess.PIPE, stderr=subprocess.STDOUT, cwd=os.path.dirname(path),
                       env=dict(os.environ, JAVA_TOOL_OPTIONS='-DTLA-Library=' + TLA))
    o = p.stdout.decode('utf8', 'replace')
    return ('Semantic errors' not in o and 'Parse Error' not in o and 'Fatal' not in o and 'Could not' not in o and p.returncode == 0), o


def validate_traces(module, traces, constants=None, workers=8, timeout=900, extra_data=None, keep=False):
    """Batch validation: `traces` is a list of event lists.  The trace module prints one
    <<"VERDICT", tid, l, "clause">> line per trace.  Returns list of (tid0, l, verdict) for all traces."""
    wd = workdir('tr' + module)
    tf = os.path.join(wd, 'traces.json')
    data = {'traces': traces}
    if extra_data:
        data.update(extra_data)
    with open(tf, 'w') as f:
        json.dump(data, f)
    cfg = cfg_text(constants=constants, spec='Spec', invariants=['TypeOK'])
    try:
        r = run(module, cfg, wd=wd, workers=workers, env={'TRACE_FILE': tf}, timeout=timeout)
    finally:
        if not keep:
            shutil.rmtree(wd, ignore_errors=True)
    if r.violations:
        raise TlcError('trace monitor %s is not total: %s\n%s' % (module, r.violations[0]['name'], '\n'.join(r.violations[0]['trace'][-2:])))
    ver = {}
    for v in printed_tuples(r, 'VERDICT'):
        ver[v[0]] = (v[1], v[2])
    if len(ver) != len(traces):
        raise TlcError('trace monitor %s: %d verdicts for %d traces\n%s' % (module, len(ver), len(traces), r.out[-3000:]))
    return [(i, ver[i + 1][0], ver[i + 1][1]) for i in range(len(traces))], r
