"""Run every check's quick tier against behaviour-preserving refactorings of the library (produced by independent sub-agents that
were told to keep every observable behaviour): a check that does not hold on such a tree is a false alarm of the machinery.

  python -m harness.benign <outdir with r1..rN> [--jobs 5] [--checks C01,C06]

For each refactoring: apply the patch in a scratch worktree of /repo (outside /repo and /verif), confirm the repository's suite still
passes, run the checks with --repo <worktree> --no-evidence, report exit codes and VIOLATION / MACHINERY-FAILURE / DESIGN-DRIFT lines.
DESIGN-DRIFT lines are expected where a refactoring moves the lines a design spec transcribes; they are not alarms (exit 0).
"""
import concurrent.futures
import json
import os
import shutil
import subprocess
import sys
import time

ROOT = os.path.dirname(os.path.dirname(os.path.abspath(__file__)))


def sh(cmd, **kw):
    p = subprocess.run(cmd, shell=isinstance(cmd, str), stdout=subprocess.PIPE, stderr=subprocess.STDOUT, **kw)
    return p.returncode, p.stdout.decode('utf8', 'replace')


def main():
    out = sys.argv[1]
    jobs, checks = 5, ['C%02d' % i for i in range(1, 21)]
    for i, a in enumerate(sys.argv):
        if a == '--jobs':
            jobs = int(sys.argv[i + 1])
        if a == '--checks':
            checks = sys.argv[i + 1].split(',')
    results = {}
    for r in sorted(os.listdir(out)):
        d = os.path.join(out, r)
        if not os.path.exists(os.path.join(d, 'patch.diff')):
            continue
        wt = '/tmp/benign-%s-%d' % (r, os.getpid())
        sh(['git', '-C', '/repo', 'worktree', 'add', '-q', '--detach', wt, 'HEAD'])
        try:
            rc, o = sh(['git', '-C', wt, 'apply', os.path.join(d, 'patch.diff')])
            if rc != 0:
                results[r] = dict(error='patch does not apply: ' + o[-200:])
                continue
            env = dict(os.environ, PYTHONPATH=wt, PYTHONDONTWRITEBYTECODE='1')
            rc, o = sh('cd %s && /venv/bin/python -m pytest -q -p no:cacheprovider tests 2>&1 | tail -3' % wt, env=env)
            suite_ok = ' passed' in o and ' failed' not in o
            res = dict(suite=o.strip().splitlines()[-1] if o.strip() else '', suite_passes=suite_ok, checks={})

            def one(c):
                t0 = time.time()
                rc_, o_ = sh([os.path.join(ROOT, 'check'), c, '--tier', 'quick', '--repo', wt, '--no-evidence'], cwd=ROOT, timeout=3600)
                lines = [l[:400] for l in o_.splitlines() if l.startswith(('VIOLATION', 'MACHINERY', 'DESIGN-DRIFT', 'KNOWN-FINDING'))]
                tail = o_.strip().splitlines()[-6:] if rc_ not in (0, 1) else []
                return c, dict(exit=rc_, wall_s=round(time.time() - t0, 1), lines=lines[:4], tail=[t[:300] for t in tail])
            with concurrent.futures.ThreadPoolExecutor(jobs) as ex:
                for c, v in ex.map(one, checks):
                    res['checks'][c] = v
            results[r] = res
            bad = {c: v for c, v in res['checks'].items() if v['exit'] != 0}
            print(r, res['suite'], 'not held:', {c: (v['exit'], v['lines'][:1] or v['tail'][-2:]) for c, v in bad.items()}, flush=True)
        finally:
            sh(['git', '-C', '/repo', 'worktree', 'remove', '--force', wt])
            shutil.rmtree(wt, ignore_errors=True)
    with open(os.path.join(out, 'benign_results.json'), 'w') as f:
        json.dump(results, f, indent=1)


if __name__ == '__main__':
    main()
