"""Device simulator (an adbd model) shared by every check.

Its behaviour mirrors the device actions of tla/AdbEnv.tla: per-stream stop-and-wait WRITEs,
OKAY per consumed host WRITE, CLSE handshakes, a sync service that may emit its reply at any time
after the record that triggers it was consumed.  Every choice point asks a Chooser.
Never imports adb_shell.
"""
import random
import threading

from . import wire


# ------------------------------------------------------------------ choosers
class Chooser(object):
    def pick(self, label, options):
        raise NotImplementedError


class First(Chooser):
    def pick(self, label, options):
        return options[0]


class Seeded(Chooser):
    def __init__(self, seed):
        self.r = random.Random(seed)
        self.log = []

    def pick(self, label, options):
        o = options[self.r.randrange(len(options))]
        return o


class Scripted(Chooser):
    """Replays decisions: {label: [choice, ...]}; choice is matched against options, else first."""

    def __init__(self, script, strict=False):
        self.script = {k: list(v) for k, v in script.items()}
        self.strict = strict

    def pick(self, label, options):
        q = self.script.get(label)
        if q:
            c = q.pop(0)
            if c in options:
                return c
            if self.strict:
                raise AssertionError('scripted choice %r not in %r at %s' % (c, options, label))
        return options[0]


class HypChooser(Chooser):
    """Chooser backed by a hypothesis data object."""

    def __init__(self, data, st):
        self.data = data
        self.st = st

    def pick(self, label, options):
        if len(options) == 1:
            return options[0]
        return options[self.data.draw(self.st.integers(0, len(options) - 1), label=label)]


# ------------------------------------------------------------------ recorder / clock
class Recorder(object):
    def __init__(self):
        self.events = []
        from .sched import current_name
        self.who = current_name

    def ev(self, kind, **f):
        f['ev'] = kind
        if 't' not in f:
            f['t'] = self.who()
        self.events.append(f)
        return f


class VClock(object):
    """Stands in for the `time` module inside adb_shell.adb_device[_async]."""

    def __init__(self, start=1700000000.0):
        self.now = start
        self.start = start

    def time(self):
        return self.now

    def advance(self, dt):
        if dt and dt > 0:
            self.now += dt

    def sleep(self, dt):
        self.advance(dt)

    # whatever else of the time module a change may start to use: all read the same virtual clock
    def monotonic(self):
        return self.now - self.start + 1000.0

    perf_counter = monotonic

    def time_ns(self):
        return int(self.now * 1e9)

    def monotonic_ns(self):
        return int(self.monotonic() * 1e9)

    def __getattr__(self, name):
        import time as _t
        return getattr(_t, name)       # strftime, gmtime, ...: the real ones


# ------------------------------------------------------------------ file system
class SimFS(object):
    def __init__(self):
        self.files = {}   # path -> dict(mode, mtime, data)
        self.dirs = {}    # path -> list of (name, mode, size, mtime)
        self.pushed = []  # completed SEND transactions

    def add(self, path, data, mode=0o100644, mtime=1500000000):
        self.files[path] = dict(mode=mode, mtime=mtime, data=bytes(data))


# ------------------------------------------------------------------ services
class ShellService(object):
    """Writes `chunks` one WRITE at a time, then closes."""

    def __init__(self, chunks, close=True):
        self.chunks = [bytes(c) for c in chunks]
        self.close = close

    def start(self, st):
        for c in self.chunks:
            st.data.append(('WRTE', c, 0))
        if self.close:
            st.data.append(('CLSE', b'', st.nwr))

    def on_write(self, st, payload):
        pass


class RawSyncService(object):
    """Answers the first request of a sync: stream with the given raw bytes (any sequence of records, valid at that point or not)
    and then says nothing more; a CLSE from the host is answered as usual."""

    def __init__(self, reply, cuts=None, then_close=False, close_unacked=False):
        self.reply = bytes(reply)
        self.cuts = cuts
        self.then_close = then_close      # after the reply the service dies: adbd closes the stream
        self.close_unacked = close_unacked   # the service is already dead when the request arrives: adbd answers the WRITE with CLSE, not with OKAY
        self.answered = False
        self.records = []
        self.out = []

    def start(self, st):
        pass

    def on_write(self, st, payload):
        if self.answered:
            return
        self.answered = True
        b = self.reply
        if self.close_unacked and not b and self.then_close:
            if st.acks and st.acks[-1] == ('OKAY', 'w'):
                st.acks.pop()
            st.acks.append(('CLSE',))
            return
        if not b:
            if self.then_close:
                st.data.append(('CLSE', b'', st.nwr))
            return
        pieces = [b]
        if self.cuts:
            pieces, last = [], 0
            for c in sorted(set(x for x in self.cuts if 0 < x < len(b))):
                pieces.append(b[last:c])
                last = c
            pieces.append(b[last:])
        for p_ in pieces:
            st.data.append(('WRTE', p_, st.nwr))
        if self.then_close:
            st.data.append(('CLSE', b'', st.nwr))


class SyncFailPlan(object):
    """Where the sync service rejects: at ('SEND'|'RECV'), after DATA record k ('DATA', k), at 'DONE', or never."""

    def __init__(self, where=None, reason=b'denied', k=0, bad_id=None):
        self.where = where
        self.reason = bytes(reason)
        self.k = k
        self.bad_id = bad_id  # reply with this (valid FILESYNC) id instead of the proper one


class SyncService(object):
    def __init__(self, dev, plan=None, data_sizes=None, cutter=None):
        self.dev = dev
        self.fs = dev.fs
        self.parser = wire.SyncParser()
        self.plan = plan or SyncFailPlan()
        self.data_sizes = data_sizes  # callable(remaining) -> size of next DATA record in a RECV reply
        self.cutter = cutter          # callable(reply_bytes) -> list of payloads
        self.cur = None               # SEND in progress
        self.records = []             # every host record (projection input)
        self.draining = False
        self.ndata = 0
        self.out = []                 # sync records written by the service (id, FAIL reason)

    def start(self, st):
        pass

    def reply(self, st, b):
        st.reply_buf += b
        sid = wire.WORD_SYNC.get(wire.rd32(b, 0), '?')
        self.out.append(dict(id=sid, data=bytes(b[8:]) if sid == 'FAIL' else b''))

    def on_write(self, st, payload):
        for r in self.parser.feed(payload):
            ck = getattr(self.dev, 'clock', None)
            if ck is not None:
                r['clk'] = int(ck.time())        # when the record reached the device (the session's clock)
            self.records.append(r)
            self.handle(st, r)
        self.flush_reply(st)

    def flush_reply(self, st):
        if not st.reply_buf:
            return
        b = bytes(st.reply_buf)
        st.reply_buf = bytearray()
        if self.cutter:
            parts = self.cutter(b)
        else:
            m = self.dev.host_maxdata
            parts = [b[i:i + m] for i in range(0, len(b), m)]
        assert b''.join(parts) == b            # (parts may be empty: WRITEs without payload)
        for p in parts:
            st.data.append(('WRTE', p, st.nwr))

    def handle(self, st, r):
        sid = r['id']
        plan = self.plan
        if self.draining:
            if sid == 'DONE':
                self.draining = False
                self.cur = None
            return
        if sid == 'STAT':
            if plan.bad_id and plan.where == 'STAT':
                self.reply(st, wire.sync_record(plan.bad_id, 0) + wire.le32(0) * 2)
                return
            f = self.fs.files.get(r['data'].decode('utf8', 'replace'))
            st_ = self.fs.stat_override.get(r['data']) if hasattr(self.fs, 'stat_override') else None
            if st_:
                self.reply(st, wire.sync_stat(*st_))
            elif f:
                self.reply(st, wire.sync_stat(f['mode'], len(f['data']), f['mtime']))
            else:
                self.reply(st, wire.sync_stat(0, 0, 0))
        elif sid == 'LIST':
            if plan.where == 'LIST':
                self.reply(st, wire.sync_record(plan.bad_id or 'FAIL', len(plan.reason), plan.reason) if not plan.bad_id
                           else wire.sync_record(plan.bad_id, 0) + wire.le32(0) * 3)
                return
            for (name, mode, size, mtime) in self.fs.dirs.get(r['data'].decode('utf8', 'replace'), []):
                self.reply(st, wire.sync_dent(mode, size, mtime, name))
            self.reply(st, wire.sync_done_list())
        elif sid == 'RECV':
            path = r['data'].decode('utf8', 'replace')
            f = self.fs.files.get(path)
            if plan.where == 'RECV' or f is None:
                reason = plan.reason if plan.where == 'RECV' else b'No such file or directory'
                if plan.bad_id:
                    self.reply(st, wire.sync_record(plan.bad_id, 0))
                else:
                    self.reply(st, wire.sync_record('FAIL', len(reason), reason))
                return
            data = f['data']
            off = 0
            k = 0
            explicit = list(getattr(self, 'explicit_sizes', None) or [])
            while off < len(data) or explicit:
                if plan.where == 'DATA' and k == plan.k:
                    self.reply(st, wire.sync_record('FAIL', len(plan.reason), plan.reason))
                    return
                if explicit:
                    n = min(explicit.pop(0), 65536, len(data) - off)      # explicit sizes may be 0 (an empty DATA record)
                else:
                    n = self.data_sizes(len(data) - off) if self.data_sizes else min(65536, len(data) - off)
                    n = max(1, min(n, 65536, len(data) - off))
                self.reply(st, wire.sync_record('DATA', n, data[off:off + n]))
                off += n
                k += 1
            if plan.where == 'DONE':
                self.reply(st, wire.sync_record('FAIL', len(plan.reason), plan.reason))
                return
            self.reply(st, wire.sync_record('DONE', 0))
        elif sid == 'SEND':
            self.cur = dict(spec=r['data'], chunks=[], done=None)
            self.ndata = 0
            if plan.where == 'SEND':
                self.fail(st)
        elif sid == 'DATA':
            if self.cur is None:
                self.dev.env_error('DATA outside SEND')
                return
            self.cur['chunks'].append(r['data'])
            self.ndata += 1
            if plan.where == 'DATA' and self.ndata == plan.k + 1:
                self.fail(st)
        elif sid == 'DONE':
            if self.cur is None:
                self.dev.env_error('DONE outside SEND')
                return
            self.cur['done'] = r['arg']
            if plan.where == 'DONE':
                self.reply(st, wire.sync_record('FAIL', len(plan.reason), plan.reason))
                self.cur['failed'] = True
            elif plan.bad_id and plan.where == 'STATUS':
                self.reply(st, wire.sync_record(plan.bad_id, 0))
                self.cur['failed'] = True
            else:
                spec = self.cur['spec']
                path, _, mode = spec.rpartition(b',')
                self.fs.files[path.decode('utf8', 'replace')] = dict(mode=int(mode or b'0'), mtime=r['arg'], data=b''.join(self.cur['chunks']))
                self.reply(st, wire.sync_record('OKAY', 0))
                if getattr(self, 'surplus_okay', False):
                    self.reply(st, wire.sync_record('OKAY', 0))       # a chatty service: the status is sent twice (nobody reads the second one)
            self.cur['lid'] = st.lid
            self.fs.pushed.append(self.cur)
            self.cur = None
        elif sid == 'QUIT':
            st.data.append(('CLSE', b'', st.nwr))
        else:
            self.dev.env_note('unknown sync id %r' % (r['word'],))

    def fail(self, st):
        self.reply(st, wire.sync_record('FAIL', len(self.plan.reason), self.plan.reason))
        self.cur['failed'] = True
        self.cur['lid'] = st.lid
        self.fs.pushed.append(self.cur)
        self.draining = True


class Stream(object):
    def __init__(self, lid, rid, dest):
        self.lid = lid
        self.rid = rid
        self.dest = dest
        self.acks = []          # control packets owed to the host: ('OKAY',) ; sent in order
        self.data = []          # ('WRTE', payload) / ('CLSE', b'') produced by the service, in order
        self.await_ack = False  # a device WRITE is outstanding
        self.nwr = 0            # host WRITEs consumed
        self.acks_sent = 0      # OKAYs sent for host WRITEs
        self.opened_ack_sent = False
        self.dev_closed = False
        self.host_closed = False
        self.reply_buf = bytearray()
        self.sent = []          # payloads written by the device on this stream, in order
        self.host_writes = []   # payloads of host WRITEs
        self.service = None


# ------------------------------------------------------------------ auth
class AuthPolicy(object):
    """Device side of the CNXN/AUTH handshake.

    mode: 'open' (answer CNXN at once) or 'auth'.
    accept_sig: callable(index, sig_payload, token) -> bool (index counts signatures of this session from 0)
    pubkey: 'accept' | 'ignore'
    strays: list per answer index of lists of frames (bytes) put on the wire before the answer
    bad_auth_type: index of the challenge that carries a non-TOKEN arg0 (or None)
    """

    def __init__(self, mode='open', maxdata=4096, accept_sig=None, pubkey='accept', strays=None, tokens=None,
                 bad_auth_type=None, banner=b'device::ro.product.name=sim;\0', final_maxdata=None, version=0x01000000):
        self.mode = mode
        self.maxdata = maxdata
        self.final_maxdata = final_maxdata if final_maxdata is not None else maxdata
        self.accept_sig = accept_sig or (lambda i, sig, tok: False)
        self.pubkey = pubkey
        self.strays = strays or {}
        self.tokens = tokens
        self.bad_auth_type = bad_auth_type
        self.banner = banner
        self.version = version
        self.reset()

    def reset(self):
        self.nans = 0
        self.nsig = 0
        self.last_token = None
        self.issued = []
        self.sigs = []
        self.pubkeys = []

    def _answer(self, dev, frames):
        out = list(self.strays.get(self.nans, [])) + frames
        self.nans += 1
        return out

    def _token(self, dev):
        if self.tokens:
            tok = self.tokens[len(self.issued) % len(self.tokens)]
        else:
            tok = bytes(dev.rng.randrange(256) for _ in range(20))
        self.issued.append(tok)
        self.last_token = tok
        return tok

    def _challenge(self, dev):
        typ = 1
        if self.bad_auth_type is not None and len(self.issued) == self.bad_auth_type:
            typ = 7
        return wire.frame('AUTH', typ, 0, self._token(dev))

    def on_cnxn(self, dev, h):
        if self.mode == 'open':
            return self._answer(dev, [wire.frame('CNXN', self.version, self.maxdata, self.banner)])
        return self._answer(dev, [self._challenge(dev)])

    def on_auth(self, dev, h):
        if h['a0'] == 2:
            i = self.nsig
            self.nsig += 1
            self.sigs.append((i, h['payload'], self.last_token))
            if self.accept_sig(i, h['payload'], self.last_token):
                return self._answer(dev, [wire.frame('CNXN', self.version, self.final_maxdata, self.banner)])
            return self._answer(dev, [self._challenge(dev)])
        if h['a0'] == 3:
            self.pubkeys.append(h['payload'])
            if self.pubkey == 'accept':
                return self._answer(dev, [wire.frame('CNXN', self.version, self.final_maxdata, self.banner)])
            if self.pubkey == 'reauth':
                # a fresh challenge first (the user has not confirmed yet), the CNXN once the key was accepted
                return self._answer(dev, [self._challenge(dev), wire.frame('CNXN', self.version, self.final_maxdata, self.banner)])
            if self.pubkey == 'reauth_only':
                return self._answer(dev, [self._challenge(dev)])       # challenged again, never accepted
            return self._answer(dev, [])
        dev.env_note('AUTH type %d' % h['a0'])
        return []


# ------------------------------------------------------------------ the device
class SimDevice(object):
    def __init__(self, chooser=None, rec=None, auth=None, seed=0, lazy=True, rid_of=None, host_maxdata=1024 * 1024):
        self.chooser = chooser or First()
        self.rec = rec or Recorder()
        self.auth = auth or AuthPolicy()
        self.rng = random.Random(seed)
        self.fs = SimFS()
        self.lazy = lazy
        self.rid_of = rid_of or (lambda lid, dev: 1000 + lid)
        self.host_maxdata = host_maxdata
        self.service_for = None      # callable(dest bytes, dev) -> service
        self.thaw_after = None       # n: frozen streams are released once the device has sent n more data WRITEs of other streams
        self.zero_ops = {}           # op index -> 'a0' | 'a1' | 'both': data packets of that operation's stream carry zero ids (legacy adbd)
        self.zero_dest = {}          # the same, by destination
        self.stray_zero_ops = {}     # op index -> payload: the OPEN of that operation is answered by one WRTE(0, 0, payload) only
        self.shell_scripts = {}      # dest -> list of chunks
        self.default_script = [b'']
        self.reorder = False         # allow service WRITEs to overtake OKAYs of later host WRITEs
        self.clse_before_ack = False
        self.eager = False           # put everything that is ready on the wire as soon as a host packet was processed
        self.hold = set()            # local ids whose output is withheld (a slow service); release_all() lets it go
        self.session_reset()
        self.env_errors = []
        self.notes = []
        self.epoch = 0
        self.nframes = 0
        self.refuse_open = lambda dest: False
        self.held_streams = []
        self.every_stream = []       # all streams of all sessions of this device object
        self.hold_next_open = False
        self.frozen = set()          # local ids whose output is withheld until explicitly released
        self.budget = None           # number of packets the device may still send before it falls silent (C11)
        self.syms_of = None          # callable(payload) -> list of symbol codes (model-scale scenarios)

    # -- bookkeeping
    def session_reset(self):
        self.parser = wire.FrameParser()
        self.streams = {}     # lid -> Stream (live or finished streams of this session; a reused lid replaces)
        self.all_streams = []
        self.wire = []        # frames waiting to be read by the host: dict(bytes=..., meta)
        self.connected = False
        self.online = False

    def env_error(self, msg):
        self.env_errors.append(msg)

    def env_note(self, msg):
        self.notes.append(msg)

    # -- transport side
    def on_connect(self):
        self.session_reset()
        self.hold = set()
        self.held_streams = []
        self.hold_next_open = False
        self.auth.reset()
        self.connected = True
        self.epoch += 1

    def on_close(self):
        self.connected = False
        self.online = False

    def feed(self, data):
        """Bytes written by the host."""
        for h in self.parser.feed(data):
            self.on_packet(h)
            if self.eager:
                while self.pump():
                    pass

    def put(self, fr, **meta):
        if self.budget is not None:
            if self.budget <= 0:
                return                       # silent from here on: whatever the device would have said (handshake answers included) is never sent
            self.budget -= 1
        self.nframes += 1
        meta['bytes'] = bytes(fr)
        meta['n'] = self.nframes
        meta['epoch'] = self.epoch
        self.wire.append(meta)
        h = wire.parse_header(fr[:24])
        meta['pk'] = dict(cmd=wire.WORD_CMD.get(h['cmdw'], '?'), a0=wire.limbs(h['a0']), a1=wire.limbs(h['a1']), n=self.nframes,
                          plen=h['len'], unit=meta.get('unit', 0), syms=self.syms_of(fr[24:]) if self.syms_of else [])
        if 'sl' in meta:
            meta['pk']['sl'] = wire.limbs(meta['sl'])      # the stream the device means by a packet that carries a zero id
        meta['payload'] = bytes(fr[24:])
        self.rec.ev('dv', t='dev', _payload=meta['payload'], **meta['pk'])

    # -- protocol
    def on_packet(self, h):
        cmd = h['cmd']
        if cmd == 'CNXN':
            self.host_maxdata = min(h['a1'], 1024 * 1024) or 1024 * 1024
            for fr in self.auth.on_cnxn(self, h):
                self.put(fr)
            self.online = True
        elif cmd == 'AUTH':
            for fr in self.auth.on_auth(self, h):
                self.put(fr)
        elif cmd == 'OPEN':
            lid = h['a0']
            dest = h['payload']
            rid = self.rid_of(lid, self)
            st = Stream(lid, rid, dest)
            st.op = getattr(self, 'cur_op', None)
            st.zero = self.zero_ops.get(st.op) or self.zero_dest.get(bytes(dest).rstrip(b'\0'))     # legacy adbd: data packets with zero ids
            self.streams[lid] = st
            self.all_streams.append(st)
            self.every_stream.append(st)
            if self.held_streams and not self.hold_next_open:
                self.hold = set()           # the slow service finally answers: its late packets precede the new stream's
                self.held_streams = []
            if self.hold_next_open:
                self.hold_next_open = False
                self.hold.add(lid)
                self.held_streams.append(st)
            if st.op is not None and st.op in self.stray_zero_ops:
                # a confused legacy service: instead of answering the OPEN it sends data with zero ids and nothing else
                st.dev_closed = True
                self.put(wire.frame('WRTE', 0, 0, self.stray_zero_ops[st.op]), lid=lid, sl=lid)
                return
            if self.refuse_open(dest):
                st.acks.append(('CLSE0',))
                st.dev_closed = True
                return
            st.service = self.make_service(dest)
            st.acks.append(('OKAY',))
            st.service.start(st)
        elif cmd == 'OKAY':
            st = self.streams.get(h['a0'])
            if st is not None:
                st.await_ack = False
        elif cmd == 'WRTE':
            st = self.streams.get(h['a0'])
            if st is not None and not st.host_closed:
                st.host_writes.append(h['payload'])
                st.nwr += 1
                st.acks.append(('OKAY', 'w'))
                st.service.on_write(st, h['payload'])
        elif cmd == 'CLSE':
            st = self.streams.get(h['a0'])
            if st is not None and not st.host_closed:
                st.host_closed = True
                if not st.dev_closed:
                    # host-initiated close: adbd answers with CLSE and drops what it still wanted to send
                    st.data = []
                    st.acks.append(('CLSE',))

    def make_service(self, dest):
        if self.service_for:
            s = self.service_for(dest, self)
            if s is not None:
                return s
        d = dest.rstrip(b'\0')
        if d == b'sync:':
            return SyncService(self)
        return ShellService(self.shell_scripts.get(d, self.default_script))

    # -- what may go on the wire next
    def ready(self):
        out = []
        for st in self.all_streams:
            if st.lid in self.hold and st in self.held_streams:
                continue
            if st.lid in self.frozen:
                continue
            if st.acks:
                out.append((st.lid, 'ack', id(st)))
                # adbd acknowledges host WRITE k before the service can answer it; a reply to WRITE k may
                # however overtake the OKAY of a later WRITE (reorder mode explores that)
                if not (self.reorder and st.opened_ack_sent and st.data and st.data[0][2] <= st.acks_sent):
                    continue
            if st.data and st.opened_ack_sent and not st.dev_closed:
                kind = st.data[0][0]
                if kind == 'WRTE' and not st.await_ack:
                    out.append((st.lid, 'data', id(st)))
                elif kind == 'CLSE' and (not st.await_ack or self.clse_before_ack):
                    out.append((st.lid, 'data', id(st)))
        return out

    def emit(self, choice):
        lid, kind, sid = choice
        st = next(s for s in self.all_streams if id(s) == sid)
        if kind == 'ack':
            a = st.acks.pop(0)
            if a[0] == 'OKAY':
                st.opened_ack_sent = True
                if len(a) > 1:
                    st.acks_sent += 1
                self.put(wire.frame('OKAY', st.rid, st.lid), lid=lid)
            elif a[0] == 'CLSE':
                st.dev_closed = True
                self.put(wire.frame('CLSE', st.rid, st.lid), lid=lid)
            elif a[0] == 'CLSE0':
                self.put(wire.frame('CLSE', 0, st.lid), lid=lid)
        else:
            k, payload, _ = st.data.pop(0)
            z = getattr(st, 'zero', None)
            a0 = 0 if z in ('a0', 'both') else st.rid
            a1 = 0 if z in ('a1', 'both') else st.lid
            extra = dict(sl=st.lid) if z else {}
            if k == 'WRTE':
                st.await_ack = True
                st.sent.append(payload)
                self.put(wire.frame('WRTE', a0, a1, payload), lid=lid, unit=len(st.sent), **extra)
                if self.thaw_after is not None and self.frozen:
                    self.thaw_after -= 1
                    if self.thaw_after <= 0:
                        self.frozen = set()
                        self.thaw_after = None
            else:
                st.dev_closed = True
                self.put(wire.frame('CLSE', a0, a1), lid=lid, **extra)

    def pump(self):
        """Let the device put one more packet on the wire; False if it has nothing to say."""
        r = self.ready()
        if not r:
            return False
        if self.budget is not None and self.budget <= 0:
            return False                     # the device has fallen silent (the budget is spent in put(), for every packet incl. the handshake's)
        c = self.chooser.pick('dev_next', [(x[0], x[1]) for x in r])
        self.emit(next(x for x in r if (x[0], x[1]) == c))
        return True


def export(events, keep=None):
    """Events -> JSON-able trace (private '_' fields dropped; optional filter on event kinds)."""
    out = []
    for e in events:
        if keep is not None and e['ev'] not in keep:
            continue
        out.append({k: v for k, v in e.items() if not k.startswith('_')})
    return out
