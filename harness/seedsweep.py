"""Run every check's quick tier under several seeds on the unchanged tree and report whatever is not `held`.

  python -m harness.seedsweep [--seeds 0,1,2,3] [--jobs 4] [--checks C01,C12] [--tier quick]

A check that raises an alarm on the unchanged tree is broken, whatever the seed: this sweep is run before scenario
families that draw from the seed are committed.  Nothing is written to /verif/evidence (--no-evidence).
"""
import concurrent.futures
import os
import subprocess
import sys
import time

ROOT = os.path.dirname(os.path.dirname(os.path.abspath(__file__)))


def one(args):
    c, seed, tier = args
    t0 = time.time()
    p = subprocess.run([os.path.join(ROOT, 'check'), c, '--tier', tier, '--seed', str(seed), '--no-evidence'], cwd=ROOT, stdout=subprocess.PIPE, stderr=subprocess.STDOUT)
    out = p.stdout.decode('utf8', 'replace')
    bad = [l for l in out.splitlines() if l.startswith(('VIOLATION', 'MACHINERY', 'DESIGN-DRIFT', 'KNOWN-FINDING'))]
    return c, seed, p.returncode, round(time.time() - t0, 1), bad[:3]


def main():
    seeds, jobs, checks, tier = [0, 1, 2, 3], 4, ['C%02d' % i for i in range(1, 21)], 'quick'
    a = sys.argv[1:]
    for i, x in enumerate(a):
        if x == '--seeds':
            seeds = [int(v) for v in a[i + 1].split(',')]
        if x == '--jobs':
            jobs = int(a[i + 1])
        if x == '--checks':
            checks = a[i + 1].split(',')
        if x == '--tier':
            tier = a[i + 1]
    tasks = [(c, s, tier) for s in seeds for c in checks]
    nbad = 0
    with concurrent.futures.ThreadPoolExecutor(jobs) as ex:
        for c, seed, rc, wall, bad in ex.map(one, tasks):
            flag = 'ok ' if rc == 0 and not bad else 'BAD'
            if flag == 'BAD':
                nbad += 1
            print('%s %s seed=%d exit=%d %.1fs %s' % (flag, c, seed, rc, wall, ' | '.join(bad)[:300]), flush=True)
    print('sweep: %d runs, %d not held' % (len(tasks), nbad))
    sys.exit(1 if nbad else 0)


if __name__ == '__main__':
    main()
