"""The device simulator behind a real TCP socket on loopback (C15, C18).

One server thread per SockDevice: accepts one connection at a time, feeds the bytes it receives to the
independent frame parser + SimDevice, and writes whatever the device wants to say.  Knobs: SO_RCVBUF / SO_SNDBUF,
a slow reader (pause between recv calls, small recv sizes), fragmentation and pauses of the device's writes.
"""
import random
import select
import socket
import threading
import time

from . import simdev, transports


class SockDevice(object):
    def __init__(self, dev=None, rcvbuf=None, sndbuf=None, read_size=65536, read_pause=0.0, write_frag=None, write_pause=0.0, seed=0):
        self.dev = dev or simdev.SimDevice()
        self.dev.lazy = True
        self.rec = self.dev.rec
        self.core = transports.PipeCore(self.dev, rec=self.rec)
        self.rcvbuf, self.sndbuf = rcvbuf, sndbuf
        self.read_size, self.read_pause = read_size, read_pause
        self.write_frag, self.write_pause = write_frag, write_pause
        self.rng = random.Random(seed)
        self.srv = socket.socket(socket.AF_INET, socket.SOCK_STREAM)
        self.srv.setsockopt(socket.SOL_SOCKET, socket.SO_REUSEADDR, 1)
        if rcvbuf:
            self.srv.setsockopt(socket.SOL_SOCKET, socket.SO_RCVBUF, rcvbuf)
        self.srv.bind(('127.0.0.1', 0))
        self.srv.listen(4)
        self.port = self.srv.getsockname()[1]
        self.stop = False
        self.received = 0
        self.sent = 0
        self.sessions = 0
        self.error = None
        self.thread = threading.Thread(target=self._serve, daemon=True)
        self.thread.start()

    def _serve(self):
        try:
            while not self.stop:
                r, _, _ = select.select([self.srv], [], [], 0.05)
                if not r:
                    continue
                conn, _ = self.srv.accept()
                if self.sndbuf:
                    conn.setsockopt(socket.SOL_SOCKET, socket.SO_SNDBUF, self.sndbuf)
                self.sessions += 1
                self.core.connect(None)
                self.core.rec.events = self.rec.events
                self._session(conn)
                try:
                    conn.close()
                except OSError:
                    pass
        except Exception as e:  # noqa
            if not self.stop:
                self.error = e

    def _session(self, conn):
        conn.setblocking(True)
        while not self.stop:
            r, _, _ = select.select([conn], [], [], 0.05)
            if r:
                try:
                    data = conn.recv(self.read_size)
                except OSError:
                    return
                if not data:
                    return
                self.received += len(data)
                self.core._host_bytes(data)
                if self.read_pause:
                    time.sleep(self.read_pause)
            # let the device say everything it has to say
            while self.dev.pump():
                pass
            while self.dev.wire:
                fr = self.dev.wire.pop(0)
                b = fr['bytes']
                self.rec.ev('rd', t='net', _payload=fr.get('payload', b''), **fr['pk'])
                try:
                    if self.write_frag:
                        i = 0
                        while i < len(b):
                            n = self.write_frag(len(b) - i)
                            conn.sendall(b[i:i + n])
                            i += n
                            if self.write_pause:
                                time.sleep(self.write_pause)
                    else:
                        conn.sendall(b)
                except OSError:
                    return
                self.sent += len(b)

    def close(self):
        self.stop = True
        try:
            self.srv.close()
        except OSError:
            pass
        self.thread.join(timeout=2)
