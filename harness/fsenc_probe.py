"""Run in a child interpreter whose filesystem encoding is not UTF-8 (LC_ALL=C, PYTHONUTF8=0, PYTHONCOERCECLOCALE=0): device paths are
text the DEVICE interprets (UTF-8 on Android), so the requests the library sends must not depend on the host's filesystem encoding.
Prints one JSON object: the filesystem encoding seen and the TraceSync traces of a few list / stat / pull / push requests."""
import json
import sys


def main():
    repo = sys.argv[1]
    from . import env, scen
    env.setup_repo(repo)
    out = dict(fsenc=sys.getfilesystemencoding(), traces=[])
    for mode in ('sync', 'async'):
        spec = dict(seed=5, maxdata=4096, rid='plus', frag='whole', ambient=False,
                    ops=[dict(api='list', path='/sdcard/Música', entries=[[b'a'.hex(), 1, 2, 3]]), dict(api='stat', path='/sdcard/été', st=[1, 2, 3]),
                         dict(api='pull', path='/sdcard/фото.jpg', size=100, dest='bytesio'),
                         dict(api='push', path='/sdcard/€.bin', size=100, src='bytesio', mtime=5)])
        rr = scen.run(spec, mode)
        for i, t in scen.sync_traces(rr, spec):
            out['traces'].append(dict(mode=mode, op=spec['ops'][i]['api'], trace=t))
    print('PROBE ' + json.dumps(out))


if __name__ == '__main__':
    main()
