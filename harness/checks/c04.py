"""C04 - per-stream protocol conformance: ids, one OKAY per WRTE, stop-and-wait, CLSE.

1. TLC: the protocol monitor AdbMon (receiving half of AOSP protocol.txt for one stream) is conjoined to the
   design spec AdbHost and checked as the invariant MonitorOK for every stream shape (shell-like, sync-like,
   open-only), alone and in pairs, for every schedule and every legal device ordering of OKAY vs. its WRITEs.
2. spec->code: transition tours of the single-thread graphs of each public-operation shape replayed into the
   real sync and async devices (design conformance after every step).
3. code->spec: random sessions of all public operations (random remote ids incl. values >= 2^31 and ids equal to
   local ids, random maxdata, chunkings, read fragmentation, id counter near the wrap) validated by TLC
   against TraceEnv; a C04.* / C14.* clause is a violation.
"""
import copy
import random

from .. import scen, tlc, tour
from ..framework import main, load_findings, as_built

SHAPES = {
    'shell0': (['shell'], [[]]), 'shell2': (['shell'], [[1, 2]]), 'stat': (['flush', 'readw', 'clse'], [[1]]), 'list2': (tour.LIST2, [[1, 2]]),
    'push2': (tour.PUSH2, [[], [1]]), 'push2fail': (tour.PUSH2FAIL, [[1], []]), 'reboot': ([], []),
}
PAIRS = [('shell2', 'stat'), ('push2', 'shell0'), ('list2', 'stat'), ('push2fail', 'shell2')]


def body(ctx):
    rng = random.Random(ctx.seed)
    fs = load_findings()
    k1 = any(f.status == 'open' and f.fid == 'K1' for f in fs)
    f5 = any(f.status == 'open' and f.fid == 'F5' for f in fs)
    # 1 + 2: every shape alone (intended and as-built), with the tour
    for name, (p, rp) in SHAPES.items():
        prog, rep = {'t1': p}, {'t1': rp}
        for (a, b, c) in sorted({(False, False, False), as_built()}):
            r = tour.host_run(prog, rep, a, b, invariants=('MonitorOK', 'LockDiscipline'), deadlock=False, registry=c)
            ctx.add_tlc(r, 'AdbHost %s DEV_K1=%s DEV_F5=%s REGISTRY=%s' % (name, a, b, c))
            if r.violations:
                ctx.violation('C04.' + r.violations[0]['name'] + '(design)', dict(kind='design-counterexample', shape=name, dev_k1=a, dev_f5=b,
                                                                                  last_state=r.violations[0]['trace'][-1][:1500]))
                return
        K1b, F5b, REG = as_built()
        r = tour.host_run(prog, rep, K1b, F5b, invariants=(), emit=True, deadlock=False, cached=True, registry=REG)
        g = tour.Graph(tlc.printed(r, 'EDGE'))
        paths = g.tour()
        for mode in ('sync', 'async'):
            k, steps, bad = tour.replay_tour(mode, prog, rep, paths)
            ctx.count(evaluations=steps, distinct=len(g.edges))
            ctx.extra.setdefault('design_conformance', []).append(dict(shape=name, mode=mode, edges=len(g.edges), paths=k, steps=steps, mismatches=len(bad)))
            if bad:
                ctx.design_drift('shape %s %s: step %d %s real=%s model=%s' % (name, mode, bad[0]['step'], bad[0]['act'], bad[0].get('real'), bad[0].get('model')))
    for (x, y) in (PAIRS if not ctx.quick else PAIRS[:2]):
        prog, rep = {'t1': SHAPES[x][0], 't2': SHAPES[y][0]}, {'t1': SHAPES[x][1], 't2': SHAPES[y][1]}
        r = tour.host_run(prog, rep, False, False, invariants=('MonitorOK', 'LockDiscipline', 'NoStuck'), deadlock=True)
        ctx.add_tlc(r, 'AdbHost %s||%s intended' % (x, y))
        if r.violations:
            raise tlc.TlcError('intended design violates %s for %s||%s' % (r.violations[0]['name'], x, y))
    # 3: random sessions
    n = 150 if ctx.quick else 3000
    specs = [scen.gen_session(rng, i, big=(i % 10 == 0), adversarial=(i % 2 == 1)) for i in range(n)]
    # families that do not depend on the draw: a host-initiated close while the device still has a WRITE in flight (a pull whose local
    # sink fails after k records, an eager device), a refused OPEN, a generator abandoned after k items, zero-length WRITEs
    fam = []
    for k in (1, 2, 3):
        for eager in (True, False):
            for sizes in ([50] * 6 + [65536] * 4, [4096] * 20, [1] * 8 + [4000] * 10):
                fam.append(dict(seed=ctx.seed + 500 + k, maxdata=4096, rid=('plus', 'mirror', 'random')[k % 3], frag='whole', eager=eager, reorder=bool(k % 2),
                                ops=[dict(api='pull', path='/big', size=30000, data_sizes=list(sizes), cuts=[3000 * j_ for j_ in range(1, 12)], dest=['raise', k], cb=None),
                                     dict(api='shell', decode=False, cmd='after', chunks=[b'ok'.hex()])]))
    for k in (0, 1, 2):
        fam.append(dict(seed=ctx.seed + 600 + k, maxdata=4096, rid='plus', frag='whole', eager=bool(k % 2),
                        ops=[dict(api='streaming_shell', decode=False, cmd='left', chunks=[b'a'.hex(), b''.hex(), b'c'.hex(), b'd'.hex()], take=k),
                             dict(api='shell', decode=False, cmd='r', chunks=[b'x'.hex()], refuse=True, read_timeout_s=1.0),
                             dict(api='reboot', fastboot=bool(k % 2)),
                             dict(api='shell', decode=False, cmd='after', chunks=[b''.hex(), b'ok'.hex()])]))
    # destinations of every length around 4 KiB (the OPEN payload is the destination plus its NUL, whatever its length)
    for n_ in (4080, 4088, 4089, 4090, 4095, 4096, 4097, 5000, 70000):
        fam.append(dict(seed=ctx.seed + 700 + n_, maxdata=1024 * 1024, rid='plus', frag='whole',
                        ops=[dict(api=('shell', 'exec_out', 'streaming_shell')[n_ % 3], decode=False, cmd='x' * n_, chunks=[b'ok'.hex()])]))
    # a generator kept across a reconnect and closed by the caller afterwards: nothing of the old connection's streams goes onto the new one
    for cf in (True, False):
        for take in (0, 1):
            fam.append(dict(seed=ctx.seed + 780 + len(fam), maxdata=4096, rid=('plus', 'same')[take], frag='whole',
                            ops=[dict(api='streaming_shell', decode=False, cmd='keep', chunks=[b'k1'.hex(), b'k2'.hex(), b'k3'.hex()], take=take, hold='keep'),
                                 dict(api='shell', decode=False, cmd='a', chunks=[b'A'.hex()]), dict(api='reconnect', close_first=cf), dict(api='shell', decode=False, cmd='b', chunks=[b'B'.hex()]),
                                 dict(api='drop', gen='keep'), dict(api='shell', decode=False, cmd='c', chunks=[b'C'.hex()])]))
    # a pushed directory with a sub-directory in it; a peer that announces more than 1 MiB and a push that fills it
    for names in ([['a.txt', 10], ['m/', 0], ['z.bin', 500]], [['a', 5], ['b', 6], ['zz/', 0]], [['0/', 0], ['b', 10]]):
        fam.append(dict(seed=ctx.seed + 800 + len(fam), maxdata=4096, rid='plus', frag='whole',
                        ops=[dict(api='push', src='dir', files=names, cwd='elsewhere', path='/sdcard/d', mtime=9), dict(api='shell', decode=False, cmd='after', chunks=[b'ok'.hex()])]))
    for md_, size_ in ((2 * 1024 * 1024, 1500000), (3 * 1024 * 1024, 3200000)):
        fam.append(dict(seed=ctx.seed + 820 + len(fam), maxdata=md_, rid='plus', frag='whole', ops=[dict(api='push', path='/big', size=size_, src='bytesio', mtime=3)]))
    # commands with a whole-command limit on a transport whose every call takes time: wherever the limit expires - between two WRITEs, while
    # the device's CLOSE is being read - a CLOSE that was read is answered
    for j, T in enumerate((0.05, 0.1, 0.15, 0.2, 0.25, 0.3, 0.35, 0.4, 0.45, 0.5, 0.6, 0.8)):
        fam.append(dict(seed=ctx.seed + 900 + j, maxdata=4096, rid='plus', frag='whole', tick=0.05, ambient=False,
                        ops=[dict(api=('shell', 'exec_out')[j % 2], decode=False, cmd='slow%d' % j, chunks=[b'a'.hex(), b'b'.hex()][:1 + j % 2], timeout_s=T, read_timeout_s=10.0),
                             dict(api='shell', decode=False, cmd='after', chunks=[b'ok'.hex()])]))
    # a device that hands the same remote id to one stream after the other (legal once the earlier stream is closed): every packet of a
    # later stream still carries that stream's own local id (seeded change C04-w10-c04-m2: an OKAY remembered per remote id)
    for rid_ in (5, 1, 2 ** 32 - 1):
        fam.append(dict(seed=ctx.seed + 950 + len(fam), maxdata=4096, rid=rid_, frag='whole',
                        ops=[dict(api='shell', decode=False, cmd='one', chunks=[b'a'.hex(), b'b'.hex()]),
                             dict(api='exec_out', decode=False, cmd='two', chunks=[b'c'.hex()]),
                             dict(api='stat', path='/f', st=[0o100644, 3, 4]),
                             dict(api='streaming_shell', decode=False, cmd='three', chunks=[b'd'.hex(), b'e'.hex(), b'f'.hex()]),
                             dict(api='shell', decode=False, cmd='four', chunks=[b'g'.hex()])]))
    specs = fam + specs
    corpus = scen.run_corpus(specs)
    traces = [c[3] for c in corpus]
    ver, r = tlc.validate_traces('TraceEnv', traces)
    ctx.add_tlc(r, 'TraceEnv over %d fixed-family and %d random sessions' % (len(fam), n))
    okn = 0
    for (i, l, v) in ver:
        if v == 'ok':
            okn += 1
        elif v.startswith('C04.') or v.startswith('C14.'):
            ctx.violation(v, dict(kind='session', mode=corpus[i][0], spec=corpus[i][1], failing_event=l - 1, events=traces[i][max(0, l - 6):l]))
        elif v.startswith('ENV.'):
            raise tlc.TlcError('environment clause ' + v)
        else:
            okn += 1
            ctx.extra.setdefault('other_property_clauses_seen', []).append(v)
    exc = [(c[0], [o.exc_name for o in c[2].outcomes if o.kind == 'exc']) for c in corpus if any(o.kind == 'exc' for o in c[2].outcomes)]
    ctx.extra['sessions_with_exceptions'] = len(exc)
    ctx.count(traces=okn)
    ctx.extra['host_packets'] = sum(1 for t in traces for e in t if e['ev'] == 'tx')
    ctx.sample(dict(kind='session', spec=specs[0], events=[e for e in traces[0] if e['ev'] in ('tx', 'rd')][:12]))
    # binding self-tests: drop one host OKAY / swap the id fields of one packet -> rejected
    t0 = next(c[3] for c in corpus if all(o.kind == 'ret' for o in c[2].outcomes) and any(e['ev'] == 'tx' and e['cmd'] == 'OKAY' and e['a0'] != e['a1'] for e in c[3]))
    a = copy.deepcopy(t0)
    a.remove(next(e for e in a if e['ev'] == 'tx' and e['cmd'] == 'OKAY'))
    b = copy.deepcopy(t0)
    e = next(e for e in b if e['ev'] == 'tx' and e['cmd'] == 'OKAY' and e['a0'] != e['a1'])
    e['a0'], e['a1'] = e['a1'], e['a0']
    v2, _ = tlc.validate_traces('TraceEnv', [a, b])
    if v2[0][2] == 'ok' or v2[1][2] == 'ok':
        raise tlc.TlcError('binding self-test failed: %r' % (v2,))
    ctx.extra['sabotage_rejected'] = [v2[0][2], v2[1][2]]
    ctx.assumptions += ['an OKAY is judged against device WRITEs that were consumed off the wire; the simulated device stalls until it is owed nothing, so a missing OKAY ends in a timeout and C04.MissingOkay',
                        'legal device orderings: OKAY(k) precedes the service reply to host WRITE k, which may overtake OKAY(k+1..)']


if __name__ == '__main__':
    main('C04', 'model_checking', body)
