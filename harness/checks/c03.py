"""C03 - inbound packets are reassembled and validated independent of read fragmentation.

1. TLC explores the design spec AdbReader (need-driven read loop, header/payload phases, command and checksum
   validation) for packet sequences with good, corrupt and unknown-command packets and every fragmentation
   (0..need bytes per read, empty reads): NoOverRead, ExactReassembly, CorruptNeverDelivered, RightError.
2. spec->code: transition tour of the graph of a connect + shell exchange (CNXN, OKAY, WRTE, CLSE); each path's read
   results are imposed on the in-memory transport (a model header byte = 8 real bytes, a payload byte = 7) and
   every bulk_read(numbytes) of the library is compared with the model's request.
3. code->spec: whole sessions under random / 1-byte / empty-read fragmentation paired with unfragmented delivery;
   every single-bit and single-byte corruption of a 64-byte payload; sampled unknown command words and all
   single-bit neighbours of the known ones; judged by TraceReader (NoOverRead on every read, ExactReassembly,
   CorruptNeverDelivered, UnknownCommandRejected).
"""
import os
import random
import shutil

from .. import env, scen, simdev, tlc, tour, wire
from ..framework import main

LAYOUTS = {
    'good': [(2, 'no'), (0, 'no'), (3, 'no'), (0, 'no')],
    'sum@3': [(2, 'no'), (0, 'no'), (3, 'sum'), (0, 'no')],
    'cmd@3': [(2, 'no'), (0, 'no'), (3, 'cmd'), (0, 'no')],
    'cmd@2': [(2, 'no'), (0, 'cmd'), (3, 'no'), (0, 'no')],
    'sum@1': [(2, 'sum'), (0, 'no'), (3, 'no'), (0, 'no')],
}


def reader_run(frames, emit):
    wd = tlc.workdir('rd')
    try:
        fr = tlc.Raw('<<' + ', '.join('[p |-> %d, bad |-> "%s"]' % f for f in frames) + '>>')
        with open(os.path.join(wd, 'MCReader.tla'), 'w') as f:
            f.write(tlc.mc_module('MCReader', 'AdbReader', dict(MC_Frames=fr)))
        cfg = tlc.cfg_text(constants={'H': '3', 'Frames': '<- MC_Frames', 'MaxEmpty': '2'},
                           invariants=['NoOverRead', 'ExactReassembly', 'CorruptNeverDelivered', 'RightError', 'AllDelivered'], deadlock=True,
                           view='View', action_constraints=['EmitEdge'] if emit else [])
        return tlc.run('MCReader', cfg, wd=wd, module_dir=wd, workers=1 if emit else 8)
    finally:
        shutil.rmtree(wd, ignore_errors=True)


RTYPES = [None, 'bytearray', 'memoryview', 'array']     # container types a transport may hand out (bytes, bytearray, a view of a reused buffer, array('B'))


def replay_path(mode, frames, path, rtype=None):
    """Impose the path's read results; returns (requests made by the library, requests of the model, outcome, over-reads)."""
    ks = [e['act']['k'] for e in path]
    ns = [e['act']['n'] for e in path]
    dev = simdev.SimDevice(auth=simdev.AuthPolicy(maxdata=4096, banner=b'device::abcde\0'))
    dev.shell_scripts[b'shell:x'] = [b'P' * 21]
    sess = env.Session(mode, dev, log_io=True, rtype=rtype)
    core = sess.core
    state = {'i': 0}

    def frag(n, avail):
        consumed = core.cur_len - avail
        unit = 8 if consumed < 24 else 7
        if state['i'] < len(ks):
            k = ks[state['i']]
            state['i'] += 1
            return k * unit
        return n
    core.frag = frag
    kinds = {i: b for i, (p, b) in enumerate(frames)}

    def mangle(meta):
        b = bytearray(meta['bytes'])
        idx = meta['n'] - 1
        if kinds.get(idx) == 'sum' and len(b) > 24:
            b[30] ^= 0x55
        if kinds.get(idx) == 'cmd':
            b[0:4] = b'XXXX'
            b[20:24] = bytes(x ^ 0xFF for x in b'XXXX')
        return bytes(b)
    core.mangle = mangle
    o1 = sess.call('connect')
    o2 = sess.call('shell', 'x', decode=False) if o1.kind == 'ret' else o1
    sess.close_loop()
    reqs = [(e['n'], e['left'], e['k'], e['flen']) for e in dev.rec.events if e['ev'] == 'br']
    return reqs, ns, (o2.exc_name if o2.kind == 'exc' else 'ok'), o2


def body(ctx):
    rng = random.Random(ctx.seed)
    traces, meta = [], []
    # 1 + 2
    for name, frames in LAYOUTS.items():
        r = reader_run(frames, emit=True)
        ctx.add_tlc(r, 'AdbReader layout %s' % name)
        if r.violations:
            ctx.violation('C03.' + r.violations[0]['name'] + '(design)', dict(kind='design-counterexample', layout=name, state=r.violations[0]['trace'][-1][:600]))
            return
        g = tour.Graph(tlc.printed(r, 'EDGE'))
        paths = g.tour()
        mism = 0
        for mode in ('sync', 'async'):
            for pi_, p in enumerate(paths):
                reqs, ns, outcome, o2 = replay_path(mode, frames, p, rtype=RTYPES[(pi_ + (mode == 'async')) % len(RTYPES)])
                want_out = 'ok' if all(b == 'no' for _, b in frames) else ('InvalidChecksumError' if any(b == 'sum' for _, b in frames) else 'InvalidCommandError')
                tr = [dict(ev='br', n=n, left=left) for (n, left, k, flen) in reqs]
                if want_out == 'InvalidChecksumError':
                    tr.append(dict(ev='corrupt', cls=outcome, leak=(o2.kind == 'ret')))
                elif want_out == 'InvalidCommandError':
                    tr.append(dict(ev='unknown', cls=outcome))
                else:
                    tr.append(dict(ev='cmp', same=(o2.kind == 'ret' and o2.value == b'P' * 21)))
                traces.append(tr)
                meta.append(dict(kind='tour-path', layout=name, mode=mode, reads=[e['act']['k'] for e in p]))
                # design conformance: the library asks for exactly what the model asks for (header phase x8, payload phase x7)
                model_scaled = [n_model * (8 if flen - left < 24 else 7) for (n_real, left, k, flen), n_model in zip(reqs, ns)]
                if [r_[0] for r_ in reqs[:len(ns)]] != model_scaled:
                    mism += 1
        ctx.count(evaluations=2 * len(paths), distinct=len(g.edges))
        ctx.extra.setdefault('design_conformance', []).append(dict(layout=name, edges=len(g.edges), paths=len(paths), request_mismatches=mism))
        if mism:
            ctx.design_drift('layout %s: %d paths where the library requested other byte counts than the model' % (name, mism))
    # 3a paired sessions
    n = 40 if ctx.quick else 600
    for j in range(n):
        spec = scen.gen_session(rng, j, big=(j % 9 == 0), adversarial=False)
        spec['frag'] = (rng.choice(['random', 'bytes1', 'empty']) if j % 5 else 'poll') if j % 9 else 'random'
        mode = ('sync', 'async')[j % 2]
        spec['rtype'] = RTYPES[(j // 2) % len(RTYPES)]
        rr = scen.run(spec, mode, log_io=True)
        s0 = dict(spec, frag='whole', rtype=None)
        r0 = scen.run(s0, mode)
        same = [o.key() if o.kind == 'exc' else ('ret', repr(o.value)) for o in rr.outcomes] == [o.key() if o.kind == 'exc' else ('ret', repr(o.value)) for o in r0.outcomes] \
            and [e['_raw'] for e in rr.events if e['ev'] == 'tx'] == [e['_raw'] for e in r0.events if e['ev'] == 'tx'] \
            and rr.extra.get('pulled') == r0.extra.get('pulled')
        tr = [dict(ev='br', n=e['n'], left=e['left']) for e in rr.events if e['ev'] == 'br'] + [dict(ev='cmp', same=bool(same))]
        traces.append(tr)
        meta.append(dict(kind='paired-session', mode=mode, spec=spec))
    # 3a'. payloads above the legacy 4 KiB limit that arrive in several reads: what the caller is handed is the same object type with the
    #      same content as under unfragmented delivery (raw streaming output, pulled data, listings)
    for j, frag in enumerate(('random', 'bytes1', 'poll', 'random')):
        spec = dict(seed=ctx.seed + 500 + j, maxdata=65536, rid='plus', frag=frag, rtype=RTYPES[j % len(RTYPES)],
                    ops=[dict(api='streaming_shell', decode=False, cmd='big', chunks=[(bytes([65 + j]) * 5000).hex(), (b'xy' * 4500).hex(), b'tail'.hex()]),
                         dict(api='shell', decode=False, cmd='big2', chunks=[(b'q' * 4097).hex()]),
                         dict(api='pull', path='/p', size=20000, data_sizes=[10000, 10000], cuts='whole', dest='bytesio')])
        for mode in ('sync', 'async'):
            rr = scen.run(spec, mode, log_io=True)
            r0 = scen.run(dict(spec, frag='whole', rtype=None), mode)
            key = lambda r_: [o.key() if o.kind == 'exc' else ('ret', repr(o.value), type(o.value).__name__, [type(x).__name__ for x in o.value] if isinstance(o.value, list) else None) for o in r_.outcomes]  # noqa
            same = key(rr) == key(r0) and rr.extra.get('pulled') == r0.extra.get('pulled')
            traces.append([dict(ev='br', n=e['n'], left=e['left']) for e in rr.events if e['ev'] == 'br'] + [dict(ev='cmp', same=bool(same))])
            meta.append(dict(kind='paired-session (payloads above 4 KiB, result types compared)', mode=mode, spec=spec))
    # 3b corruption of a 64-byte payload: every bit, every byte
    allmuts = [(i, 1 << b) for i in range(64) for b in range(8)] + [(i, 0xFF) for i in range(64)]
    cases = []
    for pi, payload in enumerate([bytes(range(64, 128)), b'\x00' * 64, b'\xff' * 64]):     # a payload whose genuine checksum is 0 included
        ms = allmuts if not ctx.quick else (allmuts[pi::5] + [(i, 0xFF) for i in range(pi, 64, 3)])
        cases += [(payload, i, x) for (i, x) in ms]
    for (payload, i, x) in cases:
        mode = ('sync', 'async')[(i + x) % 2]
        dev = simdev.SimDevice(auth=simdev.AuthPolicy(version=(0x01000000, 0x01000001, 0xFFFFFFFF)[(i + x) % 3]))
        dev.shell_scripts[b'shell:x'] = [payload, b'tail']
        sess = env.Session(mode, dev)

        def mangle(meta_, i=i, x=x):
            b = bytearray(meta_['bytes'])
            if meta_['pk']['cmd'] == 'WRTE' and len(b) == 24 + 64:
                b[24 + i] ^= x
            return bytes(b)
        sess.core.mangle = mangle
        sess.call('connect')
        o = sess.call('shell', 'x', decode=False)
        o2 = sess.call('close')
        sess.close_loop()
        traces.append([dict(ev='corrupt', cls=o.exc_name or 'returned', leak=(o.kind == 'ret'))])
        meta.append(dict(kind='corruption', payload_first_byte=payload[0], byte=i, xor=x, mode=mode))
    # 3b'. the payload is intact but the checksum field of the header is not what the payload sums to: 0, all ones, off by one, byte-swapped, ...
    for pi, payload in enumerate([bytes(range(64, 128)), b'\x01', b'\xff' * 64, b'\x00' * 63 + b'\x01']):
        good = sum(payload) & 0xFFFFFFFF
        fields = [0, 0xFFFFFFFF, good + 1, good - 1, good ^ 0x80000000, good << 8 & 0xFFFFFFFF, int.from_bytes(good.to_bytes(4, 'little'), 'big'), len(payload)]
        for fi, field in enumerate(f_ for f_ in fields if f_ != good):
            for mode in ('sync', 'async'):
                dev = simdev.SimDevice(auth=simdev.AuthPolicy(version=(0x01000000, 0x01000001)[(pi + fi) % 2]))
                dev.shell_scripts[b'shell:x'] = [payload, b'tail']
                sess = env.Session(mode, dev, rtype=RTYPES[(pi + fi) % len(RTYPES)])

                def mangle(meta_, payload=payload, field=field):
                    b = bytearray(meta_['bytes'])
                    if meta_['pk']['cmd'] == 'WRTE' and bytes(b[24:]) == payload:
                        b[16:20] = wire.le32(field & 0xFFFFFFFF)
                    return bytes(b)
                sess.core.mangle = mangle
                sess.call('connect')
                o = sess.call('shell', 'x', decode=False)
                sess.call('close')
                sess.close_loop()
                traces.append([dict(ev='corrupt', cls=o.exc_name or 'returned', leak=(o.kind == 'ret'))])
                meta.append(dict(kind='checksum field', payload_len=len(payload), field=field & 0xFFFFFFFF, genuine=good, mode=mode))
    # 3c unknown command words
    words = set()
    for w in wire.CMD_WORD.values():
        for b in range(32):
            words.add(w ^ (1 << b))
    while len(words) < (400 if ctx.quick else 2224):
        words.add(rng.randrange(2 ** 32))
    # words of the wider protocol family that this library does not implement: newer adbd commands and the FileSync ids
    for w4 in (b'STLS', b'DATA', b'DONE', b'FAIL', b'DENT', b'STAT', b'RECV', b'SEND', b'LIST', b'QUIT', b'STA2', b'LIS2', b'DNT2', b'LST2', b'SND2', b'RCV2'):
        words.add(int.from_bytes(w4, 'little'))
    words -= set(wire.CMD_WORD.values())
    for k, w in enumerate(sorted(words)):
        mode = ('sync', 'async')[k % 2]
        dev = simdev.SimDevice()
        dev.shell_scripts[b'shell:x'] = [b'data']
        sess = env.Session(mode, dev)

        def mangle(meta_, w=w, k=k):
            b = bytearray(meta_['bytes'])
            if meta_['pk']['cmd'] == 'WRTE':
                b[0:4] = wire.le32(w)
                b[20:24] = wire.le32(w ^ wire.M32)
                if k % 4 == 3:
                    # a garbage header: it announces a payload that is not there (nothing follows on the wire) - the word is rejected at once
                    b[12:16] = wire.le32((0x7FFFFFF0, 0xFFFFFF00, 4096)[k % 3])
                    del b[24:]
            return bytes(b)
        sess.core.mangle = mangle
        sess.call('connect')
        o = sess.call('shell', 'x', decode=False)
        sess.close_loop()
        traces.append([dict(ev='unknown', cls=o.exc_name or 'returned')])
        meta.append(dict(kind='unknown-command', word=w, mode=mode))
    # a payload whose byte sum does not fit 32 bits (17 MiB of 0xFF; beyond what a device may send to a host that announced 1 MiB,
    # but the library does not cap inbound packets): adbd's checksum is the sum modulo 2^32
    for mode in ('sync', 'async'):
        dev = simdev.SimDevice()
        big = b'\xff' * (17 * 1024 * 1024)
        dev.shell_scripts[b'shell:x'] = [big]
        sess = env.Session(mode, dev)
        sess.call('connect')
        o = sess.call('shell', 'x', decode=False)
        sess.close_loop()
        traces.append([dict(ev='cmp', same=(o.kind == 'ret' and o.value == big))])
        meta.append(dict(kind='byte sum above 2^32', mode=mode, outcome=o.exc_name or 'returned'))
    ver, r2 = tlc.validate_traces('TraceReader', traces)
    ctx.add_tlc(r2, 'TraceReader over %d executions' % len(traces))
    okn = 0
    for (i, l, v) in ver:
        if v == 'ok':
            okn += 1
        else:
            ctx.violation(v, dict(meta[i], failing_event=l - 1, event=traces[i][l - 2]))
    ctx.count(traces=okn, evaluations=len(traces))
    ctx.sample(meta[0])
    ctx.sample(meta[-1])
    ctx.assumptions += ['an over-read is judged against the frame boundary known to the simulator (bytes left in the packet being read)',
                        'tour replay scales a model header byte to 8 real bytes and a payload byte to 7']


if __name__ == '__main__':
    main('C03', 'model_checking', body)
