"""C01 - shell/exec output is exactly what the device wrote, for every chunking.

1. The TLA+ decoding rule (AdbDecode) is compared with CPython on every string of the alphabet up to length 6/7.
2. spec->code: TLC enumerates every (content, cut) scenario of ShellScen and computes the expected raw /
   decoded / per-payload values; each is replayed into shell, exec_out and streaming_shell of AdbDevice
   and AdbDeviceAsync, under whole and 1-byte read fragmentation.
3. code->spec: random large outputs, random cuts, random fragmentation, 32-bit ids: traces validated by TLC
   against TraceEnv (content named by the projection as payload units; small ones as symbols, so that TLC
   itself computes the decoding).
"""
import random

from .. import env, scen, simdev, tlc
from ..framework import main


def decode_table(ctx, n):
    cfg = tlc.cfg_text(constants={'N': str(n)}, constraints=['Row'])
    r = tlc.cached_run('DecodeTable', cfg, tags=('DEC',), depends=('DecodeTable', 'AdbDecode'))
    ctx.add_tlc(r, 'DecodeTable N=%d' % n)
    rows = tlc.printed(r, 'DEC')
    seen = set()
    bad = 0
    for row in rows:
        k = tuple(row['s'])
        if k in seen:
            continue
        seen.add(k)
        want = scen.syms_to_bytes(row['s']).decode('utf8', 'backslashreplace')
        if scen.outsyms_to_text(row['d']) != want:
            bad += 1
    expect = sum(5 ** i for i in range(n + 1))
    if len(seen) != expect or bad:
        raise tlc.TlcError('AdbDecode disagrees with CPython on %d of %d strings (expected %d rows)' % (bad, len(seen), expect))
    ctx.extra['decode_rule_crosschecked_strings'] = len(seen)


def scenarios(ctx, maxsyms, maxchunks):
    cfg = tlc.cfg_text(constants={'MaxSyms': str(maxsyms), 'MaxChunks': str(maxchunks)}, invariants=['TypeOK', 'NoDecodeError'], constraints=['Scen'])
    r = tlc.cached_run('ShellScen', cfg, tags=('SCEN',), depends=('ShellScen', 'AdbDecode'))
    if r.violations:
        raise tlc.TlcError('ShellScen: %s' % r.violations[0]['name'])
    ctx.add_tlc(r, 'ShellScen MaxSyms=%d MaxChunks=%d' % (maxsyms, maxchunks))
    out = {}
    for s in tlc.printed(r, 'SCEN'):
        out[repr(s['chunks'])] = s
    return list(out.values())


APIS = [('shell', False), ('shell', True), ('exec_out', False), ('exec_out', True), ('streaming_shell', False), ('streaming_shell', True)]


def expected(s, api, dec):
    if api == 'streaming_shell':
        return [scen.outsyms_to_text(x) for x in s['each']] if dec else [scen.syms_to_bytes(x) for x in s['chunks']]
    return scen.outsyms_to_text(s['dec']) if dec else scen.syms_to_bytes(s['raw'])


_JOB = {}


def _replay_batch(task):
    """One session: a batch of scenarios x 6 API variants; returns (evaluations, [(clause, replay)])."""
    mode, frag, b0 = task
    scs, seed = _JOB['scs'], _JOB['seed']
    batch = scs[b0:b0 + 40]
    ops = []
    for j, s in enumerate(batch):
        for (api, dec) in APIS:
            ops.append(dict(api=api, decode=dec, cmd='s%d' % j, chunks=[scen.syms_to_bytes(c).hex() for c in s['chunks']]))
    spec = dict(seed=seed + b0, maxdata=4096, rid='plus', frag=frag, ops=ops)
    rr = scen.run(spec, mode)
    n, bad = 0, []
    for k, op in enumerate(ops):
        s = batch[k // len(APIS)]
        o = rr.outcomes[1 + k]
        want = expected(s, op['api'], op['decode'])
        n += 1
        if o.kind != 'ret' or o.value != want:
            clause = 'C01.NoDecodeError' if o.exc_name == 'UnicodeDecodeError' else ('C01.DecodeWholeVsEach' if op['decode'] else 'C01.ExactConcatenation')
            if len(bad) < 3:
                bad.append((clause, dict(kind='scenario', mode=mode, frag=frag, api=op['api'], decode=op['decode'], chunks=s['chunks'],
                                         expected=repr(want), got=repr(o.value if o.kind == 'ret' else o.exc))))
    return n, bad


def replay_scenarios(ctx, scs, modes, frags, nproc=12):
    """One session per (mode, frag, batch of scenarios): every scenario x 6 API variants.  The sessions are independent of each other
    and are dealt to forked workers."""
    import multiprocessing as mp
    tasks = [(mode, frag, b0) for mode in modes for frag in frags for b0 in range(0, len(scs), 40)]
    _JOB['scs'], _JOB['seed'] = scs, ctx.seed
    if len(tasks) < 8:
        res = [_replay_batch(t) for t in tasks]
    else:
        with mp.get_context('fork').Pool(nproc) as pool:
            res = pool.map(_replay_batch, tasks, chunksize=4)
    n = 0
    for k, bad in res:
        n += k
        for clause, rep in bad:
            if len(ctx.violations) < 3:
                ctx.violation(clause, rep)
    return n


def random_traces(ctx, rng, n, modes):
    traces, specs = [], []
    for i in range(n):
        mode = modes[i % len(modes)]
        small = rng.random() < 0.4
        ops = []
        for j in range(rng.randint(1, 4)):
            api = rng.choice(['shell', 'exec_out', 'streaming_shell'])
            if small:
                k = rng.randint(0, 4)
                chunks = [bytes(scen.SYM_BYTE[rng.randint(1, 5)] for _ in range(rng.randint(1, 3))) for _ in range(k)]
                dec = rng.random() < 0.7
            else:
                k = rng.choice([0, 1, 2, 3, 7])
                chunks = []
                for c in range(k):
                    size = rng.choice([1, 2, 3, 100, 4095, 4096, rng.randint(1, 4096)])
                    body = bytes(rng.randrange(256) for _ in range(min(size, 24))) + scen.fast_pattern(i * 100 + j * 10 + c, max(0, size - 24))
                    chunks.append((b'[%d.%d.%d]' % (i, j, c) + body)[:max(size, 12)])
                dec = False
            ops.append(dict(api=api, decode=dec, cmd=rng.choice(['x', 'ls -l', 'écho €', 'a' * 50]), chunks=[c.hex() for c in chunks]))
            if rng.random() < 0.2:
                ops.append(dict(api='root'))
        spec = dict(seed=ctx.seed * 1000 + i, maxdata=4096, rid=rng.choice(['plus', 'random', 'high']), frag=rng.choice(['whole', 'random', 'bytes1', 'empty']),
                    lid0=rng.choice([None, None, 2 ** 32 - 3, 2 ** 31 - 1, 65535]), ops=ops, small=small)
        rr = scen.run(spec, mode, **({} if not small else {}))
        if small:
            pass
        tr = scen.project_events(rr, spec, syms=small)
        if small:
            for e in tr:
                if e['ev'] in ('dv', 'rd'):
                    pass
        traces.append(tr)
        specs.append((mode, spec))
    return traces, specs


def late_reply_traces(ctx, rng, n, modes):
    """A slow service: the device withholds everything of one stream (the operation times out), and its late OKAY /
    WRITEs / CLSE arrive while the next operation is running.  Nothing of the late stream may appear in later results."""
    traces, specs = [], []
    for i in range(n):
        ops = []
        for j in range(rng.randint(2, 4)):
            k = rng.randint(0, 3)
            chunks = [(b'<%d.%d.%d>' % (i, j, c) + bytes(rng.randrange(256) for _ in range(rng.randint(0, 30)))).hex() for c in range(k)]
            ops.append(dict(api=rng.choice(['shell', 'exec_out', 'streaming_shell']), decode=False, cmd='c%d' % j, chunks=chunks, read_timeout_s=1.0))
        late = ops[rng.randrange(len(ops) - 1)]
        late['late'] = True
        if late['api'] != 'streaming_shell' and rng.random() < 0.6:
            late['timeout_s'] = rng.choice([5.0, 30.0, 0.5])     # a whole-command budget that (mostly) outlasts the wait for the OKAY
        spec = dict(seed=ctx.seed * 77 + i, maxdata=4096, rid=rng.choice(['plus', 'random', 'same']), frag=rng.choice(['whole', 'random']),
                    lid0=rng.choice([None, 2 ** 32 - 2]), ops=ops)
        spec['stall'] = rng.choice(['raise', 'empty'])     # the transport's own timeout error, or empty reads until AdbTimeoutError
        rr = scen.run(spec, modes[i % len(modes)], stall=spec['stall'])
        traces.append(scen.project_events(rr, spec))
        specs.append((modes[i % len(modes)], spec))
    return traces, specs


def stale_after_reconnect_traces(ctx, modes):
    """Something is parked in the packet store (a zero-id packet read while an OPEN waited for its OKAY; late packets of an operation
    that gave up) when the caller reconnects, with or without close(); the commands of the new connection return their own output only."""
    traces, specs = [], []
    for k in range(18):
        for mode in modes:
            ops = [dict(api='shell', decode=False, cmd='a%d' % k, chunks=[b'<a>'.hex()], stray_zero=(b'<stale%d>' % k).hex(), read_timeout_s=1.0),
                   dict(api='reconnect', close_first=(k % 3 == 2), close_raises=(None, 'oserr', 'reset')[k // 3 % 3]),
                   dict(api=('shell', 'exec_out', 'streaming_shell')[k % 3], decode=False, cmd='b%d' % k, chunks=[b'<b1>'.hex(), b'<b2>'.hex()][:1 + k % 2]),
                   dict(api='shell', decode=False, cmd='c%d' % k, chunks=[b'<c>'.hex()])]
            if k % 2:
                ops.insert(1, dict(api='shell', decode=False, cmd='l%d' % k, chunks=[b'<late>'.hex()], late=True, read_timeout_s=1.0))
            spec = dict(seed=ctx.seed + k, maxdata=4096, rid=('plus', 'same')[k % 2], frag='whole', ops=ops)
            rr = scen.run(spec, mode, stall='raise')
            traces.append(scen.project_events(rr, spec))
            specs.append((mode, spec))
    # a generator of the previous connection is advanced while a stream of the new connection is in flight (the device numbers its
    # side from the start again): the new stream's output is complete, the old generator gets none of it
    for k in range(4):
        for mode in modes:
            ops = [dict(api='streaming_shell', decode=False, cmd='old%d' % k, chunks=[b'<o1>'.hex(), b'<o2>'.hex(), b'<o3>'.hex()], take=1, hold='g', read_timeout_s=1.0),
                   dict(api='reconnect', close_first=(k % 2 == 0)),
                   dict(api='streaming_shell', decode=False, cmd='new%d' % k, chunks=[b'<n1>'.hex(), b'<n2>'.hex(), b'<n3>'.hex()], take=1, hold='h', read_timeout_s=1.0),
                   dict(api='resume', gen='g', take=1), dict(api='resume', gen='h'),
                   dict(api='shell', decode=False, cmd='c%d' % k, chunks=[b'<c>'.hex()])]
            if k >= 2:
                ops.insert(3, dict(api='shell', decode=False, cmd='m%d' % k, chunks=[b'<m>'.hex()]))
            spec = dict(seed=ctx.seed + 40 + k, maxdata=4096, rid=('plus', 'same')[k % 2], frag='whole', ops=ops)
            rr = scen.run(spec, mode, stall='raise')
            traces.append(scen.project_events(rr, spec))
            specs.append((mode, spec))
    return traces, specs


def beyond_alphabet(ctx, modes):
    """Byte sequences outside the alphabet on which the TLA+ Decode rule is defined: here the reference is CPython's own codec applied
    by the rule's two shapes - the whole output decoded once (shell / exec_out), each payload decoded alone (streaming_shell).
    A byte-order mark, non-characters, surrogates, overlong forms, 4-byte characters, code points beyond U+10FFFF, control bytes."""
    seqs = [b'\xef\xbb\xbfabc', b'\xef\xbb\xbf', b'a\xef\xbb\xbfb', b'\xef\xbf\xbe!', b'\xed\xa0\x80x', b'\xc0\x80', b'\xf0\x9f\x98\x80ok', b'\xf4\x90\x80\x80',
            b'\x80\xbf', b'\x00a\x00', b'a\r\nb\r', b'\xff\xfe\x00a', b'\xe2\x82', b'\xf0\x9f\x98']
    n = 0
    for si, b in enumerate(seqs):
        cuts = [[b]] + [[b[:i], b[i:]] for i in range(1, len(b))] + ([[b[:1], b[1:2], b[2:]]] if len(b) >= 3 else [])
        for ci, chunks in enumerate(cuts):
            for api in ('shell', 'exec_out', 'streaming_shell'):
                mode = modes[(si + ci + len(api)) % len(modes)]
                spec = dict(seed=ctx.seed + si * 31 + ci, maxdata=4096, rid='plus', frag='whole', ops=[dict(api=api, decode=True, cmd='u%d' % si, chunks=[c.hex() for c in chunks])])
                rr = scen.run(spec, mode)
                o = rr.outcomes[1]
                want = [c.decode('utf8', 'backslashreplace') for c in chunks] if api == 'streaming_shell' else b.decode('utf8', 'backslashreplace')
                n += 1
                if o.kind != 'ret' or o.value != want:
                    ctx.violation('C01.NoDecodeError' if o.kind == 'exc' else ('C01.DecodeWholeVsEach' if api != 'streaming_shell' else 'C01.ExactConcatenation'),
                                  dict(kind='bytes outside the model alphabet', mode=mode, api=api, chunks=[c.hex() for c in chunks], expected=repr(want)[:200],
                                       observed=repr(o.value if o.kind == 'ret' else o.exc)[:200]))
                    if len(ctx.violations) >= 3:
                        return n
    # a caller's subclass overrides the public streaming_shell() (it yields whole lines): shell() and exec_out() still return what the device wrote
    for si, b in enumerate([b'line1\nline2\r\nline3', b'\n\nx\n', b'no newline', b'a\x0bb\x0cc\x1cd\x85e']):
        chunks = [b[:3], b[3:]]
        for api in ('shell', 'exec_out'):
            for dec in (False, True):
                for mode in modes:
                    spec = dict(seed=ctx.seed + si, maxdata=4096, rid='plus', frag='whole', subclass='rechunk', ops=[dict(api=api, decode=dec, cmd='s%d' % si, chunks=[c.hex() for c in chunks])])
                    o = scen.run(spec, mode).outcomes[1]
                    want = b.decode('utf8', 'backslashreplace') if dec else b
                    n += 1
                    if o.kind != 'ret' or o.value != want:
                        ctx.violation('C01.ExactConcatenation', dict(kind='a subclass that overrides the public streaming_shell()', mode=mode, api=api, decode=dec, expected=repr(want)[:200],
                                                                     observed=repr(o.value if o.kind == 'ret' else o.exc)[:200]))
                        return n
    # the same commands with every argument given by position, in the documented order, and raw output asked for
    for si, b in enumerate(seqs[:8]):
        chunks = [b[:1], b[1:]] if len(b) > 1 else [b]
        for api in ('shell', 'exec_out', 'streaming_shell'):
            for mode in modes:
                spec = dict(seed=ctx.seed + si, maxdata=4096, rid='plus', frag='whole', ops=[dict(api=api, decode=False, positional=True, cmd='p%d' % si, chunks=[c.hex() for c in chunks])])
                o = scen.run(spec, mode).outcomes[1]
                want = chunks if api == 'streaming_shell' else b
                n += 1
                if o.kind != 'ret' or o.value != want:
                    ctx.violation('C01.ExactConcatenation', dict(kind='arguments by position, decode=False', mode=mode, api=api, chunks=[c.hex() for c in chunks], expected=repr(want)[:200],
                                                                 observed=repr(o.value if o.kind == 'ret' else o.exc)[:200]))
                    return n
    return n


def arrived_but_failed_traces(ctx, modes, complete_only=False):
    """A write of a command did reach the device although the transport reported a timeout for it (every write of the command in turn:
    OPEN header, OPEN payload, OKAYs, CLSE); the caller goes on with other commands, which must return exactly their own output."""
    from .. import transports
    traces, specs = [], []
    for mode in modes:
        base = scen.run(dict(seed=ctx.seed, maxdata=4096, rid='plus', frag='whole', ops=[dict(api='shell', decode=False, cmd='a', chunks=[b'A'.hex()])]), mode)
        calls = base.sess.core.calls
        wcalls = [k for k, c in enumerate(calls) if c[0] == 'bulk_write']
        for wi, k in enumerate(wcalls):
            if wi < 2:
                continue                 # the CNXN's two writes
            # a 24-byte write that is directly followed by a write of another size is a header whose payload is still to come
            header_of_more = calls[k][1][0] == 24 and wi + 1 < len(wcalls) and calls[wcalls[wi + 1]][1][0] != 24 and wcalls[wi + 1] == k + 1
            if complete_only and header_of_more:
                continue                 # failing between header and payload leaves a message half-sent: the byte stream is then broken by the fault itself
            spec = dict(seed=ctx.seed, maxdata=4096, rid=('plus', 'same')[k % 2], frag='whole',
                        ops=[dict(api='shell', decode=False, cmd='a', chunks=[b'A'.hex()], read_timeout_s=1.0), dict(api='shell', decode=False, cmd='b', chunks=[b'B1'.hex(), b'B2'.hex()], read_timeout_s=1.0),
                             dict(api='streaming_shell', decode=False, cmd='c', chunks=[b'C'.hex()], read_timeout_s=1.0)])
            rr = scen.run(spec, mode, fault=transports.Fault(at={k: 'timeout_after'}), stall='raise')
            traces.append(scen.project_events(rr, spec))
            specs.append((mode, spec, k))
    return traces, specs


def abort_then_decode_traces(ctx, modes):
    """A decode=True command fails right after a WRITE that ends in the middle of a character (the device falls silent);
    the next decode=True command on the same object (also after close/connect) must decode only what its own stream wrote."""
    traces, specs = [], []
    k = 0
    for api in ('shell', 'exec_out'):
        for tail in ([2], [2, 3], [5], [1, 2, 4]):
            for between in ([], [dict(api='reconnect')]):
                for mode in modes:
                    k += 1
                    ops = [dict(api=api, decode=True, cmd='a%d' % k, chunks=[scen.syms_to_bytes([1] + tail).hex()], budget=2, read_timeout_s=1.0)] + [dict(b) for b in between] + \
                          [dict(api=api, decode=True, cmd='b%d' % k, chunks=[scen.syms_to_bytes([1, 1]).hex(), scen.syms_to_bytes([3, 1]).hex()])]
                    spec = dict(seed=ctx.seed + k, maxdata=4096, rid='plus', frag='whole', ops=ops, small=True)
                    rr = scen.run(spec, mode)
                    traces.append(scen.project_events(rr, spec, syms=True))
                    specs.append((mode, spec))
    return traces, specs


def big_decode(ctx, modes):
    """Outputs of several MiB with one 3-byte character straddling a multiple of 1 MiB (its first / second byte being the last byte
    before the boundary).  By the Decode rule of AdbDecode the result is the ASCII run, the character, the ASCII run - whatever the size."""
    n = 0
    for mode in modes:
        for mib in ((1, 4) if ctx.quick else (1, 2, 3, 4, 5, 8)):
            for back in (1, 2):
                boundary = mib * 1024 * 1024
                pre = boundary - back
                total = boundary + 2 * 1024 * 1024 // (2 if ctx.quick else 1)
                data = b'a' * pre + b'\xe2\x82\xac' + b'a' * (total - pre - 3)
                chunks = [data[i:i + 1024 * 1024] for i in range(0, len(data), 1024 * 1024)]
                want = 'a' * pre + '\u20ac' + 'a' * (total - pre - 3)
                dev = simdev.SimDevice()
                dev.shell_scripts[b'shell:big'] = chunks
                dev.shell_scripts[b'exec:big'] = chunks
                sess = env.Session(mode, dev)
                sess.call('connect')
                for api in ('shell', 'exec_out'):
                    o = sess.call(api, 'big', decode=True)
                    n += 1
                    if o.kind != 'ret' or o.value != want:
                        got = o.value if o.kind == 'ret' else repr(o.exc)
                        where = next((i for i, (x, y) in enumerate(zip(got, want)) if x != y), -1) if isinstance(got, str) else -1
                        ctx.violation('C01.DecodeWholeVsEach', dict(kind='large output', mode=mode, api=api, total_bytes=total, character_starts_at=pre,
                                                                    first_difference_at=where, got_length=len(got) if isinstance(got, str) else None))
                sess.close_loop()
    return n


def late_design(ctx):
    """Design level: an operation that gives up while its stream is still alive on the device, late replies during the next one."""
    for rb in (False, True):
        for (n1, n2) in ((2, 2), (0, 1), (3, 0)) if not ctx.quick else ((2, 2), (0, 1)):
            cfg = tlc.cfg_text(constants={'N1': str(n1), 'N2': str(n2), 'RollbackOnTimeout': 'TRUE' if rb else 'FALSE'},
                               invariants=['NoCrossTalk', 'CompleteWhenDone', 'UniqueIds'], deadlock=True)
            r = tlc.run('AdbLate', cfg, workers=4)
            ctx.add_tlc(r, 'AdbLate N1=%d N2=%d RollbackOnTimeout=%s' % (n1, n2, rb))
            names = [v['name'] for v in r.violations]
            if not rb and names:
                ctx.violation('C01.' + names[0] + '(design)', dict(kind='design-counterexample', spec='AdbLate', state=r.violations[0]['trace'][-1][:600]))
                return
            if rb and (n1, n2) == (2, 2) and not names:
                raise tlc.TlcError('vacuity: AdbLate with RollbackOnTimeout violates nothing')


def body(ctx):
    rng = random.Random(ctx.seed)
    late_design(ctx)
    if ctx.violations:
        return
    decode_table(ctx, 6 if ctx.quick else 7)
    scs = scenarios(ctx, 4 if ctx.quick else 5, 4)
    ctx.extra['scenarios'] = len(scs)
    if ctx.quick:
        n = replay_scenarios(ctx, scs, ['sync', 'async'], ['whole'])
        if not ctx.violations:
            n += replay_scenarios(ctx, [s for s in scs if len(s['raw']) <= 3], ['sync', 'async'], ['bytes1'])
    else:
        n = replay_scenarios(ctx, scs, ['sync', 'async'], ['whole', 'random'])
        if not ctx.violations:
            n += replay_scenarios(ctx, [s for s in scs if len(s['raw']) <= 4], ['sync', 'async'], ['bytes1', 'empty'])
    ctx.count(evaluations=n, distinct=len(scs) * len(APIS))
    ctx.cov['exhaustive'] = True
    ctx.sample(dict(kind='scenario', chunks=scs[len(scs) // 2]['chunks'], dec=scs[len(scs) // 2]['dec'], each=scs[len(scs) // 2]['each']))
    if ctx.violations:
        return
    # code->spec
    traces, specs = random_traces(ctx, rng, 120 if ctx.quick else 1500, ['sync', 'async'])
    t2, s2 = late_reply_traces(ctx, rng, 60 if ctx.quick else 600, ['sync', 'async'])
    traces += t2
    specs += s2
    t3, s3 = abort_then_decode_traces(ctx, ['sync', 'async'])
    traces += t3
    specs += s3
    t4, s4 = stale_after_reconnect_traces(ctx, ['sync', 'async'])
    traces += t4
    specs += s4
    t5, s5 = arrived_but_failed_traces(ctx, ['sync', 'async'], complete_only=True)
    traces += t5
    specs += [(m_, sp_) for (m_, sp_, _) in s5]
    ctx.count(evaluations=big_decode(ctx, ['sync', 'async']))
    ctx.count(evaluations=beyond_alphabet(ctx, ['sync', 'async']))
    if ctx.violations:
        return
    ver, r = tlc.validate_traces('TraceEnv', traces)
    ctx.add_tlc(r, 'TraceEnv random shell sessions')
    okn = 0
    for (i, l, v) in ver:
        if v == 'ok':
            okn += 1
            continue
        if v.startswith('ENV.'):
            raise tlc.TlcError('environment clause %s in trace %d' % (v, i))
        ctx.violation(v, dict(kind='trace', mode=specs[i][0], spec=specs[i][1], failing_event=l - 1, events=traces[i][max(0, l - 6):l]))
    ctx.count(traces=okn)
    ctx.sample(dict(kind='trace', events=traces[0][:10]))
    # binding self-test: swap two payload names in one accepted trace -> must be rejected
    import copy
    for t in traces:
        t2 = copy.deepcopy(t)
        hit = False
        for e in t2:
            if e['ev'] == 'ret' and e.get('mode') == 'units' and len(e.get('units', [])) >= 2:
                e['units'][0], e['units'][1] = e['units'][1], e['units'][0]
                hit = True
                break
        if hit:
            v2, r2 = tlc.validate_traces('TraceEnv', [t2])
            if v2[0][2] == 'ok':
                raise tlc.TlcError('binding self-test failed: a trace with swapped payloads was accepted')
            ctx.extra['sabotage_rejected'] = v2[0][2]
            break
    ctx.assumptions += ['device conforms to the Env model (awaits OKAY per WRITE, ids non-zero)',
                        'decode=True content is restricted to the alphabet on which the TLA+ Decode rule was cross-checked exhaustively against CPython']


if __name__ == '__main__':
    main('C01', 'model_checking', body)
