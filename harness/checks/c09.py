"""C09 - list and stat return exactly the device's directory entries and metadata.

1. TLC explores AdbSyncRead (the buffered record reader shared with pull) for every record-size sequence and cut set.
2. spec->code: every layout enumerated by TLC is replayed at real scale as a directory listing (DENT header of 20
   bytes: a model header byte stands for 10 real bytes; the name is the body) on AdbDevice and AdbDeviceAsync;
   stat replies (16 bytes) are cut at every offset.
3. code->spec: listings of 0..300 entries with names of 1..255 arbitrary bytes (NUL, '/', invalid UTF-8), field
   values over the 32-bit boundary set and random, arbitrary WRITE boundaries and read fragmentation; each call is
   one trace judged by SyncMon (ListExact / StatExact, field by field as 16-bit limbs) and TraceEnv (stream closed).
"""
import random

from .. import scen, tlc
from ..framework import main
from .c08 import layouts, scale, judge

B32 = scen.BOUNDARY32


def fsenc_probe(ctx):
    """The same requests from an interpreter whose filesystem encoding is ASCII (a service started with LC_ALL=C): device paths are
    text for the device, their bytes on the wire are UTF-8 whatever the host's locale."""
    import json
    import os
    import subprocess
    e = dict(os.environ, LC_ALL='C', LANG='C', PYTHONUTF8='0', PYTHONCOERCECLOCALE='0', PYTHONPATH=os.path.dirname(os.path.dirname(os.path.dirname(os.path.abspath(__file__)))))
    p = subprocess.run(['/venv/bin/python', '-m', 'harness.fsenc_probe', ctx.repo], env=e, stdout=subprocess.PIPE, stderr=subprocess.STDOUT, timeout=300)
    line = next((l for l in p.stdout.decode('utf8', 'replace').splitlines() if l.startswith('PROBE ')), None)
    if line is None:
        # the operations themselves blew up in that environment
        ctx.violation('C09.RequestPath', dict(kind='non-UTF-8 filesystem encoding', output=p.stdout.decode('utf8', 'replace')[-600:]))
        return
    out = json.loads(line[6:])
    ctx.extra['fsenc_probe_encoding'] = out['fsenc']
    ver, r = tlc.validate_traces('TraceSync', [t['trace'] for t in out['traces']])
    ctx.add_tlc(r, 'TraceSync over %d operations run under filesystem encoding %s' % (len(out['traces']), out['fsenc']))
    for (i, l, v) in ver:
        if v != 'ok':
            ctx.violation(v, dict(kind='non-UTF-8 filesystem encoding', fsenc=out['fsenc'], mode=out['traces'][i]['mode'], op=out['traces'][i]['op'], events=out['traces'][i]['trace'][:l]))
        else:
            ctx.count(traces=1)


def body(ctx):
    rng = random.Random(ctx.seed)
    fsenc_probe(ctx)
    r, lay = layouts(ctx, 2, [0, 1, 2], 2 if ctx.quick else 3)
    ctx.add_tlc(r, 'AdbSyncRead H=2 Sizes={0,1,2}')
    if r.violations:
        ctx.violation('C09.' + r.violations[0]['name'] + '(design)', dict(kind='design-counterexample', state=r.violations[0]['trace'][-1][:800]))
        return
    runs = []
    for k, s in enumerate(lay):
        if any(x == 0 for x in s['recs']):
            continue                              # a directory entry has a name of at least one byte
        cuts, sizes = scale(s['recs'], s['cuts'], 2, 20, 3)
        total = sum(sizes) + 20 * len(sizes)
        if k % 2:
            cuts = cuts + [total]
        if k % 3 == 0:
            cuts = cuts + [total + 7]             # and one boundary inside the final DONE record
        ents = [[bytes(rng.randrange(256) for _ in range(n)).hex(), B32[(k + j) % 9], B32[(k + 2 * j + 1) % 9], B32[(k + 3 * j + 2) % 9]] for j, n in enumerate(sizes)]
        spec = dict(seed=ctx.seed + k, maxdata=4096, rid='plus', frag='whole', ops=[dict(api='list', path='/d', entries=ents, cuts=cuts)])
        for mode in ('sync', 'async'):
            runs.append((mode, spec, scen.run(spec, mode), None))
    ctx.extra['layouts_replayed'] = len(runs) // 2
    judge(ctx, runs, 'listings laid out by TLC', only=('list',))
    if ctx.violations:
        return
    runs = []
    for off in range(1, 16):
        st = [B32[off % 9], B32[(off + 3) % 9], B32[(off + 5) % 9]]
        spec = dict(seed=off, maxdata=4096, rid='random', frag='whole', ops=[dict(api='stat', path='/s', st=st, cuts=[off]), dict(api='stat', path='/t', st=st[::-1], cuts=[off, off + 1])])
        for mode in ('sync', 'async'):
            runs.append((mode, spec, scen.run(spec, mode), None))
    for a in B32:
        for b in (0, 0x80000000, 0xFFFFFFFF):
            spec = dict(seed=1, maxdata=4096, rid='plus', frag='bytes1', ops=[dict(api='stat', path=('/s', '/é', '/файл', '/Cafe\u0301/o\u0302', '/\u212b\ufb01')[(a + b) % 5], path_bytes=bool((a ^ b) & 1), st=[a, b, a ^ b])])
            runs.append(('sync', spec, scen.run(spec, 'sync'), None))
            runs.append(('async', spec, scen.run(spec, 'async'), None))
    # field values whose bytes spell words of the protocol family (a mode that reads b'FAIL', a size that reads b'DONE', ...)
    KW = scen.KEYWORD32
    for a in range(len(KW)):
        st = [KW[a], KW[(a + 5) % len(KW)], KW[(a + 9) % len(KW)]]
        ents = [[(b'n%d' % j).hex(), KW[(a + j) % len(KW)], KW[(a + 2 * j + 1) % len(KW)], KW[(a + 3 * j + 2) % len(KW)]] for j in range(3)]
        spec = dict(seed=ctx.seed + a, maxdata=4096, rid='plus', frag=('whole', 'random')[a % 2], ops=[dict(api='stat', path='/kw', st=st), dict(api='list', path='/kwd', entries=ents, cuts='random')])
        for mode in ('sync', 'async'):
            runs.append((mode, spec, scen.run(spec, mode), None))
    # replies whose packetisation contains WRITEs without payload
    for k in range(4):
        spec = dict(seed=ctx.seed + 60 + k, maxdata=4096, rid='plus', frag='whole',
                    ops=[dict(api='stat', path='/e%d' % k, st=[k + 1, k + 2, k + 3], cuts='empties'),
                         dict(api='list', path='/ed%d' % k, entries=[[b'n1'.hex(), 1, 2, 3], [b'n22'.hex(), 4, 5, 6], [b'n333'.hex(), 7, 8, 9]], cuts='empties'),
                         dict(api='stat', path='/after', st=[9, 9, 9])])
        for mode in ('sync', 'async'):
            runs.append((mode, spec, scen.run(spec, mode), None))
    # a listing that arrives as one WRITE of more than 64 KiB over a transport that keeps transfer boundaries (USB bulk)
    ents = [[(bytes([65 + j % 26]) * 255).hex(), 33188, j, j] for j in range(300)]
    spec = dict(seed=ctx.seed + 76, maxdata=4096, rid='plus', frag='whole', boundary='usb', ops=[dict(api='list', path='/wide', entries=ents, cuts='whole')])
    for mode in ('sync', 'async'):
        runs.append((mode, spec, scen.run(spec, mode), None))
    # a directory with more than a thousand entries
    ents = [[(b'f%04d' % j).hex(), 33188, j, 1000 + j] for j in range(1500)]
    spec = dict(seed=ctx.seed + 77, maxdata=65536, rid='plus', frag='whole', ops=[dict(api='list', path='/big', entries=ents, cuts='whole')])
    for mode in ('sync', 'async'):
        runs.append((mode, spec, scen.run(spec, mode), None))
    # a listing that takes longer than read_timeout_s as a whole although every packet is prompt, with a packet of another stream (a
    # streaming generator the caller keeps open) arriving in the middle of it
    for k3, (tick, rt) in enumerate([(0.05, 1.0), (0.2, 0.5)]):
        ents = [[(b'e%03d' % j).hex(), 1, 2, 3] for j in range(400)]
        spec = dict(seed=ctx.seed + 78 + k3, maxdata=4096, rid='plus', frag='whole', tick=tick,
                    ops=[dict(api='streaming_shell', decode=False, cmd='logcat', chunks=[b'l1;'.hex(), b'l2;'.hex(), b'l3;'.hex()], take=1, hold='log', freeze=True, read_timeout_s=rt),
                         dict(api='list', path='/slow', entries=ents, cuts=[400 * j_ for j_ in range(1, 30)], read_timeout_s=rt, thaw_after=12),
                         dict(api='stat', path='/slowstat', st=[1, 2, 3], read_timeout_s=rt),
                         dict(api='resume', gen='log')])
        for mode in ('sync', 'async'):
            runs.append((mode, spec, scen.run(spec, mode), None))
    # an operation aborted in the middle of its reply (the device falls silent), then the same kind of operation again on the same connection
    for k2, frag in enumerate(['whole', 'random', 'bytes1']):
        for mode in ('sync', 'async'):
            for between in ([], [dict(api='reconnect')], [dict(api='reconnect', close_first=False)]):
                for bud in (1, 2):
                    sp2 = dict(seed=170 + k2, maxdata=4096, rid='plus', frag=frag, ops=[dict(api='stat', path='/x1', st=[7, 8, 9], budget=bud, read_timeout_s=1.0)] + [dict(b) for b in between] +
                               [dict(api='stat', path='/x2', st=[10, 11, 12]), dict(api='list', path='/y1', entries=[[b'q'.hex(), 1, 2, 3]], budget=bud, read_timeout_s=1.0)] + [dict(b) for b in between] +
                               [dict(api='list', path='/y2', entries=[[b'r'.hex(), 4, 5, 6], [b's'.hex(), 7, 8, 9]])])
                    runs.append((mode, sp2, scen.run(sp2, mode), None))
            spec = dict(seed=70 + k2, maxdata=4096, rid='plus', frag=frag, ops=[
                dict(api='stat', path='/s1', st=[0x41414141, 0x42424242, 0x43434343], cuts=[7], budget=3, read_timeout_s=1.0),
                dict(api='stat', path='/s2', st=[1, 2, 3]),
                dict(api='list', path='/d1', entries=[[b'aa'.hex(), 7, 8, 9], [b'bbb'.hex(), 10, 11, 12]], cuts=[25], budget=3, read_timeout_s=1.0),
                dict(api='list', path='/d2', entries=[[b'c'.hex(), 13, 14, 15]]),
                dict(api='stat', path='/s3', st=[4, 5, 6])])
            runs.append((mode, spec, scen.run(spec, mode), None))
    for j in range(30 if ctx.quick else 600):
        n = rng.choice([0, 1, 2, 5, 40, 300] if j % 5 == 0 else [0, 1, 2, 3, 8])
        ents = []
        for e in range(n):
            name = bytes(rng.choice([0, 0x2F, 0xFF, 0xC3, 0x80, 0x41, rng.randrange(256)]) for _ in range(rng.choice([1, 2, 8, 255])))
            ents.append([name.hex(), rng.choice(B32 + [rng.randrange(2 ** 32)]), rng.choice(B32 + [rng.randrange(2 ** 32)]), rng.choice(B32 + [rng.randrange(2 ** 32)])])
        spec = dict(seed=ctx.seed * 17 + j, maxdata=rng.choice([4096, 65536]), rid='random', frag=rng.choice(['whole', 'random', 'empty', 'bytes1'] if n < 50 else ['whole', 'random']),
                    ops=[dict(api='list', path=rng.choice(['/d%d' % j, '/sdcard/é%d' % j, '/каталог', '/sdcard/e\u0301%d' % j]), path_bytes=rng.random() < 0.3, entries=ents, cuts=rng.choice(['whole', 'random', 'small', 'bytes1'] if n < 50 else ['whole', 'random']))])
        mode = ('sync', 'async')[j % 2]
        runs.append((mode, spec, scen.run(spec, mode), None))
    judge(ctx, runs, 'stat at every offset, boundary values, random listings', only=('list', 'stat'))
    ctx.sample(dict(kind='listing', entries=runs[-1][1]['ops'][0]['entries'][:2], cuts=runs[-1][1]['ops'][0]['cuts']))
    ctx.assumptions += ['names are compared as bytes (the library returns bytearray names undecoded)', 'a model header byte stands for 10 real bytes of the 20-byte DENT header']


if __name__ == '__main__':
    main('C09', 'model_checking', body)
