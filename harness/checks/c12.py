"""C12 - any transport failure leaves the device object recoverable.

1. TLC explores the design spec AdbRecover (locks only inside with-blocks, connect closes the transport and clears
   the store first, close clears the store; any transport call may fail, up to two faults): LocksFreeWhenIdle,
   CleanSession, Recoverable, SessionParams; its three sanity mutations (no release on exception, no clearing on
   connect, session parameters kept until close) must violate them.
2. code->spec, exhaustive fault enumeration: a scenario covering connect / shell / stat / list / pull / push is
   run fault-free to number its transport calls; for every call index k and every fault kind (timeout exception,
   connection reset, end-of-stream, broken pipe on writes, plain OSError, the USB transport's errors; async: cancellation) the fault is injected at k, then close(), connect() to a healthy device and
   the whole scenario again; thorough: pairs of faults (the second one during recovery).  Each run is one trace
   judged by TraceRecover (NeverWrong, LocksFreeWhenIdle, CloseCompletes, ReconnectWorks, CleanSession, NoHang).
"""
import io
import random

from .. import env, scen, simdev, tlc, transports
from ..framework import main


def scenario_ops(seed):
    from .. import wire as wire_
    hdr = wire_.frame('CLSE', 0, 0)           # output that happens to be a well-formed ADB header (a packet capture, say): payload is payload
    return [dict(api='shell', decode=False, cmd='ls', chunks=[b'out-1;'.hex(), b'out-2;'.hex()]),
            dict(api='exec_out', decode=False, cmd='cat capture.bin', chunks=[hdr.hex(), (hdr + wire_.frame('OKAY', 0, 0)).hex()]),
            dict(api='stat', path='/s', st=[33188, 1234, 99]),
            dict(api='list', path='/d', entries=[[b'a'.hex(), 1, 2, 3], [b'bb'.hex(), 4, 5, 6]], cuts='small'),
            dict(api='pull', path='/p', size=9000, data_sizes=[4000, 4000, 1000], dest='bytesio'),
            dict(api='push', path='/q', size=9000, src='bytesio', mtime=7),
            dict(api='streaming_shell', decode=False, cmd='top', chunks=[b'x'.hex()] * 3),
            dict(api='reboot')]


def locks_free(sess):
    d = sess.device
    io_ = d._io_manager
    return not any(l_.locked() for l_ in env.locks_of(d))


def outcome_key(o, extra):
    if o.kind == 'exc':
        return ('exc', o.exc_name)
    v = o.value
    if isinstance(v, list):
        v = [tuple(bytes(y) if isinstance(y, (bytes, bytearray)) else y for y in x) if isinstance(x, tuple) else x for x in v]
    return ('ret', repr(v), extra)


def run_ops(sess, spec, args, rr, stop_on_exc):
    outs = []
    for i, (op, a) in enumerate(zip(spec['ops'], args)):
        sess.dev.cur_op = i
        try:
            o = scen.run_op(sess, op, a, None, i, rr)
        except transports.Watchdog as e:
            o = env.Outcome('exc', exc=e)
        extra = rr.extra.get('pulled', {}).get(i) if op['api'] == 'pull' else (bytes(sess.dev.fs.files.get('/q', {}).get('data', b'')) if op['api'] == 'push' else None)
        if op['api'] == 'reboot':
            # reboot() returns nothing: what counts is whether the request reached the device on the current connection
            extra = any(st.dest.startswith(b'reboot:') for st in sess.dev.all_streams)
        outs.append((outcome_key(o, extra), locks_free(sess), o))
        if stop_on_exc and o.kind == 'exc':
            break
    return outs


FRAG = [None]        # fragmentation of the device's byte stream into reads for the runs of the moment (None: whole packets parts)


def one_run(mode, seed, faults, wcap_seed=None):
    """faults: {call index: kind}.  Returns (trace, total transport calls of the fault-free prefix)."""
    spec = dict(seed=seed, maxdata=4096, rid='random', frag='whole', ops=scenario_ops(seed))
    dev = scen.build_device(spec)
    rr = scen.RunResult()
    args = scen.prepare_ops(spec, dev, None)
    fault = transports.Fault(at=dict(faults))
    kw2 = {}
    if wcap_seed is not None:
        r_ = random.Random(wcap_seed)
        kw2['wcap'] = lambda n: r_.randint(1, n)
    if FRAG[0]:
        kw2['frag'] = scen.frag_fn(FRAG[0], seed)
    sess = env.Session(mode, dev, fault=fault, tick=0.001, default_transport_timeout_s=None, exclusive=True, **kw2)
    sess.core.max_calls = 20000
    sess.loop_per_call = (mode == 'async' and bool(faults) and min(faults) % 2 == 0)       # every other faulted async run: one event loop per public call (asyncio.run() each time)
    tr = []
    kw = dict(read_timeout_s=2.0, transport_timeout_s=1.0)
    for op in spec['ops']:
        op.update(kw)
    o = sess.call('connect', read_timeout_s=2.0, transport_timeout_s=1.0)
    first_fault = min(faults) if faults else None
    tr.append(dict(ev='op', api='connect', outcome=('hang' if o.exc_name in ('Watchdog', 'LockLeak') else 'exc') if o.kind == 'exc' else ('same' if o.value is True else 'wrong'), locksFree=locks_free(sess), faulted=bool(fault.fired)))
    outs = []
    if o.kind == 'ret':
        outs = run_ops(sess, spec, args, rr, stop_on_exc=True)
    ncalls = sess.core.ncalls
    return spec, dev, sess, rr, args, tr, outs, fault, ncalls


def fault_trace(mode, seed, faults, baseline, skip_close=False, wcap_seed=None, want_events=False, recovery_maxdata=None):
    spec, dev, sess, rr, args, tr, outs, fault, ncalls = one_run(mode, seed, faults, wcap_seed)
    for i, (key, lf, o) in enumerate(outs):
        if o.kind == 'exc':
            oc = 'hang' if o.exc_name in ('Watchdog', 'LockLeak') else 'exc'
        else:
            oc = 'same' if key == baseline[i] else 'wrong'
        tr.append(dict(ev='op', api=spec['ops'][i]['api'], outcome=oc, locksFree=lf, faulted=bool(fault.fired)))
    # recovery: close, connect, replay everything (later faults of a pair may strike here)
    nf0 = len(fault.fired)
    if not skip_close:
        try:
            o = sess.call('close')
            ok = o.kind == 'ret' or len(fault.fired) > nf0
        except transports.Watchdog:
            ok = False
        tr.append(dict(ev='close', ok=bool(ok), locksFree=locks_free(sess), avail=bool(sess.device.available)))
    nf0 = len(fault.fired)
    if recovery_maxdata:
        dev.auth.maxdata = dev.auth.final_maxdata = recovery_maxdata     # what answers the reconnect announces another maxdata (e.g. a recovery-mode adbd)
    o = sess.call('connect', read_timeout_s=2.0, transport_timeout_s=1.0)
    if o.kind == 'exc' and o.exc_name in ('Watchdog', 'LockLeak'):
        tr.append(dict(ev='op', api='connect', outcome='hang', locksFree=locks_free(sess), faulted=True))
    tr.append(dict(ev='reconnect', ok=(o.kind == 'ret' and o.value is True), avail=bool(sess.device.available), locksFree=locks_free(sess), faulted=len(fault.fired) > nf0))
    if o.kind == 'ret':
        rr2 = scen.RunResult()
        dev.fs.files.pop('/q', None)
        nf0 = len(fault.fired)
        outs2 = run_ops(sess, spec, args, rr2, stop_on_exc=False)
        for i, (key, lf, o2) in enumerate(outs2):
            oc = 'same' if key == baseline[i] else ('hang' if o2.exc_name in ('Watchdog', 'LockLeak') else ('exc' if o2.kind == 'exc' else 'wrong'))
            tr.append(dict(ev='op', api=spec['ops'][i]['api'], outcome=oc, locksFree=lf, faulted=len(fault.fired) > nf0))
    sess.close_loop()
    if want_events:
        evs = simdev.export(dev.rec.events, keep=('tx', 'tx_garbage', 'rd', 'dv', 'conn'))
        last = max([i for i, e in enumerate(evs) if e['ev'] == 'conn'] or [0])
        # only the connection made by the recovery is judged: on the broken one a write that failed in the middle of a packet
        # is legitimately followed by further packets (e.g. the CLSE of pull's finally)
        if any(k_ == 'cancel' for k_ in faults.values()) and (all(c_ == 'bulk_read' for (_, c_, _) in fault.fired) or not any(e_['ev'] == 'tx_garbage' for e_ in evs[:last + 1])):
            return tr, fault, evs           # a cancellation that left no message half-sent does not break the connection: everything on the wire is judged
        # (a cancellation that arrives during a write may leave a message half-sent, like any failed write: only the recovery is judged)
        return tr, fault, evs[last:]
    return tr, fault


def auth_connect_faults(ctx, mode):
    """Faults inside an authenticated handshake (two keys rejected, the public key offered and accepted, auth_timeout_s=None): every
    transport call of connect() x {timeout, reset, stalled call}.  A stalled call ends when its timeout expires; one issued without
    a timeout never ends (NoHang).  Then close(), a healthy connect() and a command."""
    class K(object):
        def __init__(self, i):
            self.i = i

        def Sign(self, d):
            return b's%d' % self.i + bytes(d)

        def GetPublicKey(self):
            return b'pub%d' % self.i

    def make(fault):
        dev = simdev.SimDevice(seed=ctx.seed)
        dev.auth = simdev.AuthPolicy(mode='auth', maxdata=4096, accept_sig=lambda i, s_, t_: False, pubkey='accept')
        dev.shell_scripts[b'shell:id'] = [b'uid=0']
        sess = env.Session(mode, dev, fault=fault, tick=0.001, default_transport_timeout_s=None, exclusive=True)
        sess.core.max_calls = 5000
        return dev, sess
    kw = dict(rsa_keys=[K(1), K(2)], auth_timeout_s=None, read_timeout_s=2.0, transport_timeout_s=1.0)
    dev, sess = make(transports.Fault())
    o = sess.call('connect', **kw)
    if o.kind != 'ret':
        raise tlc.TlcError('the fault-free authenticated connect raises: %r' % o.exc)
    ncalls = sess.core.ncalls
    calls = list(sess.core.calls)
    sess.close_loop()
    traces, meta = [], []
    for k in range(ncalls):
        for kind in ('timeout', 'reset', 'wstall'):
            if kind == 'wstall' and calls[k][0] not in ('bulk_write', 'connect'):
                continue        # close() takes no timeout, and the wait for the user's confirmation is unbounded by request (auth_timeout_s=None)
            fault = transports.Fault(at={k: kind})
            dev, sess = make(fault)
            tr = []
            o = sess.call('connect', **kw)
            hang = o.kind == 'exc' and o.exc_name in ('Watchdog', 'LockLeak')
            tr.append(dict(ev='op', api='connect', outcome='hang' if hang else ('exc' if o.kind == 'exc' else ('same' if o.value is True else 'wrong')), locksFree=locks_free(sess), faulted=bool(fault.fired)))
            if not hang:
                try:
                    oc = sess.call('close')
                    ok = oc.kind == 'ret'
                except transports.Watchdog:
                    ok = False
                tr.append(dict(ev='close', ok=bool(ok), locksFree=locks_free(sess), avail=bool(sess.device.available)))
                dev.auth.accept_sig = lambda i, s_, t_: True
                o2 = sess.call('connect', **kw)
                tr.append(dict(ev='reconnect', ok=(o2.kind == 'ret' and o2.value is True), avail=bool(sess.device.available), locksFree=locks_free(sess), faulted=False))
                if o2.kind == 'ret':
                    o3 = sess.call('shell', 'id', decode=False, read_timeout_s=2.0)
                    tr.append(dict(ev='op', api='shell', outcome='same' if (o3.kind == 'ret' and o3.value == b'uid=0') else ('exc' if o3.kind == 'exc' else 'wrong'), locksFree=locks_free(sess), faulted=False))
            sess.close_loop()
            traces.append(tr)
            meta.append(dict(kind='fault in an authenticated connect (auth_timeout_s=None)', mode=mode, at={str(k): kind}, call=calls[k][0]))
    return traces, meta


def subclass_hook_faults(ctx, mode):
    """The caller uses a subclass whose close() says good-bye to the device with a command while the connection is up.  A transport call
    fails in the middle of an operation; the caller then reconnects WITHOUT close() (connect() is documented to do that on its own):
    the reconnect succeeds and commands work - connect() does not route through the subclass's hook."""
    traces, meta = [], []
    for k in range(2, 14):
        for kind in ('timeout', 'reset'):
            dev = simdev.SimDevice(seed=ctx.seed + k)
            dev.shell_scripts[b'shell:id'] = [b'uid=0']
            dev.shell_scripts[b'shell:echo bye'] = [b'bye']
            fault = transports.Fault(at={k: kind})
            sess = env.Session(mode, dev, fault=fault, tick=0.001, default_transport_timeout_s=None, subclass='goodbye')
            sess.core.max_calls = 5000
            tr = []
            o = sess.call('connect', read_timeout_s=2.0, transport_timeout_s=1.0)
            tr.append(dict(ev='op', api='connect', outcome='exc' if o.kind == 'exc' else 'same', locksFree=locks_free(sess), faulted=bool(fault.fired)))
            if o.kind == 'ret':
                o1 = sess.call('shell', 'id', decode=False, read_timeout_s=2.0, transport_timeout_s=1.0)
                tr.append(dict(ev='op', api='shell', outcome='exc' if o1.kind == 'exc' else ('same' if o1.value == b'uid=0' else 'wrong'), locksFree=locks_free(sess), faulted=bool(fault.fired)))
            o2 = sess.call('connect', read_timeout_s=2.0, transport_timeout_s=1.0)
            hang = o2.kind == 'exc' and o2.exc_name in ('Watchdog', 'LockLeak')
            if hang:
                tr.append(dict(ev='op', api='connect', outcome='hang', locksFree=locks_free(sess), faulted=True))
            tr.append(dict(ev='reconnect', ok=(o2.kind == 'ret' and o2.value is True), avail=bool(sess.device.available), locksFree=locks_free(sess), faulted=False))
            if o2.kind == 'ret':
                o3 = sess.call('shell', 'id', decode=False, read_timeout_s=2.0)
                tr.append(dict(ev='op', api='shell', outcome='same' if (o3.kind == 'ret' and o3.value == b'uid=0') else ('exc' if o3.kind == 'exc' else 'wrong'), locksFree=locks_free(sess), faulted=False))
            sess.close_loop()
            traces.append(tr)
            meta.append(dict(kind="a subclass with a close() hook; reconnect without close() after a fault", mode=mode, at={str(k): kind}))
    return traces, meta


def baseline_for(mode, seed):
    spec, dev, sess, rr, args, tr, outs, fault, ncalls = one_run(mode, seed, {})
    sess.call('close')
    sess.close_loop()
    if any(o.kind == 'exc' for _, _, o in outs):
        raise tlc.TlcError('the fault-free scenario raises: %r' % [o for _, _, o in outs if o.kind == 'exc'])
    calls = list(sess.core.calls)
    return [k for k, _, _ in outs], ncalls, calls


def body(ctx):
    rng = random.Random(ctx.seed)
    # 1. design
    for nf, nc, sp, expect in ((False, False, False, None), (True, False, False, 'LocksFreeWhenIdle'), (False, True, False, 'CleanSession'), (False, False, True, 'SessionParams')):
        cfg = tlc.cfg_text(constants={'MaxFaults': '2', 'MaxEpoch': '3', 'NoFinally': 'TRUE' if nf else 'FALSE', 'NoClear': 'TRUE' if nc else 'FALSE', 'StaleParams': 'TRUE' if sp else 'FALSE'},
                           invariants=['LocksFreeWhenIdle', 'CleanSession', 'Recoverable', 'SessionParams'], constraints=['Bound'])
        r = tlc.run('AdbRecover', cfg)
        ctx.add_tlc(r, 'AdbRecover NoFinally=%s NoClear=%s StaleParams=%s' % (nf, nc, sp))
        names = [v['name'] for v in r.violations]
        if expect is None and names:
            ctx.violation('C12.' + names[0] + '(design)', dict(kind='design-counterexample', state=r.violations[0]['trace'][-1][:600]))
            return
        if expect is not None and expect not in names:
            raise tlc.TlcError('vacuity: sanity mutation %s/%s/%s does not violate %s' % (nf, nc, sp, expect))
    # 2. fault enumeration
    traces, meta, env_traces, env_meta = [], [], [], []
    for mode in ('sync', 'async'):
        base, ncalls, calls = baseline_for(mode, ctx.seed)
        ctx.extra.setdefault('transport_calls_in_scenario', {})[mode] = ncalls
        ks = list(range(ncalls))
        for k in ks:
            # other exception classes a transport can raise: a broken pipe on writes, a plain OSError, the USB transport's own errors
            others = (('epipe',) if calls[k][0] == 'bulk_write' else ()) + (('oserr', 'usb', 'eintr')[k % 3],)
            for kind in ('timeout', 'reset', 'eof') + (('cancel',) if mode == 'async' else ()) + others:
                # the fault at call k of the plain scenario (recovery with or without close(), to a peer with the same or a smaller maxdata) ...
                skip = bool((k + len(kind)) % 2)
                rmax = 1500 if (k // 4 + len(kind)) % 3 == 0 else None
                runs_ = [(skip, None, rmax)]
                if (k + len(kind)) % 3 == 0:
                    runs_.append((not skip, ctx.seed + k, None))          # ... and, for a third of them, at call k of the same scenario under short writes
                for (skip_, wseed_, rmax_) in runs_:
                    tr, fault, evs = fault_trace(mode, ctx.seed, {k: kind}, base, skip_close=skip_, wcap_seed=wseed_, want_events=True, recovery_maxdata=rmax_)
                    traces.append(tr)
                    env_traces.append(evs)
                    meta.append(dict(kind='fault', mode=mode, at={str(k): kind}, call=(calls[k][0] if k < len(calls) else '?') if wseed_ is None else 'call %d under short writes' % k,
                                     recovery_without_close=skip_, short_writes=wseed_ is not None, recovery_maxdata=rmax_))
                    env_meta.append(meta[-1])
        # a fault exactly at the close() that follows the healthy scenario, and at the connect() after it
        for extra in (0, 1, 2, 3, 4, 5):
            for kind in ('timeout', 'reset') + (('cancel',) if mode == 'async' else ()):
                for skip_close in (False, True):
                    tr, fault = fault_trace(mode, ctx.seed, {ncalls + extra: kind}, base, skip_close=skip_close)
                    traces.append(tr)
                    meta.append(dict(kind='fault-in-recovery', mode=mode, at={str(ncalls + extra): kind}, recovery_without_close=skip_close))
        # the same scenario with the device's bytes arriving in fragments: a fault now strikes after part of a header or payload
        # was read; whatever the host kept of that packet must not reach the next connection (seeded change C12-w10-c12-m1)
        FRAG[0] = 'random'
        try:
            base_f, ncalls_f, calls_f = baseline_for(mode, ctx.seed)
            rk = [k for k in range(min(ncalls_f, len(calls_f))) if calls_f[k][0] == 'bulk_read']
            step = max(1, len(rk) // (40 if ctx.quick else 400))
            ctx.extra.setdefault('fragmented_scenario_reads', {})[mode] = len(rk)
            for j, k in enumerate(rk[::step]):
                for kind in ('timeout', 'reset'):
                    tr, fault = fault_trace(mode, ctx.seed, {k: kind}, base_f, skip_close=bool(j % 2))
                    traces.append(tr)
                    meta.append(dict(kind='fault under fragmented reads', mode=mode, at={str(k): kind}, recovery_without_close=bool(j % 2)))
        finally:
            FRAG[0] = None
        t_a, m_a = auth_connect_faults(ctx, mode)
        traces += t_a
        meta += m_a
        t_a, m_a = subclass_hook_faults(ctx, mode)
        traces += t_a
        meta += m_a
        if not ctx.quick:
            for _ in range(600):
                k1 = rng.randrange(ncalls)
                k2 = k1 + rng.randint(1, 60)
                f = {k1: rng.choice(['timeout', 'reset', 'eof']), k2: rng.choice(['timeout', 'reset', 'eof'])}
                tr, fault = fault_trace(mode, ctx.seed, f, base)
                traces.append(tr)
                meta.append(dict(kind='fault-pair', mode=mode, at={str(a): b for a, b in f.items()}))
    ver, r2 = tlc.validate_traces('TraceRecover', traces)
    ctx.add_tlc(r2, 'TraceRecover over %d injected faults' % len(traces))
    okn = 0
    for (i, l, v) in ver:
        if v == 'ok':
            okn += 1
        else:
            ctx.violation(v, dict(meta[i], failing_event=l - 1, events=traces[i][max(0, l - 4):l]))
    ctx.count(traces=okn, evaluations=len(traces), distinct=len(traces))
    # whatever the host put on the wire during the faulted run and the recovery is also judged by the protocol monitor:
    # a broken session must not leak half-sent bytes or packets of closed streams into the next connection
    ver2, r3 = tlc.validate_traces('TraceEnv', env_traces)
    ctx.add_tlc(r3, 'TraceEnv over the wire traffic of %d faulted runs' % len(env_traces))
    for (i, l, v) in ver2:
        if v.startswith('C02.') or v in ('C04.AfterClose', 'C04.DoubleClose', 'C04.Maxdata'):
            e_ = env_traces[i][l - 2]
            ctx.violation('C12.CleanSession(' + v + ')', dict(env_meta[i], failing_event=l - 1, event={kk: e_.get(kk) for kk in ('ev', 'cmd', 'a0', 'a1', 'reason')}))
    ctx.cov['exhaustive'] = True
    ctx.cov['rule'] = 'one case per (implementation, transport-call index k of the scenario, fault kind) - every k is enumerated; thorough adds random pairs (k1<k2); a case is non-trivial when the fault fired (all are distinct by construction)'
    ctx.sample(dict(meta[10], events=traces[10]))
    ctx.assumptions += ['after the faulted operation the session is closed; operations continued on a broken session are outside the property',
                        'a persistent end-of-stream is modelled as empty reads that take the transport timeout each (virtual clock)']


if __name__ == '__main__':
    main('C12', 'fault_enumeration', body)
