"""C14 - stream ids are non-zero, 32-bit and unique among live streams.

1. TLC explores AdbAlloc (one action per source line of the allocation block, 2-3 concurrent opens, counter
   starting at 0 / M-3 / M-2 / M-1 where M stands for 2^32): IdRange and UniqueLive hold with the lock; the
   model's sanity mutation UseLock=FALSE must violate UniqueLive (non-vacuity).
2. spec->code: every path of the 2-thread graph is replayed into two real threads running AdbDevice._open
   with line-level preemption (sys.settrace) inside the block; counter and ids compared after every step.
3. code->spec: exhaustive DFS over all line-level interleavings of the real block for 2 threads and
   random ones for 3 threads (and the asyncio twin at its await points), for counters near 0 and 2^32; the
   OPEN packets on the wire are judged by the C14 clauses of the TraceEnv monitor.
"""
import inspect
import os
import random
import shutil
import subprocess
import sys
import threading
import time

from .. import env, sched, simdev, tlc, tour, transports, wire
from ..framework import main

M32 = 2 ** 32
STARTS = {0: 0, 1: M32 - 3, 2: M32 - 2, 3: M32 - 1}     # model counter value (M = 4) -> real counter value


def alloc_run(threads, start, uselock, emit=False, allow_fail=False, give_back=False, m=4):
    cfg = tlc.cfg_text(constants={'Threads': '{' + ','.join('"%s"' % t for t in threads) + '}', 'M': str(m), 'Start': str(start), 'UseLock': 'TRUE' if uselock else 'FALSE',
                                  'AllowFail': 'TRUE' if allow_fail else 'FALSE', 'GiveBack': 'TRUE' if give_back else 'FALSE'},
                       invariants=['IdRange', 'UniqueLive', 'LockFreeWhenIdle'], view='View', action_constraints=['EmitEdge'] if emit else [])
    if emit:
        return tlc.cached_run('AdbAlloc', cfg, depends=('AdbAlloc',))
    return tlc.run('AdbAlloc', cfg)


# ------------------------------------------------------------------ real side: line-level scheduler inside _open
class Stop(BaseException):
    pass


class LineWorld(object):
    def __init__(self, names, start, raw=False, opcode=False, tt=None):
        self.w_closes = False        # the reconnecting thread calls close() before connect()
        self.tt = tt                # the transport timeout the opens are called with (0: nothing may wait)
        m = env.mods()['sync']
        self.opcode = opcode        # preempt before every bytecode instruction of _open (not only before every line)
        self.prestep = True
        self.names = names
        self.sched = sched.ThreadSched(raw=raw)
        self.rec = simdev.Recorder()
        self.rec.who = sched.current_name
        self.dev = simdev.SimDevice(rec=self.rec, lazy=False)
        self.core = transports.PipeCore(self.dev, rec=self.rec)
        self.core.defer = True
        w = self

        class SLock(object):
            def __init__(self):
                self.holder = None
                self.is_id = False

            def acquire(self, blocking=True, timeout=-1):
                me = sched.current_name()
                nonblocking = (not blocking) or timeout == 0          # threading.Lock.acquire(True, 0) / acquire(False): do not wait
                if self.is_id and me in w.sched.th:
                    w.sched.boundary('acq', lambda: self.holder is None or nonblocking)
                if self.holder is not None and nonblocking:
                    return False
                self.holder = me
                return True

            def release(self):
                self.holder = None

            def __enter__(self):
                self.acquire()

            def __exit__(self, *a):
                self.release()
        m.Lock = SLock
        MemT, _ = env.tclasses()

        class T(MemT):
            def bulk_read(self, n, t):
                raise Stop()
        self.device = m.AdbDevice(T(self.core), banner=b'verif')
        env.set_available(self.device, True)
        self.core.connected = True
        self.device._local_id = start
        env.locks_of(self.device)[0].is_id = True
        fn = m.AdbDevice._open
        self.code = fn.__code__
        src, first = inspect.getsourcelines(fn)
        self.labels = {}
        self.generic = False
        try:
            lo = next(i for i, l in enumerate(src) if '_local_id += 1' in l) + first
            hi = next(i for i, l in enumerate(src) if 'adb_info = _AdbTransactionInfo(' in l) + first
            for i, l in enumerate(src):
                ln = i + first
                if lo <= ln <= hi and l.strip() and not l.strip().startswith('#'):
                    s = l.strip()
                    self.labels[ln] = 'inc' if '+= 1' in s else 'cmp' if s.startswith('if ') else 'wrap' if '_local_id = 1' in s else 'take' if 'adb_info =' in s else 'other'
            if sorted(set(self.labels.values())) != ['cmp', 'inc', 'take', 'wrap']:
                raise StopIteration
        except StopIteration:
            # the block is not the one the design spec transcribes: preempt before every line of _open instead
            self.generic = True
            self.labels = {}
            body_started = False
            for i, l in enumerate(src):
                s = l.strip()
                if body_started and s and not s.startswith('#') and not s.startswith('"""'):
                    self.labels[i + first] = 'line%d' % i
                if 'with self._local_id_lock' in l or '_local_id_lock' in l or ('with ' in l and '_lock' in l):
                    body_started = True

        def tracer(frame, event, arg):
            if frame.f_code is self.code:
                if self.opcode:
                    frame.f_trace_opcodes = True

                def local(frame, event, arg):
                    if self.opcode:
                        if event == 'opcode':
                            self.sched.boundary('op', lambda: True)
                    elif event == 'line' and frame.f_lineno in self.labels:
                        self.sched.boundary(self.labels[frame.f_lineno], lambda: True)
                    return local
                return local
            return None
        self.tracer = tracer

    def spawn_all(self):
        for nm in self.names:
            if nm == 'W':
                # a watchdog thread that reconnects the device while the others are opening streams (one atomic step of the schedule)
                def wbody():
                    try:
                        if self.w_closes:
                            self.device.close()
                        self.device.connect(read_timeout_s=1.0)
                    except Stop:
                        pass
                    except sched.Abort:
                        raise
                    except Exception as e:  # noqa
                        self.rec.ev('connect_raised', cls=type(e).__name__)
                self.sched.spawn(nm, wbody)
                continue

            def body(nm=nm):
                sys.settrace(self.tracer)
                if self.opcode:
                    sys.settrace(self.tracer)      # CPython 3.12: f_trace_opcodes is honoured only after the trace function was installed again
                try:
                    if nm == 'E':
                        self.device._open(b'shell:x', self.tt, None, 5)      # a caller's mistake: no read timeout next to a whole-command limit (not comparable)
                    else:
                        self.device._open(b'shell:x', self.tt, 1, None)
                except Stop:
                    pass
                except sched.Abort:
                    raise
                except Exception as e:  # noqa
                    self.rec.ev('open_raised', cls=type(e).__name__, msg=str(e)[:100], counter=self.device._local_id)
                finally:
                    sys.settrace(None)
            self.sched.spawn(nm, body)
        if 'W' in self.names or not self.prestep:
            return                      # with a reconnecting thread every thread starts from scratch: an open may begin after the reconnect
        for nm in self.names:
            self.sched.step(nm)         # to the lock acquisition

    def enabled(self):
        return [n for n, r in self.sched.th.items() if not r.done and r.runnable()]

    def pcs(self):
        out = {}
        for n, r in self.sched.th.items():
            out[n] = 'live' if r.done else {'acq': 'idle'}.get(r.at, r.at)
        return out

    def opens(self):
        return [e for e in self.rec.events if e['ev'] == 'tx' and e['cmd'] == 'OPEN']

    def trace(self):
        return [{k: v for k, v in e.items() if not k.startswith('_')} for e in self.rec.events if e['ev'] in ('tx', 'open_raised')]


def replay_model_paths(ctx, start_model, paths):
    """spec->code: drive two real threads along each model path; compare counter, ids and line labels."""
    real_start = STARTS[start_model]
    steps = 0
    probe = LineWorld(['t1'], real_start)
    probe.sched.kill()
    if probe.generic:
        ctx.design_drift('the id allocation block of _open is not the one AdbAlloc transcribes (inc / cmp / wrap / take lines not found): model paths not replayed')
        return 0
    for p in paths:
        w = LineWorld(['t1', 't2'], real_start)
        w.spawn_all()
        try:
            for i, e in enumerate(p):
                who, what = e['act']['who'], e['act']['what']
                if what == 'Close':
                    continue
                w.sched.step(who)
                steps += 1
                st = e['to']
                want_pc = {t: ('live' if v in ('live', 'closed') else v) for t, v in st['pc'].items()}
                got_pc = w.pcs()
                cnt = w.device._local_id
                ids = {e2['t']: wire.unlimbs(e2['a0']) for e2 in w.opens()}
                ok = got_pc == want_pc and cnt % 4 == st['cnt'] % 4 and (cnt == M32) == (st['cnt'] == 4 and start_model != 0) \
                    and all(ids.get(t, None) is None or ids[t] % 4 == st['my'][t] % 4 for t in ids) \
                    and all((t in ids) == (st['pc'][t] in ('live', 'closed')) for t in st['pc'])
                if not ok:
                    ctx.design_drift('AdbAlloc start=%d: after %s.%s real pc=%s counter=%d ids=%s, model pc=%s cnt=%d my=%s' % (
                        start_model, who, what, got_pc, cnt, ids, want_pc, st['cnt'], st['my']))
                    return steps
        finally:
            w.sched.kill()
    return steps


def dfs_real(ctx, names, start, limit=None, rng=None, raw=False, tt=None, w_closes=False):
    """code->spec: all (or `limit` random) line-level schedules of the real block; returns traces."""
    traces, scheds = [], []

    def run(schedule):
        w = LineWorld(names, start, raw=raw, tt=tt)
        w.w_closes = w_closes
        w.spawn_all()
        fan = []
        i = 0
        chosen = []
        while True:
            en = w.enabled()
            if not en:
                break
            if rng is not None:
                c = rng.randrange(len(en))
            else:
                c = schedule[i] if i < len(schedule) else 0
            fan.append(len(en))
            chosen.append(en[c])
            w.sched.step(en[c])
            i += 1
        w.sched.kill()
        return w.trace(), fan, chosen
    if rng is not None:
        for _ in range(limit):
            tr, fan, ch = run([])
            traces.append(tr)
            scheds.append(ch)
        return traces, scheds
    stack = [[]]
    cap = 1500 if ctx.quick else 40000
    while stack:
        pre = stack.pop()
        tr, fan, ch = run(pre)
        traces.append(tr)
        scheds.append(ch)
        for i in range(len(pre), len(fan)):
            for c in range(1, fan[i]):
                stack.append((pre + [0] * (i - len(pre)))[:i] + [c])
        if len(traces) >= cap:
            # a block with this many line-level schedules is not the one this family was sized for (the unchanged tree has a few
            # hundred): stop the enumeration here and sample the rest at random, so that the check ends in bounded time
            ctx.extra['line_level_enumeration_truncated'] = True
            rng = random.Random(ctx.seed + len(traces))
            for _ in range(300):
                tr, fan, ch = run([])
                traces.append(tr)
                scheds.append(ch)
            break
    return traces, scheds


def opcode_preemptions(ctx, start):
    """Bytecode-level preemption with one preemption: thread A is stopped before its k-th instruction inside _open (every k), thread B
    runs to the end, then A finishes; and the other way round.  Returns (traces, schedules)."""
    traces, scheds = [], []
    for first, second in (('A', 'B'), ('B', 'A')):
        k = 0
        while True:
            w = LineWorld(['A', 'B'], start, opcode=True)
            w.prestep = False
            w.spawn_all()
            steps = 0
            ended = False
            for _ in range(k):
                if w.sched.th[first].done or not w.sched.th[first].runnable():
                    ended = True
                    break
                w.sched.step(first)
                steps += 1
            # now the other thread as far as it can go, then the first one, then whoever is left
            for nm in (second, first, second):
                while not w.sched.th[nm].done and w.sched.th[nm].runnable():
                    w.sched.step(nm)
            w.sched.kill()
            traces.append(w.trace())
            scheds.append(['%s stopped before its instruction %d, then %s' % (first, k, second)])
            if ended or k > 400:
                break
            k += 1
    return traces, scheds


def apalache_inductive(ctx):
    """Thorough tier: the allocator with the real modulus 2^32 and any starting value, decided by an inductive invariant
    (tla/AdbAllocInd.tla, Apalache).  TLC first checks IndInv and Safe as plain invariants of the same module with M = 9
    (every start value), so that the transcription is also explored explicitly.  A missing or failing tool is recorded,
    never reported as a violation of the code; a counterexample to an obligation is a design counterexample."""
    cfg = tlc.cfg_text(constants={'M': '9'}, invariants=['IndInv', 'Safe'])
    r = tlc.run('AdbAllocInd', cfg)
    ctx.add_tlc(r, 'AdbAllocInd M=9, every start value: IndInv and Safe as invariants (TLC)')
    if r.violations:
        ctx.violation('C14.' + ('UniqueLive' if r.violations[0]['name'] == 'Safe' else r.violations[0]['name']) + '(design)',
                      dict(kind='design-counterexample', module='AdbAllocInd', trace=r.violations[0]['trace'][-3:]))
        return
    exe = shutil.which('apalache-mc')
    rec = ctx.extra.setdefault('apalache_inductive', dict(module='AdbAllocInd', M='2^32', threads=3, obligations=[]))
    if not exe:
        rec['status'] = 'apalache-mc not found: obligations not discharged'
        return
    wd = tlc.workdir('apa')
    apa_env = dict(os.environ, JAVA_IO_TMPDIR=wd, TMPDIR=wd)        # SANY's scratch directories stay inside the run's own directory
    try:
        shutil.copy(os.path.join(tlc.TLA, 'AdbAllocInd.tla'), wd)
        with open(os.path.join(wd, 'MCAllocInd.tla'), 'w') as f:
            f.write('---- MODULE MCAllocInd ----\nEXTENDS AdbAllocInd\nConstInit == M = 4294967296\n====\n')
        obligations = [('Init => IndInv', 'Init', 'IndInv', 0), ('IndInv /\\ Next => IndInv\'', 'IndInv', 'IndInv', 1),
                       ('IndInv => IdRange /\\ UniqueLive', 'IndInv', 'Safe', 0)]
        for name, init, inv, length in obligations:
            t0 = time.time()
            try:
                p = subprocess.run([exe, 'check', '--cinit=ConstInit', '--init=' + init, '--inv=' + inv, '--length=%d' % length,
                                    '--out-dir=' + os.path.join(wd, 'out'), 'MCAllocInd.tla'], cwd=wd, stdout=subprocess.PIPE,
                                   stderr=subprocess.STDOUT, timeout=900, env=apa_env)
                out, rc = p.stdout.decode('utf8', 'replace'), p.returncode
            except subprocess.TimeoutExpired:
                out, rc = '', 'timeout'
            verdict = 'proved' if rc == 0 and 'EXITCODE: OK' in out else 'counterexample' if rc == 12 else 'inconclusive (%r)' % (rc,)
            rec['obligations'].append(dict(obligation=name, verdict=verdict, wall_s=round(time.time() - t0, 1)))
            if verdict == 'counterexample':
                ctx.violation('C14.UniqueLive(design)', dict(kind='design-counterexample', module='AdbAllocInd', obligation=name, tail=out[-1500:]))
                return
        rec['status'] = 'all proved' if all(o['verdict'] == 'proved' for o in rec['obligations']) else 'not all obligations discharged'
        # non-vacuity: without the lock guard of Acq the step obligation must have a counterexample
        if rec['status'] == 'all proved':
            mut = os.path.join(wd, 'mut')
            os.makedirs(mut)
            src = open(os.path.join(tlc.TLA, 'AdbAllocInd.tla')).read()
            guard = 'pc[t] = "idle" /\\ lock = "free" /\\ lock\' = t'
            if guard not in src:
                raise tlc.TlcError('AdbAllocInd: the Acq guard to mutate was not found')
            with open(os.path.join(mut, 'AdbAllocInd.tla'), 'w') as f:
                f.write(src.replace(guard, 'pc[t] = "idle" /\\ lock\' = t'))
            shutil.copy(os.path.join(wd, 'MCAllocInd.tla'), mut)
            try:
                p = subprocess.run([exe, 'check', '--cinit=ConstInit', '--init=IndInv', '--inv=IndInv', '--length=1', '--out-dir=' + os.path.join(mut, 'out'),
                                    'MCAllocInd.tla'], cwd=mut, stdout=subprocess.PIPE, stderr=subprocess.STDOUT, timeout=900, env=apa_env)
                rc = p.returncode
            except subprocess.TimeoutExpired:
                rc = 'timeout'
            rec['sanity_mutation_no_lock'] = 'rejected (counterexample to the step obligation)' if rc == 12 else 'inconclusive (%r)' % (rc,)
            if rc == 0:
                raise tlc.TlcError('vacuity: AdbAllocInd without the lock guard still passes the step obligation')
        if rec['status'] == 'all proved':
            ctx.count(evaluations=len(obligations))
    finally:
        shutil.rmtree(wd, ignore_errors=True)


def body(ctx):
    rng = random.Random(ctx.seed)
    # 1. design
    for threads in (['t1', 't2'], ['t1', 't2', 't3']):
        for start in (0, 1, 2, 3):
            r = alloc_run(threads, start, True)
            ctx.add_tlc(r, 'AdbAlloc %d threads Start=%d with lock' % (len(threads), start))
            if r.violations:
                ctx.violation('C14.' + r.violations[0]['name'] + '(design)', dict(kind='design-counterexample', threads=threads, start=start,
                                                                                  trace=r.violations[0]['trace'][-3:]))
                return
    r = alloc_run(['t1', 't2'], 2, False)
    ctx.add_tlc(r, 'AdbAlloc sanity mutation UseLock=FALSE (must violate)')
    if not r.violations:
        raise tlc.TlcError('vacuity: AdbAlloc without the lock does not violate UniqueLive')
    ctx.extra['sanity_mutation_violates'] = r.violations[0]['name']
    # opens that fail after they took their id: spent ids are harmless, ids handed back are not (sanity mutation GiveBack)
    r = alloc_run(['t1', 't2', 't3'], 0, True, allow_fail=True, m=8)
    ctx.add_tlc(r, 'AdbAlloc 3 threads, opens may fail after Take (ids are spent)')
    if r.violations:
        ctx.violation('C14.' + r.violations[0]['name'] + '(design)', dict(kind='design-counterexample', config='AllowFail', trace=r.violations[0]['trace'][-3:]))
        return
    r = alloc_run(['t1', 't2', 't3'], 0, True, allow_fail=True, give_back=True, m=8)
    ctx.add_tlc(r, 'AdbAlloc sanity mutation GiveBack (must violate)')
    if not r.violations:
        raise tlc.TlcError('vacuity: AdbAlloc with ids handed back does not violate UniqueLive')
    ctx.extra['sanity_mutation_giveback_violates'] = r.violations[0]['name']
    if not ctx.quick:
        apalache_inductive(ctx)
        if ctx.violations:
            return
    # 2. spec->code
    for start in (0, 1, 2, 3):
        r = alloc_run(['t1', 't2'], start, True, emit=True)
        g = tour.Graph(tlc.printed(r, 'EDGE'))
        paths = g.tour()
        steps = replay_model_paths(ctx, start, paths)
        ctx.count(evaluations=steps, distinct=len(g.edges))
        ctx.extra.setdefault('design_conformance', []).append(dict(start=start, edges=len(g.edges), paths=len(paths), steps=steps))
    # 3. code->spec
    traces, scheds, labels = [], [], []
    for start in (0, M32 - 3, M32 - 2, M32 - 1):
        tr, sc = dfs_real(ctx, ['A', 'B'], start)
        traces += tr
        scheds += sc
        labels += [('2 threads exhaustive', start)] * len(tr)
        tr, sc = dfs_real(ctx, ['A', 'B', 'C'], start, limit=60 if ctx.quick else 1500, rng=rng)
        traces += tr
        scheds += sc
        labels += [('3 threads random', start)] * len(tr)
    # two opens next to a call with unusable arguments (it raises inside _open): whatever that call does to the counter on its way out,
    # the ids of the others stay unique
    for start in (0, 5, M32 - 2):
        tr, sc = dfs_real(ctx, ['A', 'B', 'E'], start, limit=80 if ctx.quick else 2000, rng=rng)
        traces += tr
        scheds += sc
        labels += [('2 threads opening + 1 call with unusable timeouts, random', start)] * len(tr)
        tr, sc = dfs_real(ctx, ['A', 'E', 'B', 'C'], start, limit=40 if ctx.quick else 1000, rng=rng)
        traces += tr
        scheds += sc
        labels += [('3 threads opening + 1 call with unusable timeouts, random', start)] * len(tr)
    # two opens and a reconnect of the same object by a third thread, every line-level schedule
    for start, wc in ((0, False), (M32 - 2, False), (5, True)):
        tr, sc = dfs_real(ctx, ['A', 'B', 'W'], start, w_closes=wc)
        traces += tr
        scheds += sc
        labels += [('2 threads opening + 1 thread %s, exhaustive' % ('closing and reconnecting' if wc else 'reconnecting'), start)] * len(tr)
    # opens called with a transport timeout of 0 / a negative one (nothing may wait - but ids still are unique)
    for tt_ in (0, -1):
        tr, sc = dfs_real(ctx, ['A', 'B'], 0, tt=tt_)
        traces += tr
        scheds += sc
        labels += [('2 threads, transport_timeout_s=%r, exhaustive' % tt_, 0)] * len(tr)
    # bytecode-level preemption (one preemption, every instruction of _open)
    for start in (0, M32 - 1):
        tr, sc = opcode_preemptions(ctx, start)
        traces += tr
        scheds += sc
        labels += [('bytecode-level, one preemption', start)] * len(tr)
        ctx.extra.setdefault('bytecode_preemption_points', {})[str(start)] = len(tr)
    # the same with threads the `threading` module does not know (started through _thread, as C extensions and GUI toolkits do)
    for start in (0, M32 - 1):
        tr, sc = dfs_real(ctx, ['A', 'B'], start, raw=True)
        traces += tr
        scheds += sc
        labels += [('2 threads unknown to the threading module, exhaustive', start)] * len(tr)
    ver, r = tlc.validate_traces('TraceEnv', traces)
    ctx.add_tlc(r, 'TraceEnv over %d line-level schedules of _open' % len(traces))
    okn = 0
    for (i, l, v) in ver:
        raised = [e for e in traces[i] if e['ev'] == 'open_raised' and not (e.get('t') == 'E' and e.get('cls') == 'TypeError')]      # (thread E's own mistake raises, as it must)
        if raised and v == 'ok':
            # the allocated id could not even be put on the wire (e.g. 2^32 does not fit the header)
            ctx.violation('C14.IdRange', dict(kind='line-schedule', what=labels[i][0], counter_start=labels[i][1], schedule=scheds[i], raised=raised))
        elif v == 'ok':
            okn += 1
        elif v.startswith('ENV.'):
            raise tlc.TlcError(v)
        else:
            ctx.violation(v, dict(kind='line-schedule', what=labels[i][0], counter_start=labels[i][1], schedule=scheds[i],
                                  opens=[wire.unlimbs(e['a0']) for e in traces[i] if e['ev'] == 'tx']))
    ctx.count(traces=okn, evaluations=len(traces))
    ctx.extra['line_level_schedules'] = len(traces)
    ctx.sample(dict(kind='line-schedule', schedule=scheds[0], opens=[wire.unlimbs(e['a0']) for e in traces[0] if e['ev'] == 'tx']))
    # asyncio twin and whole operations: concurrent shells near the wrap, judged by the same monitor
    for mode in ('sync', 'async'):
        prog, rep = {'t1': ['shell'], 't2': ['shell'], 't3': ['shell']}, {'t1': [[]], 't2': [[]], 't3': [[]]}
        res = []
        for k in range(20 if ctx.quick else 300):
            res += tour.explore(mode, prog, rep, 1, random.Random(ctx.seed * 1000 + k), lid0=rng.choice([M32 - 3, M32 - 2, M32 - 1, 0]))
        v2, r2 = tlc.validate_traces('TraceEnv', [t for t, _ in res])
        ctx.add_tlc(r2, 'TraceEnv over %d concurrent %s sessions near the wrap' % (len(res), mode))
        for (i, l, v) in v2:
            if v.startswith('C14.'):
                ctx.violation(v, dict(kind='schedule', mode=mode, schedule=res[i][1]['schedule']))
            elif v in ('ok', 'C06.Stuck.K1'):
                ctx.count(traces=1)
    # a failed OPEN overlapped by another thread's open: one thread's first write fails ("nothing was sent") while the other
    # already holds its id; the first thread then opens twice more while the other stream may still be live
    for mode in ('sync', 'async'):
        prog, rep = {'t1': ['shell'], 't2': ['shell']}, {'t1': [[1]], 't2': [[1, 2]]}
        res = []
        for k in range(60 if ctx.quick else 1500):
            res += tour.explore(mode, prog, rep, 1, random.Random(ctx.seed * 977 + k), write_yield=True, reps={'t1': 3, 't2': 1},
                                write_fault=('t1', 1))     # the header of t1's first OPEN is not sent at all: the byte stream stays well-framed
        v2, r2 = tlc.validate_traces('TraceEnv', [t for t, _ in res])
        ctx.add_tlc(r2, 'TraceEnv over %d %s schedules with a failed write overlapped by another open' % (len(res), mode))
        for (i, l, v) in v2:
            if v.startswith('C14.'):
                ctx.violation(v, dict(kind='schedule-with-write-fault', mode=mode, schedule=res[i][1]['schedule'], opens=[wire.unlimbs(e['a0']) for e in res[i][0] if e['ev'] == 'tx' and e['cmd'] == 'OPEN']))
            else:
                ctx.count(traces=1)
                ctx.extra.setdefault('verdicts_of_write_fault_schedules', {}).setdefault(v, 0)
                ctx.extra['verdicts_of_write_fault_schedules'][v] += 1
    # an OPEN the device refuses, overlapped by other threads' opens; the refused thread and a third one open again while the second
    # one's stream may still be live: whatever the refusal does to the counter, no id of a live stream is handed out again
    for mode in ('sync', 'async'):
        prog, rep = {'t1': tour.REFUSED, 't2': ['shell'], 't3': ['shell']}, {'t1': [[]], 't2': [[1, 2]], 't3': [[1]]}
        res = []
        for k in range(60 if ctx.quick else 1500):
            res += tour.explore(mode, prog, rep, 1, random.Random(ctx.seed * 733 + k), reps={'t1': 2, 't2': 1, 't3': 2})
        v2, r2 = tlc.validate_traces('TraceEnv', [t for t, _ in res])
        ctx.add_tlc(r2, 'TraceEnv over %d %s schedules with a refused OPEN overlapped by other opens' % (len(res), mode))
        for (i, l, v) in v2:
            if v.startswith('C14.') or v == 'C04.FreshId':
                ctx.violation(v if v.startswith('C14.') else 'C14.UniqueLiveIds', dict(kind='schedule-with-refused-open', mode=mode, clause=v, schedule=res[i][1]['schedule'],
                                                                                      opens=[wire.unlimbs(e['a0']) for e in res[i][0] if e['ev'] == 'tx' and e['cmd'] == 'OPEN']))
            else:
                ctx.count(traces=1)
                ctx.extra.setdefault('verdicts_of_refused_open_schedules', {}).setdefault(v, 0)
                ctx.extra['verdicts_of_refused_open_schedules'][v] += 1
    # an OPEN that did reach the device although its write reported a failure: the next commands must not reuse its id
    from . import c01 as c01_
    from .. import scen as scen_
    t4, s4 = c01_.arrived_but_failed_traces(ctx, ['sync', 'async'])
    v4, r4 = tlc.validate_traces('TraceEnv', t4)
    ctx.add_tlc(r4, 'TraceEnv over %d sessions in which a write that did arrive reports a timeout' % len(t4))
    for (i, l, v) in v4:
        if v.startswith('C14.') or v in ('C04.FreshId', 'C01.NoCrossTalk', 'C01.ExactConcatenation'):
            ctx.violation(v if v.startswith('C14.') else 'C14.UniqueLiveIds(' + v + ')', dict(kind='session', mode=s4[i][0], spec=s4[i][1], write_reported_failed=s4[i][2], failing_event=l - 1))
        else:
            ctx.count(traces=1)
    # a stream that stays open (a generator the caller keeps) while every other public operation runs, then more opens
    fam = []
    for k_, mid in enumerate([dict(api='root'), dict(api='reboot'), dict(api='stat', path='/s', st=[1, 2, 3]), dict(api='list', path='/d', entries=[]), dict(api='pull', path='/p', size=10, dest='bytesio'),
                              dict(api='push', path='/q', size=10, src='bytesio', mtime=3), dict(api='shell', decode=False, cmd='x', chunks=[b'x'.hex()], refuse=True, read_timeout_s=1.0),
                              dict(api='reconnect', close_first=False), dict(api='reconnect', close_first=True)]):
        ops = [dict(api='streaming_shell', decode=False, cmd='keep', chunks=[b'k1'.hex(), b'k2'.hex(), b'k3'.hex()], take=1, hold='keep'), dict(mid),
               dict(api='shell', decode=False, cmd='a', chunks=[b'A'.hex()]), dict(api='exec_out', decode=False, cmd='b', chunks=[b'B'.hex()])]
        if mid['api'] != 'reconnect':
            ops.append(dict(api='resume', gen='keep'))
        fam.append(dict(seed=ctx.seed + 40 + k_, maxdata=4096, rid=('plus', 'same', 'mirror')[k_ % 3], frag='whole', ops=ops))
    t5 = []
    for sp in fam:
        for mode in ('sync', 'async'):
            t5.append((mode, sp, scen_.project_events(scen_.run(sp, mode, stall='raise'), sp)))
    v5, r5 = tlc.validate_traces('TraceEnv', [t for _, _, t in t5])
    ctx.add_tlc(r5, 'TraceEnv over %d sessions: a kept stream, another public operation, more opens' % len(t5))
    for (i, l, v) in v5:
        if v.startswith('C14.'):
            ctx.violation(v, dict(kind='session', mode=t5[i][0], spec=t5[i][1], failing_event=l - 1))
        else:
            ctx.count(traces=1)
    # ids after failed opens: an operation that times out must not make a later one reuse a live id
    from . import c01
    from .. import scen
    t3, s3 = c01.late_reply_traces(ctx, rng, 40 if ctx.quick else 600, ['sync', 'async'])
    v3, r3 = tlc.validate_traces('TraceEnv', t3)
    ctx.add_tlc(r3, 'TraceEnv over %d sessions with a timed-out operation and late replies' % len(t3))
    for (i, l, v) in v3:
        if v.startswith('C14.'):
            ctx.violation(v, dict(kind='session', mode=s3[i][0], spec=s3[i][1], failing_event=l - 1))
        else:
            ctx.count(traces=1)
    ctx.assumptions += ['fewer than 2^32-1 allocations during the life of any one stream', 'line-level (not bytecode-level) preemption inside the block']


if __name__ == '__main__':
    main('C14', 'model_checking', body)
