"""C07 - push delivers the exact file bytes, within protocol size limits.

1. TLC explores the design spec AdbPush (send-buffer arithmetic as built) for every configuration of the scaled
   instance (header 2, chunk limit 4, maxdata 6..12, sizes 0..10, path records 1..3): Exact, DataLimit,
   WriteLimit, NoEmptyWrite, Grammar.
2. spec->code: the same module with the real constants (header 8, 64 KiB, legacy 2 KiB) is evaluated by TLC into
   a table (maxdata x size x path-record length -> WRITE payload sizes and record sequence); every row is
   replayed as a real push on AdbDevice and AdbDeviceAsync and compared (design conformance).
3. code->spec: every push (table rows, random sizes/maxdata/modes/mtimes/paths, path / BytesIO / directory sources
   from inside and outside the directory, callbacks none / ok / raising) is one trace of device-side decoded
   sync records judged by SyncMon in TraceSync (Grammar, SendSpec, Exact, DataLimit, DoneTime, ReturnsAfterOkay,
   CallbackSum, CallbackInert, DirRule) and by TraceEnv (WRITE payload <= maxdata: C04.Maxdata).
"""
import os
import random
import shutil

from .. import scen, tlc, wire
from ..framework import main


def design(ctx):
    wd = tlc.workdir('push')
    try:
        cfgs = '{c \\in {[md |-> m, n |-> n, pl |-> p] : m \\in 6..12, n \\in 0..10, p \\in 1..3} : c.md > 2 + c.pl}'
        with open(os.path.join(wd, 'MCPush.tla'), 'w') as f:
            f.write(tlc.mc_module('MCPush', 'AdbPush', dict(MC_Configs=tlc.Raw(cfgs))))
        cfg = tlc.cfg_text(constants={'HS': '2', 'MAXCHUNK': '4', 'LEGACY': '2', 'Configs': '<- MC_Configs'},
                           invariants=['DataLimit', 'WriteLimit', 'NoEmptyWrite', 'Exact', 'Grammar'], deadlock=True)
        r = tlc.run('MCPush', cfg, wd=wd, module_dir=wd, coverage=True)
    finally:
        shutil.rmtree(wd, ignore_errors=True)
    ctx.add_tlc(r, 'AdbPush scaled instance, all configurations')
    if r.violations:
        ctx.violation('C07.' + r.violations[0]['name'] + '(design)', dict(kind='design-counterexample', state=r.violations[0]['trace'][-1][:800]))


def table(ctx, rows):
    wd = tlc.workdir('pusht')
    try:
        cfgs = '{' + ', '.join('[md |-> %d, n |-> %d, pl |-> %d]' % r for r in rows) + '}'
        with open(os.path.join(wd, 'MCPushT.tla'), 'w') as f:
            f.write(tlc.mc_module('MCPushT', 'AdbPush', dict(MC_Configs=tlc.Raw(cfgs))))
        cfg = tlc.cfg_text(constants={'HS': '8', 'MAXCHUNK': '65536', 'LEGACY': '2048', 'Configs': '<- MC_Configs'},
                           invariants=['DataLimit', 'WriteLimit', 'NoEmptyWrite', 'Exact', 'Grammar', 'Row'], deadlock=True)
        r = tlc.run('MCPushT', cfg, wd=wd, module_dir=wd, workers=4)
    finally:
        shutil.rmtree(wd, ignore_errors=True)
    ctx.add_tlc(r, 'AdbPush real constants, %d table rows' % len(rows))
    if r.violations:
        ctx.violation('C07.' + r.violations[0]['name'] + '(design)', dict(kind='design-counterexample', state=r.violations[0]['trace'][-1][:800]))
        return {}
    out = {}
    for row in tlc.printed(r, 'ROW'):
        out[(row['md'], row['n'], row['pl'])] = row
    return out


def rows_for(quick):
    rows = set()
    for md in ([4096, 65536, 1024 * 1024, 5000] if quick else [4096, 4097, 5000, 9999, 65536, 131072, 262144, 1024 * 1024, 100000]):
        chunk = min(65536, md // 2)
        for n in [0, 1, chunk - 1, chunk, chunk + 1, md - 40, md - 24, md - 23, md - 9, md, md + 9, 2 * chunk + 1, 3 * md + 7]:
            for pl in ([15] if quick else [15, 9, 1030]):
                if n >= 0 and n <= 4 * 1024 * 1024:
                    rows.add((md, n, pl))
    # every alignment of the last records against the end of the send buffer (legacy maxdata, one path)
    for n in range(4096 - 80, 4096 + 12, 1 if not quick else 1):
        rows.add((4096, n, 15))
    return sorted(rows)


def spec_for(md, n, pl, seed, **kw):
    path = '/' + 'p' * (pl - 7)          # '<path>,33272' has pl characters
    op = dict(api='push', size=n, src='bytesio', path=path, st_mode=33272, mtime=1234567)
    op.update(kw)
    return dict(seed=seed, maxdata=md, rid='plus', frag='whole', ops=[op])


def run_all(ctx, specs, labels, inert_pairs=True):
    """Run specs in both modes, build TraceSync + TraceEnv traces; returns list of (mode, spec, rr)."""
    out = []
    tsync, tenv, meta = [], [], []
    for k, spec in enumerate(specs):
        for mode in ('sync', 'async'):
            rr = scen.run(spec, mode)
            inert = {}
            for i, op in enumerate(spec['ops']):
                if op.get('cb') and inert_pairs:
                    s2 = dict(spec, ops=[dict(o, cb=None) for o in spec['ops']])
                    rr2 = scen.run(s2, mode)
                    def own_frames(r_):
                        # the frames of the push's own stream (a callback may legitimately run other operations on other streams)
                        lid_ = next((e['a0'] for e in r_.events if e['ev'] == 'tx' and e['cmd'] == 'OPEN' and e['_raw'][24:] == b'sync:\0'), None)
                        return [e['_raw'] for e in r_.events if e['ev'] == 'tx' and (e['a0'] == lid_ or not str(op.get('cb')).startswith('reenter'))]
                    tx1 = own_frames(rr)
                    tx2 = own_frames(rr2)
                    same_out = [o.key()[0] for o in rr.outcomes] == [o.key()[0] for o in rr2.outcomes]
                    inert[i] = (tx1 == tx2 and same_out)
            for (i, t) in scen.sync_traces(rr, spec, inert=inert, only=('push',)):
                tsync.append(t)
                meta.append((mode, spec, labels[k]))
            tenv.append(scen.project_events(rr, spec))
            out.append((mode, spec, rr))
    ver, r = tlc.validate_traces('TraceSync', tsync)
    ctx.add_tlc(r, 'TraceSync over %d pushes' % len(tsync))
    okn = 0
    for (i, l, v) in ver:
        if v == 'ok':
            okn += 1
            continue
        mode, spec, label = meta[i]
        op = spec['ops'][0]
        finding = None
        if v == 'C07.DirRule' and op.get('src') == 'dir' and op.get('cwd') != 'inside':
            finding = 'F2'
        if v == 'C07.CallbackInert' and op.get('src') == 'bytesio' and op.get('cb'):
            finding = 'F4'
        ctx.violation(v, dict(kind='push', mode=mode, label=label, spec=spec, failing_event=l - 1, events=tsync[i][max(0, l - 4):l]), finding=finding)
    ctx.count(traces=okn, evaluations=len(tsync))
    ver2, r2 = tlc.validate_traces('TraceEnv', tenv)
    ctx.add_tlc(r2, 'TraceEnv (WRITE payload <= maxdata, protocol) over %d sessions' % len(tenv))
    for (i, l, v) in ver2:
        if v.startswith('C04.Maxdata'):
            ctx.violation('C07.WriteLimit', dict(kind='push', mode=out[i][0], spec=out[i][1], failing_event=l - 1, event=tenv[i][l - 2]))
    return out


def body(ctx):
    rng = random.Random(ctx.seed)
    design(ctx)
    if ctx.violations:
        return
    rows = rows_for(ctx.quick)
    tab = table(ctx, rows)
    specs = [spec_for(md, n, pl, ctx.seed + k) for k, (md, n, pl) in enumerate(rows)]
    res = run_all(ctx, specs, ['table'] * len(specs))
    # design conformance: WRITE sizes and record sequence as TLC computed them
    mism = 0
    for (mode, spec, rr), key in zip(res, [r for r in rows for _ in (0, 1)]):
        row = tab.get(key)
        if row is None:
            continue
        wr = [e['len'] for e in rr.events if e['ev'] == 'tx' and e['cmd'] == 'WRTE']
        st = [s for s in rr.dev.all_streams if s.dest.rstrip(b'\0') == b'sync:']
        recs = [[r['id'], len(r['data']) if r['id'] != 'DONE' else 0] for r in st[0].service.records] if st else []
        if wr != row['wr'] or recs != [list(x) for x in row['recs']]:
            mism += 1
            if mism <= 2:
                ctx.design_drift('push md=%d n=%d pl=%d %s: WRITE sizes %s (model %s)' % (key + (mode, wr[:6], row['wr'][:6])))
    ctx.extra['design_conformance'] = dict(table_rows=len(rows), replays=len(res), mismatches=mism)
    ctx.sample(dict(kind='table-row', md=rows[5][0], n=rows[5][1], pl=rows[5][2], wr=tab.get(rows[5], {}).get('wr'), nrecs=len(tab.get(rows[5], {}).get('recs', []))))
    if ctx.violations:
        return
    # sources, callbacks, directories, random parameters
    specs, labels = [], []
    k = 0
    for src in ('bytesio', 'path'):
        for cb in (None, 'ok', 'raise'):
            for n in (0, 1, 5000, 70000):
                k += 1
                specs.append(dict(seed=ctx.seed + 100 + k, maxdata=rng.choice([4096, 65536, 262144]), rid='random', frag='whole',
                                  ops=[dict(api='push', size=n, src=src, path='/sdcard/f%d' % k, st_mode=rng.choice([33272, 0o100644, 0xFFFFFFFF]),
                                            mtime=rng.choice([0, 1, 0xFFFFFFFF]), cb=cb)]))
                labels.append('source=%s cb=%s' % (src, cb))
                if src == 'bytesio' and n:
                    # the same stream after the caller has read a header from it / handing out short reads: what is sent is what is left, with or without a callback
                    k += 1
                    specs.append(dict(seed=ctx.seed + 100 + k, maxdata=65536, rid='random', frag='whole',
                                      ops=[dict(api='push', size=n, src=src, path='/sdcard/g%d' % k, mtime=5, cb=cb, src_offset=(3, 4096)[k % 2], src_short=(None, 1000)[(k // 2) % 2])]))
                    labels.append('source=pre-read %s cb=%s' % (src, cb))
    # a source whose st_size says nothing about how much will come out of it (a named pipe), with and without a callback
    for cb in (None, 'ok', 'raise'):
        for n in (1, 70000, 200000):
            k += 1
            specs.append(dict(seed=ctx.seed + 100 + k, maxdata=rng.choice([4096, 262144]), rid='random', frag='whole',
                              ops=[dict(api='push', size=n, src='fifo', path='/sdcard/pipe%d' % k, mtime=5, cb=cb)]))
            labels.append('source=named pipe cb=%s' % cb)
    # a callback that runs another operation on the same device (a shell command, a stat, a pull) from inside the push
    for cb in ('reenter', 'reenter_stat', 'reenter_pull'):
        for n in (1, 5000, 200000):
            k += 1
            specs.append(dict(seed=ctx.seed + 100 + k, maxdata=rng.choice([4096, 262144]), rid='random', frag='whole',
                              ops=[dict(api='push', size=n, src='bytesio', path='/sdcard/re%d' % k, mtime=5, cb=cb), dict(api='shell', decode=False, cmd='after', chunks=[b'ok'.hex()])]))
            labels.append('callback=%s' % cb)
    # a directory that holds a sub-directory next to its files (push is not recursive: it may refuse, but what it does send is right)
    for names in ([('a.txt', 10), ('m/', 0), ('z.bin', 500)], [('0dir/', 0), ('b', 10), ('c', 20)], [('a', 5), ('b', 6), ('zz/', 0)]):
        k += 1
        specs.append(dict(seed=ctx.seed + 200 + k, maxdata=4096, rid='plus', frag='whole', ops=[dict(api='push', src='dir', files=names, cwd='elsewhere', path='/sdcard/sub%d' % k, mtime=9)]))
        labels.append('directory with a sub-directory')
    # mtime 0 ("now") for every file of a directory while the clock runs during the call
    for tick in (0.3, 2.0):
        k += 1
        specs.append(dict(seed=ctx.seed + 200 + k, maxdata=4096, rid='plus', frag='whole', tick=tick,
                          ops=[dict(api='push', src='dir', files=[('a.txt', 3000), ('b.bin', 9000), ('c', 12000)], cwd='elsewhere', path='/sdcard/now%d' % k, mtime=0)]))
        labels.append('directory, mtime=0, ticking clock')
    for cwd in ('inside', 'elsewhere', 'decoy'):
        for files in ([('a.txt', 10)], [('a.txt', 0), ('b.bin', 5000), ('c', 70000)], []):
            k += 1
            specs.append(dict(seed=ctx.seed + 200 + k, maxdata=4096, rid='plus', frag='whole',
                              ops=[dict(api='push', src='dir', files=files, cwd=cwd, path='/sdcard/dir%d' % k, mtime=77)]))
            labels.append('directory cwd=%s' % cwd)
    # the same object connected first to a 1 MiB peer, then to a legacy 4 KiB peer (and the other way round)
    for (md1, md2) in ((1024 * 1024, 4096), (4096, 1024 * 1024), (65536, 4097)):
        for close_first in (True, False):
            k += 1
            specs.append(dict(seed=ctx.seed + 400 + k, maxdata=md1, rid='plus', frag='whole',
                              ops=[dict(api='push', size=200000, src='bytesio', path='/a', mtime=3), dict(api='reconnect', maxdata=md2, close_first=close_first),
                                   dict(api='push', size=150000, src='bytesio', path='/b', mtime=4)]))
            labels.append('reconnect %d -> %d (close first: %s)' % (md1, md2, close_first))
    for path in ('/sdcard/caf\xe9.txt', '/\u20ac/\u00fc' + 'x' * 50, '/sdcard/\U0001F600', '/sdcard/Cafe\u0301.txt'):
        for src in ('bytesio', 'dir'):
            k += 1
            op = dict(api='push', size=5000, src='bytesio', path=path, mtime=9) if src == 'bytesio' else dict(api='push', src='dir', files=[('caf\xe9.bin', 300), ('plain', 10)], cwd='elsewhere', path=path, mtime=9)
            specs.append(dict(seed=ctx.seed + 500 + k, maxdata=4096, rid='plus', frag='whole', ops=[op]))
            labels.append('non-ASCII device path')
    for src in ('bytesio', 'path'):
        k += 1
        specs.append(dict(seed=ctx.seed + 600 + k, maxdata=4096, rid='plus', frag='whole', ops=[dict(api='push', size=7000, src=src, path='/cbb', mtime=9, cb='raise_base')]))
        labels.append('callback raising a BaseException')
    for j in range(20 if ctx.quick else 400):
        md = rng.choice([4096, 65536, 262144, 1024 * 1024, rng.randint(4096, 1024 * 1024)])
        chunk = min(65536, md // 2)
        n = rng.choice([0, 1, chunk - 1, chunk, chunk + 1, md - 9, md, md + 9, rng.randint(0, 300000)] + ([rng.randint(1000000, 3500000)] if j % 10 == 0 else []))
        specs.append(dict(seed=ctx.seed + 300 + j, maxdata=md, rid='random', frag=rng.choice(['whole', 'random']),
                          ops=[dict(api='push', size=n, src=rng.choice(['bytesio', 'path']), path='/' + 'x' * rng.randint(1, 1000), st_mode=rng.randrange(2 ** 32),
                                    mtime=rng.choice([0, rng.randrange(1, 2 ** 32)]), cb=rng.choice([None, None, 'ok', 'raise']), local_as=rng.choice(['str', 'pathlib']),
                                    src_short=rng.choice([None, None, 1 if n < 5000 else 4096, 1000, 70000]),      # a source whose read(n) returns fewer than n bytes before the end
                                    src_offset=rng.choice([0, 0, 0, 3, 4096]))]))                                   # a BytesIO the caller has already read a header from
        labels.append('random')
    run_all(ctx, specs, labels)
    ctx.assumptions += ['maxdata >= 4 KiB and path records <= 1 KiB + mode (the degenerate region maxdata <= 8 + len(path,mode) is outside the property)',
                        'a sub-directory inside a pushed directory is outside the property and is not created by the scenarios on the device side',
                        'file content is a position-dependent pattern, DATA ranges are named by comparison with the source']


if __name__ == '__main__':
    main('C07', 'model_checking', body)
