"""C17 - key material is what adbd expects: signatures verify, the public key blob is correct.

What TLA+ contributes here is the protocol context: the handshakes of this check run against a simulated adbd that
verifies each signature with pure-integer RSA against the token it last issued and, after a public-key offer,
authorises exactly the key it decoded from the offered blob; every handshake is validated by TLC against TraceAuth
(AuthMon), where a signature that does not verify is no host action of the spec.  The numeric content (EMSA-PKCS1-v1_5
over the token as a SHA-1 digest, the 524-byte Android RSAPublicKey with n0inv and rr, the ' user@host' comment) is
decided by harness/rsaproj.py, independent arithmetic, not by TLC: level "other".
Scenario per generated key and signer class: session 1 (unknown key: all signatures rejected, public key offered and
accepted), session 2 on the same device (the offered key must now authenticate by signature, no prompt); tokens
random / all-zero / all-0xFF; keys loaded from the files written by keygen; signatures of the three signer classes
compared with each other.
"""
import os
import random
import shutil
import tempfile

from .. import env, rsaproj, simdev, tlc, wire
from ..framework import main, load_findings


def signers(path):
    from adb_shell.auth.sign_pythonrsa import PythonRSASigner
    from adb_shell.auth.sign_cryptography import CryptographySigner
    from adb_shell.auth.sign_pycryptodome import PycryptodomeAuthSigner
    return [('PythonRSASigner', lambda: PythonRSASigner.FromRSAKeyPath(path)), ('CryptographySigner', lambda: CryptographySigner(path)),
            ('PycryptodomeAuthSigner', lambda: PycryptodomeAuthSigner(path))]


def shared_signer_threads(ctx, path, n, e, rng):
    """One signer object used by two threads with different tokens, every line-level interleaving of Sign() (and what it calls
    inside adb_shell.auth): each thread must get the signature of its own token."""
    import sys
    import threading
    from .. import sched
    for (name, make) in signers(path):
        signer = make()
        toks = {'A': bytes([1]) * 20, 'B': bytes([2]) * 20}
        mod_prefix = os.path.join(env.REPO, 'adb_shell', 'auth')

        def run(schedule):
            s = sched.ThreadSched()
            res = {}

            def tracer(frame, event, arg):
                if frame.f_code.co_filename.startswith(mod_prefix):
                    def local(fr, ev, a):
                        if ev == 'line':
                            s.boundary('line', lambda: True)
                        return local
                    return local
                return None
            for nm in ('A', 'B'):
                def body(nm=nm):
                    sys.settrace(tracer)
                    try:
                        res[nm] = bytes(signer.Sign(toks[nm]))
                    finally:
                        sys.settrace(None)
                s.spawn(nm, body)
            fan, i = [], 0
            while True:
                en = [k for k, r in s.th.items() if not r.done and r.runnable()]
                if not en:
                    break
                c = min(schedule[i], len(en) - 1) if i < len(schedule) else 0
                fan.append(len(en))
                s.step(en[c])
                i += 1
            s.kill()
            return res, fan
        stack, n_sched = [[]], 0
        while stack and n_sched < (200 if ctx.quick else 3000):
            pre = stack.pop()
            res, fan = run(pre)
            n_sched += 1
            for nm in ('A', 'B'):
                if rsaproj.recover_token(res.get(nm, b''), n, e) != toks[nm]:
                    ctx.violation('C17.SignerSound', dict(kind='one signer shared by two threads', signer=name, thread=nm, schedule=pre))
                    stack = []
                    break
            for i in range(len(pre), len(fan)):
                for c in range(1, fan[i]):
                    stack.append((pre + [0] * (i - len(pre)))[:i] + [c])
        ctx.count(evaluations=n_sched)
        ctx.extra.setdefault('shared_signer_schedules', {})[name] = n_sched


def handshake(mode, dev, signer, tokens, seed):
    """One connect(); returns the TraceAuth trace and the outcome."""
    sess = env.Session(mode, dev, log_io=True, banner=b'verif-host')
    first = len(dev.rec.events)
    dev.auth.tokens = tokens
    o = sess.call('connect', rsa_keys=[signer], auth_timeout_s=7.0, read_timeout_s=3.0, transport_timeout_s=2.0)
    issued = dev.auth.issued
    tr = []
    pub_seen = waited = False
    n, e = dev.known_key
    for ev in dev.rec.events[first:]:
        k = ev['ev']
        if k == 'call':
            tr.append(dict(ev='call', api='connect', nkeys=1, cb=False, auth_timeout=7000))
        elif k == 'tx':
            pl = ev['_payload']
            if ev['cmd'] == 'CNXN':
                tr.append(dict(ev='atx', kind='CNXN', fields=(wire.unlimbs(ev['a0']) == 0x01000000 and wire.unlimbs(ev['a1']) == 1024 * 1024 and pl == b'host::verif-host\0')))
            elif ev['cmd'] == 'AUTH' and wire.unlimbs(ev['a0']) == 2:
                tok = rsaproj.recover_token(pl, n, e)
                tid = (len(issued) - issued[::-1].index(tok)) if tok in issued else 0
                tr.append(dict(ev='atx', kind='SIG', key=1 if tok is not None else 0, tok=tid))
            elif ev['cmd'] == 'AUTH' and wire.unlimbs(ev['a0']) == 3:
                d = rsaproj.decode_blob(pl)
                good = d['ok'] and d['n'] == n and d['e'] == e
                tr.append(dict(ev='atx', kind='PUB', key=1 if good else 0, nul=pl.endswith(b'\0') and not pl.endswith(b'\0\0'), why=d.get('why', '')))
                pub_seen = True
            else:
                tr.append(dict(ev='atx', kind='OTHER'))
        elif k == 'rd':
            pl = ev['_payload']
            tr.append(dict(ev='rd', cmd=ev['cmd'], a0=ev['a0'], a1=ev['a1'], tok=(len(issued) - issued[::-1].index(pl)) if pl in issued else 0))
        elif k in ('br', 'stall') and pub_seen and not waited:
            waited = True
            tr.append(dict(ev='authwait', timeout=ev['timeout_ms']))
        elif k == 'ret':
            tr.append(dict(ev='ret', api='connect', value=o.value is True, avail=bool(sess.device.available), chunk=int(sess.device.max_chunk_size)))
        elif k == 'exc':
            tr.append(dict(ev='exc', api='connect', cls=ev['cls'], avail=bool(sess.device.available)))
    sess.close_loop()
    return tr, o


def body(ctx):
    rng = random.Random(ctx.seed)
    f3 = any(f.status == 'open' and f.fid == 'F3' for f in load_findings())
    from adb_shell.auth import keygen
    tmp = tempfile.mkdtemp(prefix='c17-', dir=tlc.WORK if os.path.isdir(tlc.WORK) else None)
    traces, meta = [], []
    nkeys = 2 if ctx.quick else 20
    try:
        import json as _json
        boundary = sorted(_json.load(open(os.path.join(os.path.dirname(os.path.dirname(os.path.abspath(__file__))), 'data', 'boundary_keys.json'))).items())
        ctx.extra['boundary_keys'] = {k: dict(rr_bits=v['rr_bits'], n0inv=hex(v['n0inv']), e=v.get('e', 65537)) for k, v in boundary}
        for ki in range(nkeys + len(boundary)):
            path = os.path.join(tmp, ('key%d', 'adbkey%d.tv', 'my.key%d.pem')[ki % 3] % ki)      # key file names with dots in them: the public key is always <name>.pub
            if ki < nkeys:
                if ki % 2:
                    # the key path itself is a symbolic link into a key store: both files are still <path> and <path>.pub for whoever uses <path>
                    store = os.path.join(tmp, 'store%d' % ki)
                    os.makedirs(store, exist_ok=True)
                    os.symlink(os.path.join(store, 'host-key'), path)
                keygen.keygen(path)
            else:
                # a stored key whose Montgomery parameters have a leading zero byte (rr = 2^4096 mod n below 2^2040, about one key in 256;
                # n0inv below 2^24): the library derives the public key file and blob from the private key
                with open(path, 'w') as f_:
                    f_.write(boundary[ki - nkeys][1]['pem'])
                keygen.write_public_keyfile(path, path + '.pub')
            n, e = rsaproj.public_numbers_of_pem(path)
            # the public key file written by keygen
            if not os.path.exists(path + '.pub'):
                # keygen(<name>) documents <name>.pub, and that is where the signer classes look for it
                ctx.violation('C17.PubFileSound', dict(kind='keygen', key=ki, file=os.path.basename(path), why='no public key file at <name>.pub', directory=sorted(os.listdir(tmp))))
                continue
            pub = open(path + '.pub', 'rb').read()
            d = rsaproj.decode_blob(pub)
            ctx.count(evaluations=1)
            if not (d['ok'] and d['n'] == n and d['e'] == e):
                ctx.violation('C17.PubFileSound', dict(kind='keygen', key=ki, why=d.get('why') or 'modulus/exponent differ from the private key'))
            sigs = {}
            cmp_token = bytes(rng.randrange(256) for _ in range(20))
            for (name, make) in signers(path):
                for mode in ('sync', 'async'):
                    for tk, token in enumerate([bytes(rng.randrange(256) for _ in range(20)), b'\x00' * 20, b'\xff' * 20]):
                        if mode == 'async' and tk:
                            continue
                        signer = make()
                        authorised = []

                        def accept_sig(i, sig, tok, authorised=authorised):
                            return any(rsaproj.recover_token(sig, kn, ke) == tok for (kn, ke) in authorised)
                        dev = simdev.SimDevice(seed=ctx.seed + ki)
                        dev.known_key = (n, e)
                        dev.auth = simdev.AuthPolicy(mode='auth', maxdata=4096, accept_sig=accept_sig, pubkey='accept')
                        orig = dev.auth.on_auth

                        def on_auth(dv, h, orig=orig, authorised=authorised):
                            if h['a0'] == 3:
                                b = rsaproj.decode_blob(h['payload'])
                                if b.get('n'):
                                    authorised.append((b['n'], b['e']))     # adbd stores the key exactly as offered
                            return orig(dv, h)
                        dev.auth.on_auth = on_auth
                        t1, o1 = handshake(mode, dev, signer, [token, bytes(rng.randrange(256) for _ in range(20))], ctx.seed)
                        # session 2: fresh tokens; the key offered in session 1 must now be accepted by signature
                        t2, o2 = handshake(mode, dev, make(), [bytes(rng.randrange(256) for _ in range(20)), token], ctx.seed)
                        prompted = any(ev.get('kind') == 'PUB' for ev in t2)
                        traces.append(t1)
                        meta.append(dict(kind='session1', signer=name, mode=mode, key=ki, token=token.hex()))
                        traces.append(t2)
                        meta.append(dict(kind='session2', signer=name, mode=mode, key=ki, token=token.hex(), prompted=prompted, outcome=o2.kind))
                        if tk == 0 and mode == 'sync':
                            sigs[name] = bytes(signer.Sign(cmp_token))
                    if ctx.violations and len(ctx.violations) > 8:
                        break
            # boundary: a token whose signature has a leading zero byte (about 1 in 256) - the signature must still be 256 bytes
            n_, e_, d_ = rsaproj.private_numbers_of_pem(path)
            btok = None
            for t_ in range(3000):
                cand = rng.getrandbits(160).to_bytes(20, 'big')
                if rsaproj.reference_signature(cand, n_, d_)[0] == 0:
                    btok = cand
                    break
            if btok is not None:
                for (name, make) in signers(path):
                    sg = bytes(make().Sign(btok))
                    ctx.count(evaluations=1)
                    if rsaproj.recover_token(sg, n, e) != btok:
                        ctx.violation('C17.SignerSound', dict(kind='boundary token (signature with a leading zero byte)', signer=name, key=ki, token=btok.hex(), signature_length=len(sg)))
            # history on one signer object: whatever it was asked to sign before (a 16-byte nonce of a toy server, a garbled AUTH payload,
            # nothing at all), every later 20-byte token is signed as if it were the first
            for (name, make) in signers(path):
                for first in (b'notadb', bytes(16), b'', bytes(range(64)), bytes(21)):
                    sg_ = make()
                    try:
                        sg_.Sign(first)
                    except Exception:  # noqa  (a signer may refuse a digest of the wrong size)
                        pass
                    tk_ = rng.getrandbits(160).to_bytes(20, 'big')
                    ctx.count(evaluations=1)
                    try:
                        got_ = bytes(sg_.Sign(tk_))
                    except Exception as x:  # noqa
                        got_ = b''
                    if rsaproj.recover_token(got_, n, e) != tk_:
                        ctx.violation('C17.SignerSound', dict(kind='a 20-byte token signed after the signer was asked to sign something else', signer=name, key=ki,
                                                              first=first.hex(), token=tk_.hex(), signature_length=len(got_)),
                                      finding='F3' if (f3 and name == 'PycryptodomeAuthSigner') else None)
            # a signer object that came into being without its constructor, in an interpreter that has built no other signer: pickled
            # here, loaded and used in a fresh child interpreter (a worker process).  Signers that cannot be pickled are left out.
            import pickle
            import subprocess
            for (name, make) in signers(path):
                try:
                    blob = pickle.dumps(make())
                except Exception:  # noqa
                    if name not in ctx.extra.setdefault('signers_not_picklable', []):
                        ctx.extra['signers_not_picklable'].append(name)
                    continue
                tk_ = rng.getrandbits(160).to_bytes(20, 'big')
                code = ('import sys, pickle; sys.path.insert(0, %r); s = pickle.loads(bytes.fromhex(%r)); sys.stdout.write(bytes(s.Sign(bytes.fromhex(%r))).hex())' % (ctx.repo, blob.hex(), tk_.hex()))
                p_ = subprocess.run(['/venv/bin/python', '-c', code], stdout=subprocess.PIPE, stderr=subprocess.PIPE, timeout=120)
                ctx.count(evaluations=1)
                try:
                    got_ = bytes.fromhex(p_.stdout.decode().strip())
                except ValueError:
                    got_ = b''
                if rsaproj.recover_token(got_, n, e) != tk_:
                    ctx.violation('C17.SignerSound', dict(kind='a signer pickled into a fresh interpreter', signer=name, key=ki, token=tk_.hex(), signature_length=len(got_),
                                                          stderr=p_.stderr.decode('utf8', 'replace')[-300:]),
                                  finding='F3' if (f3 and name == 'PycryptodomeAuthSigner') else None)
            ctx.extra.setdefault('boundary_tokens_found', 0)
            ctx.extra['boundary_tokens_found'] += 1 if btok is not None else 0
            old_signers = {}
            for (name, make) in signers(path):
                try:
                    o_ = make()
                    o_.Sign(bytes(20))
                    old_signers[name] = o_
                except Exception:  # noqa
                    pass
            # key rotation: keygen again at the same path - the public key file must belong to the new private key
            keygen.keygen(path)
            n2, e2 = rsaproj.public_numbers_of_pem(path)
            d2 = rsaproj.decode_blob(open(path + '.pub', 'rb').read())
            ctx.count(evaluations=1)
            if not (d2['ok'] and d2['n'] == n2 and d2['e'] == e2):
                ctx.violation('C17.PubFileSound', dict(kind='keygen twice at the same path', key=ki, why=d2.get('why') or 'the .pub file does not belong to the regenerated private key'))
            # key rotation on a live object: a signer that has already signed gets the attributes of a signer for the new key (what code
            # does that swaps `rsa_key` / `public_key` or `priv_key` / `pub_key` in place): it then signs with the new key and offers it
            for (name, make) in signers(path):
                try:
                    import copy
                    old_ = old_signers.get(name)
                    if old_ is None:
                        continue
                    fresh = make()
                    for k_, v_ in list(vars(fresh).items()):
                        if not k_.startswith('_'):               # the documented attributes only
                            setattr(old_, k_, v_)
                    tk_ = rng.getrandbits(160).to_bytes(20, 'big')
                    got_ = bytes(old_.Sign(tk_))
                    pub_ = old_.GetPublicKey()
                except Exception as x:  # noqa
                    got_, pub_ = b'', repr(x)
                ctx.count(evaluations=1)
                d3 = rsaproj.decode_blob(pub_ if isinstance(pub_, (bytes, bytearray)) else str(pub_).encode('utf8', 'replace'))
                if rsaproj.recover_token(got_, n2, e2) != tk_ or not (d3['ok'] and d3['n'] == n2):
                    ctx.violation('C17.SignerSound', dict(kind='a signer whose key attributes were replaced after it had signed', signer=name, key=ki, signs_with_new_key=rsaproj.recover_token(got_, n2, e2) == tk_,
                                                          offers_new_key=bool(d3['ok'] and d3.get('n') == n2)),
                                  finding='F3' if (f3 and name == 'PycryptodomeAuthSigner') else None)
            if ki == 0:
                shared_signer_threads(ctx, path, n2, e2, rng)
            # interchangeable: PKCS#1 v1.5 is deterministic, so the three classes must produce the same bytes
            ref = sigs.get('PythonRSASigner')
            for name, sg in sigs.items():
                ctx.count(evaluations=1)
                if rsaproj.recover_token(sg, n, e) is None or (ref is not None and sg != ref and rsaproj.recover_token(ref, n, e) is not None):
                    ctx.violation('C17.Interchangeable', dict(kind='signature', signer=name, key=ki, verifies=rsaproj.recover_token(sg, n, e) is not None),
                                  finding='F3' if (f3 and name == 'PycryptodomeAuthSigner') else None)
    finally:
        shutil.rmtree(tmp, ignore_errors=True)
    ver, r = tlc.validate_traces('TraceAuth', traces)
    ctx.add_tlc(r, 'TraceAuth over %d handshakes with real signers' % len(traces))
    okn = 0
    for (i, l, v) in ver:
        m = meta[i]
        clause = None
        if v != 'ok':
            ev = traces[i][l - 2]
            if ev.get('kind') == 'SIG':
                clause = 'C17.SignerSound'
            elif ev.get('kind') == 'PUB':
                clause = 'C17.PubSound'
            else:
                clause = 'C17.Protocol(' + v + ')'
        elif m['kind'] == 'session2' and (m['prompted'] or m['outcome'] != 'ret'):
            clause = 'C17.OfferedKeyAuthorises'
        if clause:
            ctx.violation(clause, dict(m, failing_event=l - 1, events=traces[i][max(0, l - 3):l]), finding='F3' if (f3 and m['signer'] == 'PycryptodomeAuthSigner') else None)
        else:
            okn += 1
    ctx.count(traces=okn, evaluations=len(traces), distinct=len(traces))
    ctx.cov['explanation'] = ('%d freshly generated 2048-bit keys x 3 signer classes x tokens {random, 0x00*20, 0xff*20} x two sessions: %d handshakes validated by TLC against TraceAuth '
                              'with signatures/blobs named by independent integer arithmetic (sig^e mod n = EMSA-PKCS1-v1_5(SHA-1 DigestInfo || token); 524-byte blob with n*n0inv = -1 mod 2^32, '
                              'rr = 2^4096 mod n); public key files of keygen decoded; signatures of the three classes compared byte for byte') % (nkeys, len(traces))
    ctx.sample(dict(meta[0], events=traces[0]))
    ctx.assumptions += ['cryptography is trusted to read the public numbers of the PEM private key; everything else is integer arithmetic in harness/rsaproj.py',
                        'TLA+ decides the protocol context only; 2048-bit arithmetic is outside what TLC explores']


if __name__ == '__main__':
    main('C17', 'other', body)
