"""C08 - pull writes exactly the device file, for every device chunking.
(also the engine of C09: list/stat replies through the same buffered reader)

1. TLC explores the design spec AdbSyncRead (buffered record reader as built) for every record-size sequence and
   every set of WRITE boundaries, including boundaries inside a header: ParseOK, NoLeftover, deadlock freedom.
2. spec->code: every (record sizes, cut set) layout enumerated by TLC is replayed at real scale (header 8 bytes:
   a model header byte stands for 4 real bytes, a model body byte for 5) as a pull on AdbDevice and AdbDeviceAsync.
3. code->spec: pulls of random sizes (0 .. multi-MiB), random DATA record sizes, arbitrary WRITE boundaries and
   read fragmentation, destinations path / BytesIO, callbacks none / ok / raising, every byte offset of a two
   record exchange as the single cut; each call is one trace judged by SyncMon (PullExact, CallbackSum,
   CallbackInert) and by TraceEnv (stream closed, OKAYs).
"""
import random

from .. import scen, tlc
from ..framework import main

HREAL, BREAL = 8, 5


def layouts(ctx, h, sizes, maxrecs):
    cfg = tlc.cfg_text(constants={'H': str(h), 'Sizes': '{' + ','.join(map(str, sizes)) + '}', 'MaxRecs': str(maxrecs)},
                       invariants=['ParseOK', 'NoLeftover', 'Scen'], deadlock=True)
    r = tlc.cached_run('AdbSyncRead', cfg, tags=('SCEN',), depends=('AdbSyncRead',), workers=1)
    if r.violations:
        return r, []
    seen = {}
    for s in tlc.printed(r, 'SCEN'):
        seen[(tuple(s['recs']), tuple(sorted(s['cuts'])))] = s
    return r, list(seen.values())


def scale(recs, cuts, h_model, h_real, b_real):
    """Model byte position -> real byte position (header bytes scaled by h_real/h_model, body bytes by b_real)."""
    mp = {0: 0}
    p_model = p_real = 0
    for s in recs:
        for k in range(1, h_model + 1):
            p_model += 1
            mp[p_model] = p_real + (k * h_real) // h_model
        p_real += h_real
        for k in range(1, s + 1):
            p_model += 1
            p_real += b_real
            mp[p_model] = p_real
    return [mp[c] for c in cuts], [s * b_real for s in recs]


def judge(ctx, runs, label, only=('pull',)):
    tsync, tenv, meta = [], [], []
    for (mode, spec, rr, inert) in runs:
        for (i, t) in scen.sync_traces(rr, spec, inert=inert, only=only):
            tsync.append(t)
            meta.append((mode, spec))
        tenv.append((scen.project_events(rr, spec), mode, spec))
    ver, r = tlc.validate_traces('TraceSync', tsync)
    ctx.add_tlc(r, 'TraceSync %s (%d calls)' % (label, len(tsync)))
    okn = 0
    for (i, l, v) in ver:
        if v == 'ok':
            okn += 1
        else:
            ctx.violation(v, dict(kind='transfer', label=label, mode=meta[i][0], spec=meta[i][1], failing_event=l - 1, events=tsync[i][max(0, l - 3):l]))
    ctx.count(traces=okn, evaluations=len(tsync))
    ver2, r2 = tlc.validate_traces('TraceEnv', [t for t, _, _ in tenv])
    ctx.add_tlc(r2, 'TraceEnv %s' % label)
    for (i, l, v) in ver2:
        if v != 'ok' and not v.startswith('ENV.'):
            ctx.violation('C08.ClosesAfter(' + v + ')' if only == ('pull',) else 'C09.ClosesAfter(' + v + ')',
                          dict(kind='transfer', label=label, mode=tenv[i][1], spec=tenv[i][2], failing_event=l - 1))


def run_with_inert(spec, mode):
    rr = scen.run(spec, mode)
    inert = {}
    for i, op in enumerate(spec['ops']):
        if op.get('cb'):
            s2 = dict(spec, ops=[dict(o, cb=None) for o in spec['ops']])
            rr2 = scen.run(s2, mode)
            # the pull's own stream must be identical; with a callback there is an extra stat() stream before it
            def own(r_):
                # what the host wrote on the pull's own stream: the first sync: stream opened after the call of operation i began
                started = False
                lid_ = None
                out_ = []
                for e in r_.events:
                    if e['ev'] == 'call' and (e.get('info') or {}).get('i') == i:
                        started = True
                    elif started and lid_ is None and e['ev'] == 'tx' and e['cmd'] == 'OPEN' and e['_raw'][24:] == b'sync:\0':
                        lid_ = e['a0']
                    elif lid_ is not None and e['ev'] == 'tx' and e['cmd'] == 'WRTE' and e['a0'] == lid_:
                        out_.append(e['_raw'][24:])
                return out_
            inert[i] = (own(rr) == own(rr2) and rr.extra.get('pulled', {}).get(i) == rr2.extra.get('pulled', {}).get(i)
                        and rr.outcomes[1 + i].key()[0] == rr2.outcomes[1 + i].key()[0])
    return rr, inert


def optimised_interpreter(ctx):
    """The same small session in child interpreters started without flags, with -O and with -OO: outcomes, pulled and pushed contents
    are the same, and the transfers satisfy the TraceSync clauses at every level."""
    import json
    import os
    import subprocess
    e = dict(os.environ, PYTHONPATH=os.path.dirname(os.path.dirname(os.path.dirname(os.path.abspath(__file__)))))
    e.pop('PYTHONOPTIMIZE', None)
    res = {}
    for flag in ('', '-O', '-OO'):
        p = subprocess.run(['/venv/bin/python'] + ([flag] if flag else []) + ['-m', 'harness.optprobe', ctx.repo], env=e, stdout=subprocess.PIPE, stderr=subprocess.STDOUT, timeout=600)
        line = next((l for l in p.stdout.decode('utf8', 'replace').splitlines() if l.startswith('PROBE ')), None)
        if line is None:
            if not flag:
                raise tlc.TlcError('the probe session failed in a plain child interpreter: %s' % p.stdout.decode('utf8', 'replace')[-400:])
            ctx.violation('C08.PullExact', dict(kind='interpreter started with %s' % flag, output=p.stdout.decode('utf8', 'replace')[-600:]))
            return
        res[flag] = json.loads(line[6:])
    ctx.extra['optimisation_levels_probed'] = [res[f]['optimize'] for f in ('', '-O', '-OO')]
    for flag in ('-O', '-OO'):
        for a, b in zip(res['']['runs'], res[flag]['runs']):
            ctx.count(evaluations=1)
            for key, clause in (('pulled', 'C08.PullExact'), ('outcomes', 'C08.PullExact'), ('pushed', 'C07.ExactBytes')):
                if a[key] != b[key]:
                    diff = [k for k in (a[key] if isinstance(a[key], dict) else range(len(a[key]))) if (a[key][k] != (b[key].get(k) if isinstance(b[key], dict) else b[key][k]))]
                    ctx.violation(clause, dict(kind='interpreter started with %s: %s differ from a plain interpreter' % (flag, key), mode=a['mode'], differing=[str(d) for d in diff][:5],
                                               plain=[str(a[key][d])[:80] for d in diff][:3], optimised=[str((b[key].get(d) if isinstance(b[key], dict) else b[key][d]))[:80] for d in diff][:3]))
                    return
        trs = [t['trace'] for r_ in res[flag]['runs'] for t in r_['traces']]
        ver, r = tlc.validate_traces('TraceSync', trs)
        ctx.add_tlc(r, 'TraceSync over %d transfers run under python %s' % (len(trs), flag))
        for (i, l, v) in ver:
            if v != 'ok':
                ctx.violation(v, dict(kind='interpreter started with %s' % flag, events=trs[i][:l][-4:]))
            else:
                ctx.count(traces=1)


def body(ctx):
    rng = random.Random(ctx.seed)
    optimised_interpreter(ctx)
    if ctx.violations:
        return
    r, lay = layouts(ctx, 2, [0, 1, 2], 2 if ctx.quick else 3)
    ctx.add_tlc(r, 'AdbSyncRead H=2 Sizes={0,1,2}')
    if r.violations:
        ctx.violation('C08.' + r.violations[0]['name'] + '(design)', dict(kind='design-counterexample', state=r.violations[0]['trace'][-1][:800]))
        return
    runs = []
    for k, s in enumerate(lay):
        cuts, sizes = scale(s['recs'], s['cuts'], 2, HREAL, BREAL)
        total = sum(sizes) + HREAL * len(sizes)
        if k % 2:
            cuts = cuts + [total]           # also end a WRITE exactly before the final DONE record
        spec = dict(seed=ctx.seed + k, maxdata=4096, rid='plus', frag='whole',
                    ops=[dict(api='pull', path='/f', size=sum(sizes), explicit_sizes=list(sizes), cuts=cuts, dest='bytesio')])
        for mode in ('sync', 'async'):
            runs.append((mode, spec) + run_with_inert(spec, mode))
    ctx.extra['layouts_from_tlc'] = len(lay)
    ctx.extra['layouts_replayed'] = len(runs) // 2
    judge(ctx, runs, 'layouts enumerated by TLC')
    ctx.sample(dict(kind='layout', recs=lay[len(lay) // 2]['recs'], cuts=lay[len(lay) // 2]['cuts']))
    if ctx.violations:
        return
    runs = []
    # every byte offset of a two-record exchange as the single WRITE boundary
    for off in range(1, 8 + 11 + 8 + 6 + 8):
        spec = dict(seed=off, maxdata=4096, rid='plus', frag='whole', ops=[dict(api='pull', path='/f', size=17, data_sizes=[11, 6], cuts=[off], dest='bytesio')])
        for mode in ('sync', 'async'):
            runs.append((mode, spec) + run_with_inert(spec, mode))
    # a transfer aborted half-way (local disk error / the device falls silent in the middle of a record), then another one on the same
    # object, with and without close()+connect() in between: nothing of the aborted transfer may show up in the next
    k2 = 0
    for first in (dict(api='pull', path='/a1', size=9000, explicit_sizes=[3000, 3000, 3000], cuts='whole', dest=['raise', 1]),
                  dict(api='pull', path='/a2', size=9000, explicit_sizes=[3000, 3000, 3000], cuts='whole', dest=['raise', 2]),
                  dict(api='pull', path='/a3', size=9000, explicit_sizes=[4000, 5000], cuts=[8 + 1500], budget=3, read_timeout_s=1.0),
                  dict(api='pull', path='/a4', size=9000, explicit_sizes=[4000, 5000], cuts=[4], budget=3, read_timeout_s=1.0),
                  dict(api='push', path='/a5', size=9000, src='bytesio', mtime=3, budget=2, read_timeout_s=1.0)):
        for between in ([], [dict(api='reconnect')], [dict(api='reconnect', close_first=False)]):
            for second in (dict(api='pull', path='/b', size=5000, explicit_sizes=[5000], dest='bytesio'), dict(api='pull', path='/c', size=10, dest='bytesio', cb='ok')):
                k2 += 1
                spec = dict(seed=900 + k2, maxdata=4096, rid='plus', frag='whole', ops=[dict(first)] + [dict(b) for b in between] + [dict(second)])
                for mode in ('sync', 'async'):
                    runs.append((mode, spec) + run_with_inert(spec, mode))
    for j in range(40 if ctx.quick else 800):
        size = rng.choice([0, 1, 7, 8, 9, 65535, 65536, 65537, rng.randint(0, 300000)] + ([rng.randint(1000000, 4000000)] if j % 13 == 0 else []))
        spec = dict(seed=ctx.seed * 13 + j, maxdata=rng.choice([4096, 65536, 1024 * 1024]), rid='random', frag=rng.choice(['whole', 'random', 'empty'] if size < 50000 else ['whole']),
                    ops=[dict(api='pull', path=rng.choice(['/p', '/sdcard/éa', '/фото.jpg', '/€']), path_bytes=rng.random() < 0.3, size=size, data_sizes=rng.choice([None, 'random']), cuts=rng.choice(['whole', 'random', 'small'] if size < 20000 else ['whole', 'random']),
                              dest=rng.choice(['bytesio', 'path']), cb=rng.choice([None, 'ok', 'raise', 'raise_base', 'reenter']),      # reenter: the callback runs a shell command on the same device
                              local_as=rng.choice(['str', 'pathlib', 'bytes', 'fd', 'dollar', 'tilde']),                   # what open() accepts as a destination
                              stat_size=rng.choice([None, None, 0, 1, size + 1, 0xFFFFFFFF]))])          # what STAT says need not be what RECV delivers (procfs; a growing file)
        mode = ('sync', 'async')[j % 2]
        runs.append((mode, spec) + run_with_inert(spec, mode))
    # a transfer that takes longer than read_timeout_s as a whole although every packet arrives promptly, while another stream (a
    # streaming generator the caller keeps open) sends a packet in the middle of it
    for k3, (size, tick, rt) in enumerate([(200000, 0.05, 1.0), (70000, 0.2, 0.5), (300000, 0.01, 0.3)]):
        for cb in (None, 'ok'):
            spec = dict(seed=ctx.seed + 700 + k3, maxdata=4096, rid='plus', frag='whole', tick=tick,
                        ops=[dict(api='streaming_shell', decode=False, cmd='logcat', chunks=[b'l1;'.hex(), b'l2;'.hex(), b'l3;'.hex()], take=1, hold='log', freeze=True, read_timeout_s=rt),
                             dict(api='pull', path='/slow', size=size, data_sizes=[4000] * 200, cuts=[3000 * j_ for j_ in range(1, 40)], dest='bytesio', cb=cb, read_timeout_s=rt, thaw_after=(20, 4, 30)[k3]),
                             dict(api='resume', gen='log')])
            for mode in ('sync', 'async'):
                runs.append((mode, spec) + run_with_inert(spec, mode))
    # a slow but healthy link: a quiet spell shorter than the read timeout before every packet, then a payload that trickles in over another
    # spell shorter than the read timeout - together longer than it
    for k5, rt in enumerate((0.5, 2.0)):
        spec = dict(seed=ctx.seed + 740 + k5, maxdata=65536, rid='plus', frag='quiet_trickle', frag_rt=rt, ambient=False,
                    ops=[dict(api='pull', path='/qt', size=130000, data_sizes=[60000, 60000, 10000], cuts='whole', dest='bytesio', cb=(None, 'ok')[k5], read_timeout_s=rt),
                         dict(api='shell', decode=False, cmd='after', chunks=[(b'z' * 3000).hex()], read_timeout_s=rt)])
        for mode in ('sync', 'async'):
            runs.append((mode, spec) + run_with_inert(spec, mode))
    from .. import env as env_
    for k4, (size, cbk) in enumerate([(1, 'reenter'), (70000, 'reenter'), (200000, 'reenter'), (70000, 'reenter_stat'), (200000, 'reenter_pull'), (1, 'reenter_pull')]):
        spec = dict(seed=ctx.seed + 760 + k4, maxdata=4096, rid='plus', frag='whole', ops=[dict(api='pull', path='/re', size=size, dest='bytesio', cb=cbk),
                                                                                             dict(api='shell', decode=False, cmd='after', chunks=[b'ok'.hex()])])
        for mode in ('sync', 'async'):
            leaks0 = len(env_.LOCK_LEAKS)
            rr_, inert_ = run_with_inert(spec, mode)
            runs.append((mode, spec, rr_, inert_))
            got_ = rr_.extra.get('reentered', {}).get(0, [])
            want_ = {'reenter': b're-entered', 'reenter_pull': b'nested-content'}.get(cbk)
            if (want_ is not None and any(bytes(x) != want_ for x in got_)) or (size and not got_) or len(env_.LOCK_LEAKS) > leaks0:
                ctx.violation('C08.CallbackInert', dict(kind='a callback that runs another operation on the same device', callback=cbk, mode=mode, size=size, results=[repr(x)[:40] for x in got_][:5],
                                                        lock_requested_while_held=len(env_.LOCK_LEAKS) > leaks0))
    # destination names that merely look like shell syntax; raising callbacks in a process that turns warnings into errors; DATA records of
    # 64 KiB in one WRITE over a transport that keeps transfer boundaries
    for k5, (la, cbk, we, bd) in enumerate([('dollar', None, False, None), ('tilde', 'ok', False, None), ('str', 'raise', True, None), ('str', 'raise_base', True, None),
                                             ('str', None, False, 'usb'), ('pathlib', 'ok', False, 'usb')]):
        spec = dict(seed=ctx.seed + 800 + k5, maxdata=4096, rid='plus', frag='whole', warn_error=we, boundary=bd,
                    ops=[dict(api='pull', path='/x%d' % k5, size=140000, data_sizes=[65536, 65536, 8928], cuts='whole', dest='path', local_as=la, cb=cbk)])
        for mode in ('sync', 'async'):
            runs.append((mode, spec) + run_with_inert(spec, mode))
    # DATA records whose packetisation contains WRITEs without payload
    for k in range(3):
        spec = dict(seed=ctx.seed + 850 + k, maxdata=4096, rid='plus', frag='whole', ops=[dict(api='pull', path='/e%d' % k, size=9000, data_sizes=[4000, 4000, 1000], cuts='empties', dest='bytesio', cb=(None, 'ok', None)[k])])
        for mode in ('sync', 'async'):
            runs.append((mode, spec) + run_with_inert(spec, mode))
    # a file that arrives in more than a thousand records
    spec = dict(seed=ctx.seed + 790, maxdata=65536, rid='plus', frag='whole', ops=[dict(api='pull', path='/many', size=1500, data_sizes=[1] * 1500, cuts='whole', dest='bytesio', cb=None)])
    for mode in ('sync', 'async'):
        runs.append((mode, spec) + run_with_inert(spec, mode))
    judge(ctx, runs, 'offsets, random sizes/records/cuts/destinations/callbacks')
    ctx.assumptions += ['a model header byte stands for 4 real bytes and a model body byte for 5 (the reader is position-agnostic); all 7 intra-header offsets are covered by the single-cut family',
                        'with a progress callback pull() first issues stat() on another stream: CallbackInert compares the RECV stream and the bytes written']


if __name__ == '__main__':
    main('C08', 'model_checking', body)
