"""C18 - TCP transports honour the transport contract on real sockets.

1. TLC explores the contract spec AdbTransport (connect, idempotent close, peer writes of 1..3 bytes, reads of 1..4
   bytes - with the transport timeout or as a poll (timeout 0) - returning a non-empty prefix of the undelivered
   bytes, timeouts only when nothing is undelivered):
   InOrderNoLossNoDup, ReadAtMost, TimeoutOnlyWhenEmpty; its labelled graph yields the driver scripts.
2. spec->code / code->spec: a transition tour of that graph is executed by a *sequential* driver that owns both
   socket ends (peer write logged before sendall, then wait until the bytes are readable on the host side, then
   the host call, then its logged result), against TcpTransport and TcpTransportAsync on loopback; every step is
   validated by TLC against TraceTransport (ReadAtMost, InOrderNoLossNoDup, TimeoutOnlyWhenEmpty, TimeoutError,
   TimeoutNotEarly with 20 % slack, NoLossAfterTimeout, CloseIdempotent, Reconnectable).  Random scripts with
   larger fragments and request sizes follow.
3. SessionSame: a whole device session (connect, shell, stat, list, pull, push) over loopback against the socket
   server running the simulator gives the results of the in-memory transport, for both transports.
"""
import asyncio
import io
import random
import select
import socket
import time

from .. import env, scen, simdev, sockdev, tlc, tour
from ..framework import main


def graph_paths(ctx):
    cfg = tlc.cfg_text(constants={'MaxWrite': '3', 'MaxReq': '4', 'MaxBytes': '6'}, invariants=['InOrderNoLossNoDup', 'ReadAtMost', 'TimeoutOnlyWhenEmpty'],
                       view='View', action_constraints=['EmitEdge'])
    r = tlc.cached_run('AdbTransport', cfg, depends=('AdbTransport',))
    if r.violations:
        raise tlc.TlcError('AdbTransport violates %s' % r.violations[0]['name'])
    ctx.add_tlc(r, 'AdbTransport contract')
    g = tour.Graph(tlc.printed(r, 'EDGE'), keep_loops=True)
    return g, g.tour()


class Listener(object):
    def __init__(self):
        self.srv = socket.socket(socket.AF_INET, socket.SOCK_STREAM)
        self.srv.bind(('127.0.0.1', 0))
        self.srv.listen(8)
        self.port = self.srv.getsockname()[1]
        self.peer = None

    def accept(self):
        self.srv.settimeout(2.0)
        self.peer, _ = self.srv.accept()
        self.peer.setsockopt(socket.IPPROTO_TCP, socket.TCP_NODELAY, 1)

    def drop_peer(self):
        if self.peer is not None:
            try:
                self.peer.close()
            except OSError:
                pass
            self.peer = None

    def close(self):
        self.drop_peer()
        self.srv.close()


def _wall_step(after, step):
    """The host's wall clock is stepped (NTP correction, resume from suspend, a date change) `after` seconds from now; returns the
    function that puts it back.  Monotonic clocks are not affected - nor is anything that waits on them."""
    import threading
    orig = time.time
    tm = threading.Timer(after, lambda: setattr(time, 'time', lambda: orig() + step))
    tm.start()

    def restore():
        tm.cancel()
        tm.join()
        time.time = orig
    return restore


def script_of(path):
    return [e['act'] for e in path]


def byte_name(i, epoch=0):
    return (i * 37 + 11 + 97 * epoch) % 251          # what the peer says differs from connection to connection


def peer_read(peer, k, timeout=5.0):
    """What the peer receives: up to k bytes (it stops when nothing more arrives)."""
    out = b''
    peer.settimeout(timeout)
    try:
        while len(out) < k:
            b = peer.recv(min(1 << 20, k - len(out)))
            if not b:
                break
            out += b
    except (socket.timeout, OSError):
        pass
    finally:
        peer.settimeout(None)
    return out


def drive_sync(script, timeout_s=0.05, strport=False):
    from adb_shell.transport.tcp_transport import TcpTransport
    from adb_shell.exceptions import TcpTimeoutException
    L = Listener()
    t = TcpTransport('127.0.0.1', str(L.port) if strport else L.port)      # (the port as text: the socket layer accepts a service string)
    tr = []
    written = 0
    delivered = 0
    oob_sent = False
    epoch = 0
    try:
        for a in script:
            op = a['op']
            try:
                if op == 'connect':
                    L.drop_peer()
                    t.connect(a['tmo'] if 'tmo' in a else max(timeout_s, 2.0))        # (a generous connect timeout: on a loaded machine even a loopback connect can take more than a few milliseconds)
                    L.accept()
                    written = delivered = 0
                    epoch += 1
                    oob_sent = False
                    tr.append(dict(op='connect', ok=True))
                elif op == 'close':
                    t.close()
                    t.close()              # idempotent
                    tr.append(dict(op='close', ok=True))
                elif op == 'pw':
                    data = bytes(byte_name(written + i + 1, epoch) for i in range(a['m']))
                    tr.append(dict(op='pw', m=a['m']))
                    L.peer.sendall(data)
                    written += a['m']
                    select.select([t._connection], [], [], 1.0)      # until readable on the host side
                elif op == 'hw':
                    data = bytes((i * 7 + a['n']) % 251 for i in range(a['n']))
                    k = t.bulk_write(data, None if a.get('tmo') == 'none' else timeout_s)
                    got = peer_read(L.peer, k if isinstance(k, int) and 0 < k <= len(data) else 0)
                    tr.append(dict(op='hw', n=len(data), k=k if isinstance(k, int) else -1, prefixOk=(got == data[:len(got)] and len(got) == k)))
                elif op == 'hwblocked':
                    # the send buffer is full AND unread inbound bytes are pending; the peer starts draining after 0.2 s: a write with a
                    # timeout of 3 s waits for room and goes through
                    import threading
                    pend = bytes(byte_name(written + i + 1, epoch) for i in range(a['m']))
                    L.peer.sendall(pend)
                    tr.append(dict(op='pw', m=a['m']))
                    written += a['m']
                    select.select([t._connection], [], [], 1.0)
                    sent = bytearray()
                    for _ in range(4000):
                        chunk = bytes((len(sent) + i) % 251 for i in range(65536))
                        try:
                            k = t.bulk_write(chunk, 0.05)
                        except TcpTimeoutException:
                            break
                        sent += chunk[:k]
                    got_ = []
                    th = threading.Timer(0.2, lambda: got_.append(peer_read(L.peer, len(sent), timeout=10.0)))
                    th.start()
                    try:
                        k = t.bulk_write(b'Z' * 1000, 3.0)
                    except Exception as x:  # noqa
                        th.join()
                        tr.append(dict(op='error', clause='WriteWaitsForRoom', what='bulk_write(1000 bytes, 3.0) raised %r although the peer made room after 0.2 s (inbound bytes were pending)' % (x,)))
                        break
                    th.join()
                    tail = peer_read(L.peer, k if isinstance(k, int) and 0 < k <= 1000 else 0)
                    tr.append(dict(op='hw', n=len(sent) + 1000, k=len(sent) + (k if isinstance(k, int) else -1), prefixOk=bool(got_ and got_[0] == bytes(sent) and tail == b'Z' * len(tail) and len(tail) == k)))
                elif op == 'rst':
                    # the peer aborts the connection (RST: a rebooting device); whatever the reads that follow return or raise is not judged
                    import struct
                    L.peer.setsockopt(socket.SOL_SOCKET, socket.SO_LINGER, struct.pack('ii', 1, 0))
                    L.drop_peer()
                    time.sleep(0.02)
                    for _ in range(2):
                        try:
                            t.bulk_read(4, timeout_s)
                        except Exception:  # noqa
                            pass
                    tr.append(dict(op='rst'))
                elif op == 'dread':
                    # a read without a timeout blocks until the peer says something - however long that takes
                    data = bytes(byte_name(written + i + 1, epoch) for i in range(a['m']))
                    import threading
                    tm = threading.Timer(a['delay'], lambda: L.peer.sendall(data))
                    tm.start()
                    restore = _wall_step(a['delay'] / 4.0, a['wallstep']) if a.get('wallstep') else None
                    try:
                        try:
                            got = t.bulk_read(a['n'], a.get('tmo'))
                        finally:
                            if restore:
                                restore()
                        tr.append(dict(op='pw', m=a['m']))
                        written += a['m']
                        ok = [byte_name(delivered + i + 1, epoch) for i in range(len(got))] == list(got)
                        tr.append(dict(op='read', n=a['n'], k=len(got), first=delivered + 1, contiguous=bool(ok)))
                        delivered += len(got)
                    except Exception as x:  # noqa
                        tr.append(dict(op='error', clause='NoTimeoutMeansWait' if a.get('tmo') is None else 'NotBeforeTimeout',
                                       what='bulk_read(n, %r) raised %r although the peer spoke after %.2f s%s' % (a.get('tmo'), x, a['delay'], ' (the wall clock was stepped by %d s meanwhile)' % a['wallstep'] if a.get('wallstep') else '')))
                        tm.join()
                        break
                    tm.join()
                elif op == 'oob':
                    if not oob_sent:                       # one urgent byte per connection: TCP turns an earlier urgent byte into ordinary data when another arrives
                        oob_sent = True
                        L.peer.send(b'!', socket.MSG_OOB)  # urgent data: not part of the byte stream
                        time.sleep(0.01)
                        tr.append(dict(op='oob'))
                elif op == 'cread':
                    pass                                    # cancelling a read is an asyncio matter
                elif op in ('read', 'timeout'):
                    t0 = time.time()
                    try:
                        tmo = 0 if a.get('poll') else timeout_s
                        got = t.bulk_read(a['n'], tmo)
                        ok = [byte_name(delivered + i + 1, epoch) for i in range(len(got))] == list(got)
                        tr.append(dict(op='read', n=a['n'], k=len(got), first=delivered + 1, contiguous=bool(ok)))
                        delivered += len(got)
                    except TcpTimeoutException:
                        tr.append(dict(op='timeout', n=a['n'], rightClass=True, elapsed=int((time.time() - t0) * 1000), timeout=int(tmo * 1000)))
                    except Exception as x:  # noqa
                        tr.append(dict(op='timeout', n=a['n'], rightClass=False, elapsed=int((time.time() - t0) * 1000), timeout=int(tmo * 1000), cls=type(x).__name__))
            except Exception as x:  # noqa
                tr.append(dict(op='error', clause={'connect': 'Reconnectable', 'close': 'CloseIdempotent'}.get(op, 'Raises'), what='%s raised %r' % (op, x)))
                break
    finally:
        try:
            t.close()
        except Exception:  # noqa
            pass
        L.close()
    return tr


def drive_async(script, timeout_s=0.05, strport=False):
    from adb_shell.transport.tcp_transport_async import TcpTransportAsync
    from adb_shell.exceptions import TcpTimeoutException

    async def go():
        L = Listener()
        t = TcpTransportAsync('127.0.0.1', str(L.port) if strport else L.port)
        tr = []
        written = delivered = 0
        oob_sent = False
        epoch = 0
        try:
            for a in script:
                op = a['op']
                try:
                    if op == 'connect':
                        L.drop_peer()
                        await t.connect(a['tmo'] if 'tmo' in a else max(timeout_s, 2.0))        # (a generous connect timeout: on a loaded machine even a loopback connect can take more than a few milliseconds)
                        L.accept()
                        written = delivered = 0
                        epoch += 1
                        oob_sent = False
                        tr.append(dict(op='connect', ok=True))
                    elif op == 'close':
                        await t.close()
                        await t.close()
                        tr.append(dict(op='close', ok=True))
                    elif op == 'pw':
                        data = bytes(byte_name(written + i + 1, epoch) for i in range(a['m']))
                        tr.append(dict(op='pw', m=a['m']))
                        L.peer.sendall(data)
                        written += a['m']
                        await asyncio.sleep(0.01)
                    elif op == 'hw':
                        data = bytes((i * 7 + a['n']) % 251 for i in range(a['n']))
                        rd = asyncio.get_running_loop().run_in_executor(None, peer_read, L.peer, len(data))      # the peer drains while the host writes
                        k = await t.bulk_write(data, None if a.get('tmo') == 'none' else max(timeout_s, 5.0))
                        got = await rd
                        tr.append(dict(op='hw', n=len(data), k=k if isinstance(k, int) else -1, prefixOk=(got == data[:len(got)] and len(got) == k)))
                    elif op == 'hwblocked':
                        pass                                 # (asyncio buffers writes itself: the situation is one of the blocking-socket transport)
                    elif op == 'rst':
                        import struct
                        L.peer.setsockopt(socket.SOL_SOCKET, socket.SO_LINGER, struct.pack('ii', 1, 0))
                        L.drop_peer()
                        await asyncio.sleep(0.02)
                        for _ in range(2):
                            try:
                                await t.bulk_read(4, timeout_s)
                            except Exception:  # noqa
                                pass
                        tr.append(dict(op='rst'))
                    elif op == 'dread':
                        data = bytes(byte_name(written + i + 1, epoch) for i in range(a['m']))
                        asyncio.get_running_loop().call_later(a['delay'], lambda: L.peer.sendall(data))
                        restore = _wall_step(a['delay'] / 4.0, a['wallstep']) if a.get('wallstep') else None
                        try:
                            try:
                                got = await t.bulk_read(a['n'], a.get('tmo'))
                            finally:
                                if restore:
                                    restore()
                            tr.append(dict(op='pw', m=a['m']))
                            written += a['m']
                            ok = [byte_name(delivered + i + 1, epoch) for i in range(len(got))] == list(got)
                            tr.append(dict(op='read', n=a['n'], k=len(got), first=delivered + 1, contiguous=bool(ok)))
                            delivered += len(got)
                        except Exception as x:  # noqa
                            tr.append(dict(op='error', clause='NoTimeoutMeansWait' if a.get('tmo') is None else 'NotBeforeTimeout',
                                           what='bulk_read(n, %r) raised %r although the peer spoke after %.2f s' % (a.get('tmo'), x, a['delay'])))
                            break
                    elif op == 'oob':
                        if not oob_sent:
                            oob_sent = True
                            L.peer.send(b'!', socket.MSG_OOB)
                            await asyncio.sleep(0.01)
                            tr.append(dict(op='oob'))
                    elif op == 'cread':
                        if written == delivered:
                            # a read that is waiting for data is abandoned (its task is cancelled): it consumes nothing, now or later
                            task = asyncio.ensure_future(t.bulk_read(a['n'], 5.0))
                            await asyncio.sleep(0.02)
                            task.cancel()
                            try:
                                await task
                                tr.append(dict(op='error', clause='Raises', what='a cancelled bulk_read returned normally'))
                                break
                            except asyncio.CancelledError:
                                tr.append(dict(op='cread'))
                    elif op in ('read', 'timeout'):
                        t0 = time.time()
                        try:
                            tmo = 0 if a.get('poll') else timeout_s
                            got = await t.bulk_read(a['n'], tmo)
                            ok = [byte_name(delivered + i + 1, epoch) for i in range(len(got))] == list(got)
                            tr.append(dict(op='read', n=a['n'], k=len(got), first=delivered + 1, contiguous=bool(ok)))
                            delivered += len(got)
                        except TcpTimeoutException:
                            tr.append(dict(op='timeout', n=a['n'], rightClass=True, elapsed=int((time.time() - t0) * 1000), timeout=int(tmo * 1000)))
                        except Exception as x:  # noqa
                            tr.append(dict(op='timeout', n=a['n'], rightClass=False, elapsed=int((time.time() - t0) * 1000), timeout=int(tmo * 1000), cls=type(x).__name__))
                except Exception as x:  # noqa
                    tr.append(dict(op='error', clause={'connect': 'Reconnectable', 'close': 'CloseIdempotent'}.get(op, 'Raises'), what='%s raised %r' % (op, x)))
                    break
        finally:
            try:
                await t.close()
            except Exception:  # noqa
                pass
            L.close()
        return tr
    loop = asyncio.new_event_loop()
    try:
        return loop.run_until_complete(go())
    finally:
        loop.close()


def session_over_socket(mode, seed, wrapper=False):
    """A full device session over loopback; returns list of outcome keys."""
    import threading
    m = env.mods()
    env.bind_time(time, m['sync'])
    env.bind_time(time, m['asyn'])
    m['sync'].Lock = threading.Lock
    m['asyn'].Lock = asyncio.Lock
    dev = simdev.SimDevice(seed=seed, auth=simdev.AuthPolicy(maxdata=65536))
    prep(dev)
    sd = sockdev.SockDevice(dev, write_frag=lambda n: random.Random(seed).randint(1, n), seed=seed)
    out = []
    try:
        if mode == 'sync':
            from adb_shell.transport.tcp_transport import TcpTransport
            d = m['sync'].AdbDeviceTcp('127.0.0.1', sd.port, default_transport_timeout_s=2.0) if wrapper else m['sync'].AdbDevice(TcpTransport('127.0.0.1', sd.port), default_transport_timeout_s=2.0)
            out.append(d.connect(read_timeout_s=3.0))
            out.append(d.shell('ls', decode=False))
            out.append(d.stat('/f'))
            out.append([(bytes(x[0]), x[1], x[2], x[3]) for x in d.list('/d')])
            b = io.BytesIO()
            d.pull('/f', b)
            out.append(b.getvalue())
            d.push(io.BytesIO(scen.fast_pattern(3, 200000)), '/q', mtime=5)
            out.append(bytes(dev.fs.files['/q']['data']))
            d.close()
        else:
            from adb_shell.transport.tcp_transport_async import TcpTransportAsync

            async def go():
                d = m['asyn'].AdbDeviceTcpAsync('127.0.0.1', sd.port, default_transport_timeout_s=2.0) if wrapper else m['asyn'].AdbDeviceAsync(TcpTransportAsync('127.0.0.1', sd.port), default_transport_timeout_s=2.0)
                out.append(await d.connect(read_timeout_s=3.0))
                out.append(await d.shell('ls', decode=False))
                out.append(await d.stat('/f'))
                out.append([(bytes(x[0]), x[1], x[2], x[3]) for x in await d.list('/d')])
                b = io.BytesIO()
                await d.pull('/f', b)
                out.append(b.getvalue())
                await d.push(io.BytesIO(scen.fast_pattern(3, 200000)), '/q', mtime=5)
                out.append(bytes(dev.fs.files['/q']['data']))
                await d.close()
            loop = asyncio.new_event_loop()
            try:
                loop.run_until_complete(go())
            finally:
                loop.close()
    except Exception as x:  # noqa
        out.append('raised %r' % x)
    finally:
        time.sleep(0.02)
        sd.close()
    return out


def prep(dev):
    dev.shell_scripts[b'shell:ls'] = [b'one;', b'two;' * 500]
    dev.fs.add('/f', scen.fast_pattern(1, 150000), mode=33188, mtime=42)
    dev.fs.dirs['/d'] = [(b'a', 1, 2, 3), (b'\xff\x00b', 0xFFFFFFFF, 0, 7)]


def session_in_memory(mode, seed):
    dev = simdev.SimDevice(seed=seed, auth=simdev.AuthPolicy(maxdata=65536))
    prep(dev)
    s = env.Session(mode, dev)
    out = [s.raw('connect'), s.raw('shell', 'ls', decode=False), s.raw('stat', '/f'), [(bytes(x[0]), x[1], x[2], x[3]) for x in s.raw('list', '/d')]]
    b = io.BytesIO()
    s.raw('pull', '/f', b)
    out.append(b.getvalue())
    s.raw('push', io.BytesIO(scen.fast_pattern(3, 200000)), '/q', mtime=5)
    out.append(bytes(dev.fs.files['/q']['data']))
    s.raw('close')
    s.close_loop()
    return out


def body(ctx, prefix='C18'):
    rng = random.Random(ctx.seed)
    g, paths = graph_paths(ctx)
    traces, meta = [], []
    for pi, p in enumerate(paths):
        sc = script_of(p)
        for mi, (mode, drv) in enumerate((('sync', drive_sync), ('async', drive_async))):
            if ctx.quick and (pi + mi) % 2:
                continue          # quick: every path of the tour once, the two transports taking turns
            traces.append(drv(sc))
            meta.append(dict(kind='tour-script', mode=mode, script=sc))
    # the peer aborts the connection (RST): close() still works, twice, and the same object connects again; and a read without a
    # timeout waits for a peer that stays silent for longer than the timeout connect() was given
    for mode, drv in (('sync', drive_sync), ('async', drive_async)):
        sc = [dict(op='connect'), dict(op='pw', m=3), dict(op='read', n=3), dict(op='rst'), dict(op='close'), dict(op='close'), dict(op='connect'), dict(op='pw', m=2), dict(op='read', n=2),
              dict(op='dread', m=3, n=3, delay=0.25), dict(op='dread', m=1, n=24, delay=0.12),
              dict(op='dread', m=2, n=2, delay=0.7, tmo=3.0, wallstep=3600), dict(op='dread', m=2, n=2, delay=0.3, tmo=3.0, wallstep=-3600), dict(op='close')]
        traces.append(drv(sc))
        meta.append(dict(kind='peer reset, then reconnect; reads without a timeout', mode=mode, script=sc))
    # connected without a timeout, closed, connected with one, then a read without a timeout that must wait; the port given as text with
    # timeouts on the way; a write that finds the send buffer full while inbound bytes are pending
    for mode, drv in (('sync', drive_sync), ('async', drive_async)):
        sc = [dict(op='connect', tmo=None), dict(op='pw', m=2), dict(op='read', n=2), dict(op='close'), dict(op='connect', tmo=0.5), dict(op='dread', m=3, n=3, delay=0.25),
              dict(op='close'), dict(op='connect', tmo=None), dict(op='dread', m=2, n=2, delay=0.1, tmo=2.0), dict(op='read', n=1), dict(op='close')]
        traces.append(drv(sc))
        meta.append(dict(kind='connect timeouts None / a number in turn, reads without a timeout', mode=mode, script=sc))
        sc = [dict(op='connect'), dict(op='read', n=4), dict(op='pw', m=3), dict(op='read', n=3), dict(op='read', n=1, poll=True), dict(op='hw', n=24, tmo='t'), dict(op='close'), dict(op='connect'), dict(op='read', n=1)]
        traces.append(drv(sc, strport=True))
        meta.append(dict(kind='the port given as text', mode=mode, script=sc))
    sc = [dict(op='connect', tmo=1.0), dict(op='hwblocked', m=100), dict(op='read', n=100), dict(op='pw', m=5), dict(op='read', n=5), dict(op='close')]
    traces.append(drive_sync(sc))
    meta.append(dict(kind='send buffer full while inbound bytes are pending', mode='sync', script=sc))
    # what the peer had sent and the host had not consumed when it closed must not turn up on the next connection
    for mode, drv in (('sync', drive_sync), ('async', drive_async)):
        for (sent, taken) in ((3, 1), (30, 24), (5000, 24), (2, 2)):
            sc = [dict(op='connect'), dict(op='pw', m=sent), dict(op='read', n=taken), dict(op='close'), dict(op='connect'), dict(op='pw', m=4), dict(op='read', n=4096),
                  dict(op='read', n=5), dict(op='close'), dict(op='close'), dict(op='connect'), dict(op='read', n=1, poll=True), dict(op='pw', m=1), dict(op='read', n=1, poll=True)]
            traces.append(drv(sc))
            meta.append(dict(kind='leftover bytes, then close and connect again', mode=mode, script=sc))
    for j in range(20 if ctx.quick else 300):
        sc = [dict(op='connect')]
        for _ in range(rng.randint(3, 12)):
            c = rng.random()
            if c < 0.45:
                sc.append(dict(op='pw', m=rng.choice([1, 2, 7, 100, 5000])))
            elif c < 0.8:
                sc.append(dict(op='read', n=rng.choice([1, 3, 24, 4096, 65536]), poll=rng.random() < 0.3))
            elif c < 0.84:
                sc.append(dict(op='hw', n=rng.choice([1, 24, 70000, 4 * 1024 * 1024]), tmo=rng.choice(['none', 't'])))     # also: connected with a timeout, written without one
            elif c < 0.87:
                sc.append(dict(op='oob'))
            elif c < 0.9:
                sc.append(dict(op='cread', n=rng.choice([1, 24, 4096])))
            elif c < 0.95:
                sc.append(dict(op='close'))
                sc.append(dict(op='connect'))
            else:
                sc.append(dict(op='close'))
                sc.append(dict(op='close'))
                sc.append(dict(op='connect'))
        mode, drv = (('sync', drive_sync), ('async', drive_async))[j % 2]
        traces.append(drv(sc))
        meta.append(dict(kind='random-script', mode=mode, script=sc))
    # connected with a timeout (a non-blocking socket), then written to with and without one: small, and more than the socket buffers hold
    for mode, drv in (('sync', drive_sync), ('async', drive_async)):
        for tmo in ('none', 't'):
            sc = [dict(op='connect'), dict(op='hw', n=24, tmo=tmo), dict(op='hw', n=4 * 1024 * 1024, tmo=tmo), dict(op='pw', m=5), dict(op='read', n=5), dict(op='oob'), dict(op='read', n=3),
                  dict(op='cread', n=24), dict(op='pw', m=8), dict(op='read', n=8), dict(op='hw', n=70000, tmo=tmo), dict(op='close'), dict(op='connect'), dict(op='hw', n=1, tmo=tmo)]
            traces.append(drv(sc))
            meta.append(dict(kind='write / urgent data / cancelled read script', mode=mode, script=sc))
    ver, r = tlc.validate_traces('TraceTransport', traces, extra_data={'prefix': prefix})
    ctx.add_tlc(r, 'TraceTransport over %d driver scripts on loopback' % len(traces))
    okn = 0
    for (i, l, v) in ver:
        if v == 'ok':
            okn += 1
        else:
            ctx.violation(v, dict(meta[i], failing_event=l - 1, events=traces[i][max(0, l - 4):l]))
    ctx.count(traces=okn, evaluations=len(traces), distinct=len(g.edges))
    ctx.extra['contract_edges'] = len(g.edges)
    ctx.extra['timeouts_observed'] = sum(1 for t in traces for e in t if e['op'] == 'timeout')
    ctx.sample(dict(meta[3], events=traces[3]))
    # SessionSame
    for mode, wrapper in (('sync', False), ('async', False), ('sync', True), ('async', True)):      # wrapper: the convenience classes AdbDeviceTcp / AdbDeviceTcpAsync
        a = session_over_socket(mode, ctx.seed + 5, wrapper)
        b = session_in_memory(mode, ctx.seed + 5)
        ctx.count(evaluations=1)
        if a != b:
            first = next((i for i, (x, y) in enumerate(zip(a, b)) if x != y), min(len(a), len(b)))
            ctx.violation(prefix + '.SessionSame', dict(kind='session', mode=mode, convenience_class=wrapper, first_difference_at=first, over_socket=repr(a[first])[:200] if first < len(a) else None,
                                                         in_memory=repr(b[first])[:200] if first < len(b) else None))
    # the same over constrained sockets: 4 KiB receive buffer, slow reader, non-blocking writes (a push larger than the socket buffers)
    from . import c15
    for mode in ('sync', 'async'):
        out, events, err = c15.loopback_case(mode, 1024 * 1024, 1500000, ctx.seed + 9)
        ctx.count(evaluations=1)
        if err:
            raise tlc.TlcError('socket server failed: %r' % err)
        if out['outcome'] != 'ret' or not out['intact']:
            ctx.violation(prefix + '.SessionSame', dict(kind='session over constrained sockets', **out))
    ctx.assumptions += ['lower time bounds only (a timeout must not fire before 80 % of the requested time); no upper bounds on wall-clock time',
                        'the driver is sequential and never races a peer write against a read that is expected to time out']


if __name__ == '__main__':
    main('C18', 'model_checking', body)
