"""C02 - every packet the host emits is a well-formed ADB message.

1. spec->code: TLC computes the header bytes of every row of FrameTable (7 commands x 9x9 boundary
   arguments x 9 payload classes) with the TLA+ encoder and checks RoundTrip/WellFormed on the spec;
   each row is compared with AdbMessage(...).pack(), unpack() and checksum() (bytes and bytearray).
2. code->spec: the complete outgoing byte stream of random sessions (shell/sync ops, pushes with payloads
   up to 1 MiB whose byte sums exceed 2^24) is framed by the independent parser of the transport and every
   frame is judged by AdbFrame!FrameClause inside TraceEnv.
"""
import random

from .. import env, scen, tlc, wire
from ..framework import main


def table(ctx):
    cfg = tlc.cfg_text(invariants=['RoundTrip', 'WellFormed', 'Row'])
    r = tlc.cached_run('FrameTable', cfg, tags=('ROW',), depends=('FrameTable', 'AdbFrame', 'AdbWords'), workers=1)
    if r.violations:
        raise tlc.TlcError('FrameTable: %s' % r.violations[0]['name'])
    ctx.add_tlc(r, 'FrameTable')
    rows = {}
    for row in tlc.printed(r, 'ROW'):
        rows[(row['cmd'], tuple(row['a0']), tuple(row['a1']), row['fill'], row['n'])] = row
    if len(rows) != 7 * 81 * 9:
        raise tlc.TlcError('FrameTable printed %d rows' % len(rows))
    return list(rows.values())


def check_rows(ctx, rows):
    m = env.mods()['msg']
    payload_cache = {}
    n = 0
    for row in rows:
        a0, a1 = wire.unlimbs(row['a0']), wire.unlimbs(row['a1'])
        key = (row['fill'], row['n'])
        if key not in payload_cache:
            pl = bytes([row['fill']]) * row['n']
            payload_cache[key] = (pl, wire.bytesum(pl) & wire.M32)
        payload, psum = payload_cache[key]
        want = bytes(row['hdr'])
        for kind in (bytes, bytearray):
            n += 1
            p = kind(payload)
            try:
                msg = m.AdbMessage(row['cmd'].encode(), a0, a1, p)
                got = msg.pack()
                un = m.unpack(got)
                ck = m.checksum(p)
            except Exception as e:  # noqa
                ctx.violation('C02.PackRaises', dict(kind='row', row={k: row[k] for k in ('cmd', 'a0', 'a1', 'fill', 'n')}, payload_type=kind.__name__, error=repr(e)))
                return n
            clause = None
            if bytes(got) != want:
                f = wire.parse_header(bytes(got)) if len(got) == 24 else None
                w = wire.parse_header(want)
                clause = 'C02.Layout'
                if f:
                    for fld, c in (('cmdw', 'C02.KnownCommand'), ('magic', 'C02.Magic'), ('len', 'C02.Length'), ('check', 'C02.Checksum'), ('a0', 'C02.Args'), ('a1', 'C02.Args')):
                        if f[fld] != w[fld]:
                            clause = c
                            break
            elif tuple(un) != (wire.CMD_WORD[row['cmd']], a0, a1, len(payload), psum):
                clause = 'C02.UnpackRoundTrip'
            elif ck != psum:
                clause = 'C02.Checksum'
            if clause:
                ctx.violation(clause, dict(kind='row', row={k: row[k] for k in ('cmd', 'a0', 'a1', 'fill', 'n')}, payload_type=kind.__name__,
                                           expected_header=want.hex(), got_header=bytes(got).hex(), unpacked=repr(un)))
                if len(ctx.violations) >= 3:
                    return n
    return n


def body(ctx):
    rng = random.Random(ctx.seed)
    rows = table(ctx)
    n = check_rows(ctx, rows)
    ctx.count(evaluations=n, distinct=len(rows))
    ctx.sample(dict(kind='row', cmd=rows[0]['cmd'], a0=rows[0]['a0'], a1=rows[0]['a1'], fill=rows[0]['fill'], n=rows[0]['n'], header=bytes(rows[0]['hdr']).hex()))
    if ctx.violations:
        return
    nsess = 80 if ctx.quick else 800
    specs = [scen.gen_session(rng, i, big=(i % 8 == 0), adversarial=(i % 2 == 1)) for i in range(nsess)]
    # always include 1 MiB WRITEs whose byte sum exceeds 2^24 and a payload of 0xFF bytes
    specs.append(dict(seed=5, maxdata=1024 * 1024, rid='random', frag='whole', ops=[dict(api='push', size=3 * 1024 * 1024 + 17, src='bytesio', path='/big', mtime=7)]))
    specs.append(dict(seed=6, maxdata=4096, rid='high', frag='random', lid0=2 ** 32 - 2,
                      ops=[dict(api='shell', decode=False, cmd='\xff' * 40, chunks=['ff' * 4096]), dict(api='exec_out', decode=False, cmd='y', chunks=[])]))
    # one message whose payload bytes sum to more than 2^32 (21 MB of U+FFFF as a command line): the checksum field is the sum modulo 2^32
    specs.append(dict(seed=9, maxdata=1024 * 1024, rid='plus', frag='whole', ambient=False, ops=[dict(api='exec_out', decode=False, cmd='\uffff' * 7000000, chunks=[b'ok'.hex()])]))
    # payload lengths that are exact multiples of common block sizes (4 KiB .. 256 KiB), and their neighbours
    for e_ in range(12, 19):
        for d_ in (-1, 0, 1):
            n_ = (1 << e_) + d_
            specs.append(dict(seed=n_, maxdata=1024 * 1024, rid='plus', frag='whole',
                              ops=[dict(api='shell', decode=False, cmd='y' * (n_ - 7), chunks=[b'ok'.hex()]),          # OPEN payload b'shell:' + cmd + NUL has n_ bytes
                                   dict(api='push', size=n_ - 8 - 15 - 8 - 8, src='bytesio', path='/' + 'p' * 8, mtime=3)]))  # one WRITE of exactly n_ bytes (SEND+DATA+DONE)
    for mult in (3 * 16384, 5 * 16384, 65536 + 16384):
        specs.append(dict(seed=mult, maxdata=1024 * 1024, rid='plus', frag='whole', ops=[dict(api='exec_out', decode=False, cmd='z' * (mult - 6), chunks=[])]))
    # authenticated handshakes: AUTH(SIGNATURE) and AUTH(RSAPUBLICKEY) frames, the public key as str / bytes / bytearray, ASCII or not
    # (keygen appends ' user@host': a user or host name may be anything)
    for ai, pub in enumerate(['QUJDRA== user@host', 'QUJDRA== j\xf6rg@b\xfcro', 'QUJDRA== \u7528\u6237@\u4e3b\u673a', 'k' * 700 + ' \u20ac@h']):
        for pt in ('str', 'bytes', 'bytearray'):
            for accept in ('pub', 'sig'):
                specs.append(dict(seed=700 + ai, maxdata=4096, rid='plus', frag='whole', auth=dict(accept=accept, pub=pub, pub_type=pt, nkeys=2),
                                  ops=[dict(api='shell', decode=False, cmd='id', chunks=[b'uid=0'.hex()])]))
    corpus = scen.run_corpus(specs)
    traces = [c[3] for c in corpus]
    frames = sum(1 for t in traces for e in t if e['ev'] == 'tx')
    bigsum = sum(1 for t in traces for e in t if e['ev'] == 'tx' and e['sum'][0] >= 256)
    ver, r = tlc.validate_traces('TraceEnv', traces)
    ctx.add_tlc(r, 'TraceEnv over %d sessions (%d host frames, %d with byte sum >= 2^24)' % (len(traces), frames, bigsum))
    okn = 0
    for (i, l, v) in ver:
        if v == 'ok':
            okn += 1
        elif v.startswith('C02.'):
            ctx.violation(v, dict(kind='trace', mode=corpus[i][0], spec=corpus[i][1], failing_event=l - 1, events=traces[i][max(0, l - 4):l]))
        elif v.startswith('ENV.'):
            raise tlc.TlcError('environment clause %s in trace %d' % (v, i))
        else:
            ctx.extra.setdefault('other_property_clauses_seen', []).append(v)   # judged by that property's own check
            okn += 1
    ctx.count(traces=okn, evaluations=frames)
    ctx.extra['host_frames_checked'] = frames
    ctx.extra['frames_with_sum_over_2^24'] = bigsum
    ctx.sample(dict(kind='frame', event=next((e for e in traces[-2] if e['ev'] == 'tx' and e['cmd'] == 'WRTE'), None)))
    if ctx.violations:
        return
    if bigsum == 0:
        raise tlc.TlcError('vacuity: no frame with a byte sum above 2^24 was produced')
    # concurrent operations with a preemption point at every transport write: frames of different threads / tasks must not interleave
    from .. import tour
    from .c06 import CFG
    ex = []
    for k in range(60 if ctx.quick else 1500):
        name = ('C', 'G', 'I', 'B')[k % 4]
        mode = ('async', 'sync')[(k // 4) % 2]
        prog, rep = CFG[name]
        tr, info = tour.explore(mode, prog, rep, 1, random.Random(ctx.seed * 991 + k), write_yield=True)[0]
        ex.append((tr, dict(config=name, mode=mode, schedule=info['schedule'])))
    v3, r3 = tlc.validate_traces('TraceEnv', [t for t, _ in ex])
    ctx.add_tlc(r3, 'TraceEnv over %d concurrent schedules with write preemption' % len(ex))
    for (i, l, v) in v3:
        if v.startswith('C02.'):
            ctx.violation(v, dict(kind='schedule', failing_event=l - 1, **ex[i][1]))
        else:
            ctx.count(traces=1)
    if ctx.violations:
        return
    # binding self-test
    import copy
    t2 = copy.deepcopy(traces[0])
    e = next(e for e in t2 if e['ev'] == 'tx')
    e['magic'] = [e['magic'][0] ^ 1, e['magic'][1]]
    v2, _ = tlc.validate_traces('TraceEnv', [t2])
    if v2[0][2] != 'C02.Magic':
        raise tlc.TlcError('binding self-test failed: corrupted magic gave %s' % v2[0][2])
    ctx.extra['sabotage_rejected'] = v2[0][2]
    ctx.assumptions += ['payloads above 8 MiB are outside the integer range of the byte-sum comparison (not producible through the API: maxdata <= 1 MiB)',
                        'frames are cut out of the host byte stream by harness/transports.py::_host_bytes using harness/wire.py (no adb_shell code)']


if __name__ == '__main__':
    main('C02', 'model_checking', body)
