"""C10 - device-side sync failures surface as the documented exception with the reason.

1. TLC explores AdbHost for multi-WRITE pushes whose service rejects at every position, the FAIL WRITE free to
   overtake the OKAY of any later host WRITE: the intended design completes (NoStuck, MonitorOK, the FAIL is
   delivered); the as-built deviation DEV_F5 (while F5 is an open finding) exhibits the stuck state.
2. spec->code: transition tour of the rejected two-WRITE push replayed on AdbDevice and AdbDeviceAsync.
3. code->spec: the grid (rejection point x number of WRITEs x device ordering x reason x packetisation), for
   push and pull, sync and async, plus status ids that are not valid at that point; every call is one trace
   judged by SyncMon in TraceSync (FailSurfaces, CarriesReason, InvalidStatus, NeverSucceeds, NoTimeoutInstead).
4. The record-level design spec AdbSyncOp (stat / list / pull / pull with callback against every reply script of up to 3
   (thorough: 4) records over {DATA, DENT, DONE, STAT, FAIL, OKAY}, then silence, x the sink's k-th write failing):
   FailSurfaces, InvalidStatus, ExactOnReturn, StatRule, ClosesOnce hold on the spec; TLC prints the expected
   observables of every row, each row is replayed on the real code (outcome class, records handed over, CLSEs sent).
"""
import random

from .. import scen, tlc, tour
from ..framework import main, load_findings, as_built

SHAPES = {
    'push2fail': (tour.PUSH2FAIL, [[1], []]),
    'push3fail@1': (['flush', 'flush', 'flush', 'readw', 'raise'], [[1], [], []]),
    'push3fail@2': (['flush', 'flush', 'flush', 'readw', 'raise'], [[], [1], []]),
    'push3fail@3': (['flush', 'flush', 'flush', 'readw', 'raise'], [[], [], [1]]),
    'push1fail': (['flush', 'readw', 'raise'], [[1]]),
}


def design(ctx, f5_open):
    for name, (p, rp) in SHAPES.items():
        for other in (None, ['shell']):
            prog, rep = {'t1': p}, {'t1': rp}
            if other:
                if ctx.quick and name != 'push2fail':
                    continue
                prog['t2'], rep['t2'] = other, [[1]]
            r = tour.host_run(prog, rep, False, False, invariants=('MonitorOK', 'Complete', 'NoStuck', 'LockDiscipline'))
            ctx.add_tlc(r, 'AdbHost %s%s intended' % (name, '||shell' if other else ''))
            if r.violations:
                raise tlc.TlcError('intended design violates %s for %s' % (r.violations[0]['name'], name))
            if f5_open:
                r = tour.host_run(prog, rep, False, True, invariants=('MonitorOK', 'Complete', 'NoStuck', 'LockDiscipline'))
                ctx.add_tlc(r, 'AdbHost %s%s as-built (DEV_F5)' % (name, '||shell' if other else ''))
                for v in r.violations:
                    if v['name'] in ('NoStuck', 'Deadlock'):
                        ctx.violation('C10.NoTimeoutInstead(design)', dict(kind='design-counterexample', shape=name, last_state=v['trace'][-1][:1200]), finding='F5')
                    else:
                        raise tlc.TlcError('as-built design violates %s for %s' % (v['name'], name))


def grid(ctx, rng):
    specs = []
    sizes = [0, 1000, 5000, 12288, 30000] if ctx.quick else [0, 1, 1000, 2048, 5000, 12288, 30000, 100000]
    reasons = ['no space', '', 'x' * 300, 'caf\xe9 \xff', "couldn't create file: /sdcard/100%_done.txt", '%s %d %(x)s 100%', '{} {0} {x}', 'line1\nline2\x00tail']     # adbd echoes paths: any bytes
    k = 0
    for size in sizes:
        for where, kk in [('SEND', 0), ('DATA', 0), ('DATA', 1), ('DATA', 3), ('DONE', 0)]:
            if where == 'DATA' and kk * 2048 >= max(size, 1):
                continue
            for reorder in (False, True):
                for rep_ in range(1 if not reorder else (2 if ctx.quick else 6)):
                    k += 1
                    specs.append(dict(seed=ctx.seed * 7919 + k, maxdata=4096, rid='plus', frag=rng.choice(['whole', 'random']), reorder=reorder, eager=bool(k % 3 == 0),
                                      ops=[dict(api='push', size=size, src='bytesio', path=('/t', '/т')[k % 2], mtime=5, plan=dict(where=where, k=kk, reason=reasons[k % len(reasons)]),
                                                cuts=rng.choice(['whole', 'small', 'bytes1']), read_timeout_s=2.0)]))
    # larger maxdata
    for md in (65536, 1024 * 1024):
        for where in ('SEND', 'DATA', 'DONE'):
            k += 1
            specs.append(dict(seed=ctx.seed + k, maxdata=md, rid='random', frag='whole', reorder=True,
                              ops=[dict(api='push', size=3 * md + 5, src='bytesio', path='/t', mtime=5, plan=dict(where=where, k=1, reason='quota'), read_timeout_s=2.0)]))
    # pull
    for size in ([0, 100, 70000] if ctx.quick else [0, 1, 100, 65536, 70000, 300000]):
        for where, kk in [('RECV', 0), ('DATA', 0), ('DATA', 1), ('DONE', 0)]:
            if where == 'DATA' and kk * 65536 >= max(size, 1):
                continue
            for cb in (None, 'ok'):
                k += 1
                specs.append(dict(seed=ctx.seed * 31 + k, maxdata=4096, rid='plus', frag=rng.choice(['whole', 'random']),
                                  ops=[dict(api='pull', size=size, path=('/p', '/é/p')[k % 2], path_bytes=(k % 3 == 0), plan=dict(where=where, k=kk, reason=reasons[k % len(reasons)]), cuts=rng.choice(['whole', 'small', 'bytes1']),
                                            cb=cb, read_timeout_s=2.0, dest=('bytesio', 'path')[k % 2], local_as=('str', 'pathlib', 'fd', 'bytes')[(k // 2) % 4])]))
    # an aborted transfer first, then a rejected one on the same object (with and without a reconnect in between)
    for first in (dict(api='pull', path='/a3', size=9000, explicit_sizes=[4000, 5000], cuts=[8 + 1500], budget=3, read_timeout_s=1.0),
                  dict(api='pull', path='/a1', size=9000, explicit_sizes=[3000, 3000, 3000], cuts='whole', dest=['raise', 1])):
        for between in ([], [dict(api='reconnect')], [dict(api='reconnect', close_first=False)]):
            for second in (dict(api='pull', size=5000, path='/p', plan=dict(where='DATA', k=0, reason='gone'), read_timeout_s=2.0),
                           dict(api='push', size=5000, src='bytesio', path='/t', mtime=5, plan=dict(where='DONE', k=0, reason='quota'), read_timeout_s=2.0)):
                k += 1
                specs.append(dict(seed=ctx.seed + 3000 + k, maxdata=4096, rid='plus', frag='whole', ops=[dict(first)] + [dict(b) for b in between] + [dict(second)]))
    # read_timeout_s = 0 with a clock that advances on every transport call: a FAIL that is already there must still win over the deadline
    for where, kk in [('SEND', 0), ('DATA', 1)]:
        for reorder in (False, True):
            k += 1
            specs.append(dict(seed=ctx.seed + 4000 + k, maxdata=4096, rid='plus', frag='whole', reorder=reorder, tick=0.001,
                              ops=[dict(api='push', size=12288, src='bytesio', path='/t', mtime=5, plan=dict(where=where, k=kk, reason='no space'), cuts='small', read_timeout_s=0)]))
    # a directory push in which the device rejects a file (every file of the directory has a sync stream of its own)
    for where, kk in (('SEND', 0), ('DATA', 0), ('DONE', 0)):
        k += 1
        specs.append(dict(seed=ctx.seed + 5000 + k, maxdata=4096, rid='plus', frag='whole',
                          ops=[dict(api='push', src='dir', path='/sdcard/dir%d' % k, files=[['a.txt', 10], ['b.bin', 5000]], cwd=('inside', 'elsewhere')[k % 2], mtime=5,
                                    plan=dict(where=where, k=kk, reason='read-only file system'), read_timeout_s=2.0)]))
    # a directory push in which the device rejects one file that is not the last one and accepts the others
    for nth in (0, 1):
        for where in ('SEND', 'DONE'):
            k += 1
            specs.append(dict(seed=ctx.seed + 5100 + k, maxdata=4096, rid='plus', frag='whole',
                              ops=[dict(api='push', src='dir', path='/sdcard/part%d' % k, files=[['a.txt', 10], ['b.bin', 5000], ['c.bin', 100]], cwd='elsewhere', mtime=5,
                                        plan=dict(where=where, k=0, reason='quota exceeded', nth=nth), read_timeout_s=2.0)]))
    # the same with a service that sends the status of every accepted file twice: the surplus record of one file's stream is nobody's answer
    for nth in (1, 2):
        for where in ('SEND', 'DONE'):
            k += 1
            specs.append(dict(seed=ctx.seed + 5200 + k, maxdata=4096, rid='plus', frag='whole',
                              ops=[dict(api='push', src='dir', path='/sdcard/twice%d' % k, files=[['a.txt', 10], ['b.bin', 5000], ['c.bin', 100]], cwd='elsewhere', mtime=5, surplus_okay=True,
                                        plan=dict(where=where, k=0, reason='quota exceeded', nth=nth), read_timeout_s=2.0)]))
    # missing file (the device's own FAIL)
    specs.append(dict(seed=1, maxdata=4096, rid='plus', frag='whole', ops=[dict(api='pull', size=None, path='/missing', plan=dict(where=None, reason='No such file'), read_timeout_s=2.0)]))
    # status ids that are valid FileSync ids but not valid at that point
    for bad in ('DATA', 'DONE', 'DENT', 'STAT', 'LIST', 'QUIT', 'RECV', 'SEND'):
        specs.append(dict(seed=2, maxdata=4096, rid='plus', frag='whole',
                          ops=[dict(api='push', size=100, src='bytesio', path='/t', mtime=5, plan=dict(where='STATUS', bad_id=bad), read_timeout_s=2.0)]))
    for bad in ('OKAY', 'DENT', 'LIST', 'QUIT', 'SEND'):
        specs.append(dict(seed=3, maxdata=4096, rid='plus', frag='whole', ops=[dict(api='pull', size=10, path='/p', plan=dict(where='RECV', bad_id=bad), read_timeout_s=2.0)]))
    return specs


def reply_scripts(ctx):
    """Record-level design spec AdbSyncOp: every reply script (any ids, valid at that point or not, then silence) x sink failure,
    enumerated by TLC with the expected observables, replayed on stat / list / pull / pull with callback, sync and async."""
    from .. import syncop
    rows = syncop.rows(ctx, 3 if ctx.quick else 4)
    n = 0
    for i, row in enumerate(rows):
        for mi, mode in enumerate(('sync', 'async')):
            if ctx.quick and (i + mi) % 2:
                continue
            reply_len = len(syncop.render('pull' if row['op'] in ('pullcb', 'push') else row['op'], row['script']))
            cuts = None if (i // 2) % 3 == 0 or reply_len < 2 else sorted({1 + (i * 7) % (reply_len - 1), 1 + (i * 13 + 5) % (reply_len - 1)})
            # a script that starts with the device closing the stream: every other time the close comes INSTEAD of the OKAY for the request
            obs = syncop.run_row(mode, row, cuts, close_unacked=bool(row['script'] and row['script'][0] == 'CLSE' and (i // 2) % 2), stall=('raise', 'empty')[(i // 3) % 2])
            n += 1
            clause = syncop.compare(row, obs)
            if clause:
                ctx.violation(clause, dict(kind='reply script', mode=mode, operation=row['op'], script=row['script'], sink_fails_at_write=row['failAt'], write_cuts=cuts,
                                           expected=dict(outcome=row['outcome'], items=row['items'], closes=row['nclse']), observed=obs))
                if len(ctx.violations) >= 3:
                    break
        if len(ctx.violations) >= 3:
            break
    ctx.count(evaluations=n, distinct=len(rows))
    ctx.extra['reply_script_rows'] = len(rows)
    ctx.extra['reply_script_runs'] = n


def body(ctx):
    rng = random.Random(ctx.seed)
    f5 = any(f.status == 'open' and f.fid == 'F5' for f in load_findings())
    design(ctx, f5)
    reply_scripts(ctx)
    if ctx.violations:
        return
    # tour (design conformance)
    prog, rep = {'t1': tour.PUSH2FAIL}, {'t1': [[1], []]}
    K1b, F5b, REG = as_built()
    r = tour.host_run(prog, rep, K1b, F5b, invariants=(), emit=True, deadlock=False, cached=True, registry=REG)
    g = tour.Graph(tlc.printed(r, 'EDGE'))
    paths = g.tour()
    for mode in ('sync', 'async'):
        k, steps, bad = tour.replay_tour(mode, prog, rep, paths)
        ctx.count(evaluations=steps, distinct=len(g.edges))
        ctx.extra.setdefault('design_conformance', []).append(dict(shape='push2fail', mode=mode, edges=len(g.edges), steps=steps, mismatches=len(bad)))
        if bad:
            ctx.design_drift('push2fail %s: step %d %s real=%s model=%s' % (mode, bad[0]['step'], bad[0]['act'], bad[0].get('real'), bad[0].get('model')))
    # grid
    specs = grid(ctx, rng)
    traces, meta = [], []
    for i, spec in enumerate(specs):
        for mode in ('sync', 'async'):
            rr = scen.run(spec, mode, **({'tick': spec['tick']} if 'tick' in spec else {}))
            for (j, t) in scen.sync_traces(rr, spec):
                if 'budget' in spec['ops'][j] or isinstance(spec['ops'][j].get('dest'), list):
                    continue              # the deliberately aborted first transfer is not judged
                traces.append(t)
                meta.append((mode, spec))
    ver, r2 = tlc.validate_traces('TraceSync', traces)
    ctx.add_tlc(r2, 'TraceSync over %d rejected transfers' % len(traces))
    okn = 0
    hist = {}
    for (i, l, v) in ver:
        hist[v] = hist.get(v, 0) + 1
        mode, spec = meta[i]
        if v == 'ok':
            okn += 1
            continue
        rp = dict(kind='transfer', mode=mode, spec=spec, failing_event=l - 1, events=traces[i][-4:])
        # history signature of F5: multi-WRITE push, the device may reorder, the FAIL went out before the host's last WRITE was acknowledged
        sig_f5 = (v == 'C10.NoTimeoutInstead' and spec['ops'][0]['api'] == 'push' and spec.get('reorder') and (spec['ops'][0].get('plan') or {}).get('where') in ('SEND', 'DATA'))
        ctx.violation(v, rp, finding='F5' if sig_f5 else None)
    ctx.count(traces=okn, evaluations=len(traces), distinct=len(specs))
    ctx.extra['verdict_histogram'] = hist
    ctx.sample(dict(kind='transfer', spec=specs[3], events=traces[6][-4:]))
    ctx.assumptions += ['status ids restricted to FILESYNC_IDS (an unknown 4-byte id raises KeyError: outside the wording of C10)',
                        'legal orderings: the FAIL WRITE may overtake the OKAY of later host WRITEs, never the OKAY of the WRITE that triggered it']


if __name__ == '__main__':
    main('C10', 'model_checking', body)
