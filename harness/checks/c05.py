"""C05 - the CNXN/AUTH handshake follows the ADB authentication state machine.

1. TLC explores the design spec AdbAuth (steps 0-7 of connect() against every device configuration: 0..3 keys,
   accepted signature index, public key accepted/ignored, non-TOKEN challenge at any position, stray packets,
   several maxdata values, two consecutive connect() calls) with the Layer-A monitor AuthMon conjoined: AuthOK,
   AvailIffOk, SuccessWhenAccepted, deadlock freedom.
2. code->spec, exhaustive over the same product (and 4 keys): every device script is run against AdbDevice and
   AdbDeviceAsync with recording signers and fresh random tokens; the recorded handshake (host packets named by
   key index and token ordinal, callback invocations, the timeout of the public-key wait, outcome, .available,
   max_chunk_size) is validated by TLC against TraceAuth.  Random scripts add longer stray runs, odd token
   lengths and maxdata over the 32-bit range.
"""
import copy
import itertools
import random

from .. import env, simdev, tlc, wire
from ..framework import main


class RecSigner(object):
    def __init__(self, idx, log, keep_bytearray=False, same_pub=False, no_pub=False):
        self.no_pub = no_pub          # a signer built from the private key alone: asking it for the public key fails
        self.idx, self.log = idx, log
        self.pub = bytearray(b'PUB|%d' % idx) if keep_bytearray else None      # a signer that hands out the bytearray it keeps
        if same_pub:
            self.pub = b'PUB|1'                  # different private keys that report the same public-key text (loaded without their .pub, or a copied one)

    def Sign(self, data):
        self.log.append(('sign', self.idx, bytes(data)))
        return b'SIG|%d|' % self.idx + bytes(data)

    def GetPublicKey(self):
        self.log.append(('pub', self.idx))
        if self.no_pub:
            raise TypeError('this signer has no public key')
        if self.pub is not None:
            return self.pub
        return b'PUB|%d' % self.idx


def run_script(mode, sc, sess=None, seed=0, stray_frames=None, keys=None):
    """sc: dict(nkeys, need_auth, accept_at, pub_accept, bad_at, strays, md, cb, token_len) -> (trace, outcome, session)"""
    if sess is None:
        dev = simdev.SimDevice(seed=seed)
        sess = env.Session(mode, dev, log_io=True, banner=b'verif-host', default_transport_timeout_s=sc.get('default_tt'))
    dev = sess.dev
    first = len(dev.rec.events)
    stray_list = [wire.frame('OKAY', 5, 6), wire.frame('WRTE', 7, 8, b'stray'), wire.frame('CLSE', 9, 9)]
    strays = {}
    for i, k in enumerate(sc.get('strays', [])):
        strays[i] = [stray_list[(i + j) % 3] for j in range(k)]
    if stray_frames is not None:
        strays = stray_frames
    tl = sc.get('token_len', 20)
    rng = random.Random(seed * 131 + 7)
    dev.auth = simdev.AuthPolicy(mode='auth' if sc['need_auth'] else 'open', maxdata=sc['md'], accept_sig=lambda i, sig, tok: sc['accept_at'] == i + 1,
                                 pubkey=sc.get('pub_mode') or ('accept' if sc['pub_accept'] else 'ignore'), strays=strays,
                                 bad_auth_type=(sc['bad_at'] - 1) if sc.get('bad_at') else None,
                                 tokens=[bytes(rng.randrange(256) for _ in range(tl)) for _ in range(8)])
    log = []
    if keys is None:
        keys = [RecSigner(i + 1, log, keep_bytearray=bool(sc.get('keep_pub')), same_pub=bool(sc.get('same_pub')), no_pub=bool(sc.get('no_pub'))) for i in range(sc['nkeys'])]
    at = sc.get('auth_timeout', 7.0)
    cbs = []

    def cb(dev_):
        sess.rec.ev('cb')
        cbs.append(1)
    kw = dict(rsa_keys=keys if sc['nkeys'] else [None, [], ()][seed % 3], auth_timeout_s=at, read_timeout_s=3.0, transport_timeout_s=2.0)
    if sc['cb']:
        kw['auth_callback'] = cb
    o = sess.call('connect', **kw)
    ev = dev.rec.events[first:]
    issued = dev.auth.issued
    tr = []
    pub_seen = False
    waited = False
    for e in ev:
        k = e['ev']
        if k == 'call':
            tr.append(dict(ev='call', api='connect', nkeys=sc['nkeys'], cb=bool(sc['cb']), auth_timeout=-1 if at is None else int(at * 1000)))
        elif k == 'tx':
            pl = e['_payload']
            if e['cmd'] == 'CNXN':
                tr.append(dict(ev='atx', kind='CNXN', fields=(wire.unlimbs(e['a0']) == 0x01000000 and wire.unlimbs(e['a1']) == 1024 * 1024 and pl == b'host::verif-host\0')))
            elif e['cmd'] == 'AUTH' and wire.unlimbs(e['a0']) == 2:
                key, tok = 0, 0
                if pl.startswith(b'SIG|'):
                    try:
                        key = int(pl[4:pl.index(b'|', 4)])
                        body_ = pl[pl.index(b'|', 4) + 1:]
                        tok = (len(issued) - issued[::-1].index(body_)) if body_ in issued else 0
                    except ValueError:
                        pass
                tr.append(dict(ev='atx', kind='SIG', key=key, tok=tok))
            elif e['cmd'] == 'AUTH' and wire.unlimbs(e['a0']) == 3:
                key = int(pl[4:-1]) if pl.startswith(b'PUB|') and pl[4:-1].isdigit() else 0
                tr.append(dict(ev='atx', kind='PUB', key=key, nul=pl.endswith(b'\0') and not pl.endswith(b'\0\0')))
                pub_seen = True
            else:
                tr.append(dict(ev='atx', kind='OTHER'))
        elif k == 'rd':
            pl = e['_payload']
            tr.append(dict(ev='rd', cmd=e['cmd'], a0=e['a0'], a1=e['a1'], tok=(len(issued) - issued[::-1].index(pl)) if pl in issued else 0))
        elif k == 'cb':
            tr.append(dict(ev='cb'))
        elif k in ('br', 'stall') and pub_seen and not waited:
            waited = True
            tr.append(dict(ev='authwait', timeout=e['timeout_ms']))
        elif k == 'ret':
            tr.append(dict(ev='ret', api='connect', value=o.value is True, avail=bool(sess.device.available), chunk=int(sess.device.max_chunk_size)))
        elif k == 'exc':
            tr.append(dict(ev='exc', api='connect', cls=e['cls'], avail=bool(sess.device.available)))
    sess.last_keys = keys
    return tr, o, sess


def scripts(maxkeys, quick):
    out = []
    mds = [4096, 1024 * 1024, 1, 0xFFFFFFFF] if quick else [4096, 65536, 1024 * 1024, 1, 0, 0xFFFFFFFF, 0x80000000, 131071]
    stray_pats = [[], [1, 1, 1, 1, 1, 1], [2]]
    i = 0
    for nkeys in range(maxkeys + 1):
        out.append(dict(nkeys=nkeys, need_auth=False, accept_at=0, pub_accept=True, bad_at=0, strays=stray_pats[i % 3], md=mds[i % len(mds)], cb=bool(i % 2)))
        for accept_at in range(nkeys + 1):
            for pub_accept in (True, False):
                if accept_at and not pub_accept:
                    continue
                for bad_at in range(0, nkeys + 2):
                    for sp in stray_pats:
                        i += 1
                        out.append(dict(nkeys=nkeys, need_auth=True, accept_at=accept_at, pub_accept=pub_accept, bad_at=bad_at, strays=sp,
                                        md=mds[i % len(mds)], cb=bool((i // len(mds)) % 2)))
    return out


def replay_rows(ctx, rng):
    """spec->code: every completed connect() of the design spec (configuration + what the device put on the wire, as enumerated by
    TLC) is replayed on the real code; outcome, number of signatures, public-key offers, callback calls, .available, chunk size compared."""
    import os
    import shutil
    from .. import wire
    wd = tlc.workdir('authrows')
    try:
        with open(os.path.join(wd, 'MCAuthRows.tla'), 'w') as f:
            f.write(tlc.mc_module('MCAuthRows', 'AdbAuth', dict(MC_MDs=tlc.Raw('{<<0,4096>>, <<16,0>>, <<0,1>>}'))))
        cfg = tlc.cfg_text(constants={'MaxKeys': '2' if ctx.quick else '3', 'MaxStray': '1', 'MDs': '<- MC_MDs', 'Connects': '1'},
                           invariants=['AuthOK', 'AvailIffOk', 'SuccessWhenAccepted', 'EndRow'], deadlock=True)
        r = tlc.cached_run('MCAuthRows', cfg, tags=('END',), depends=('AdbAuth', 'AuthMon', 'AdbWords'), module_dir=wd, extra_key='rows')
    finally:
        shutil.rmtree(wd, ignore_errors=True)
    if r.violations:
        raise tlc.TlcError('AdbAuth (rows) violates %s' % r.violations[0]['name'])
    ctx.add_tlc(r, 'AdbAuth single connect, terminal rows for replay')
    seen = {}
    for row in tlc.printed(r, 'END'):
        seen[json_key(row)] = row
    rows = list(seen.values())
    if ctx.quick:
        rng.shuffle(rows)
        rows = rows[:1500]
    frames = {'OKAY': wire.frame('OKAY', 5, 6), 'WRTE': wire.frame('WRTE', 7, 8, b'stray'), 'CLSE': wire.frame('CLSE', 9, 9)}
    mism = 0
    for k, row in enumerate(rows):
        c = row['cfg']
        # strays per answer index, from the order in which the device wrote
        strays, cur, idx = {}, [], 0
        for h_ in row['hist']:
            if h_ == 'ans':
                strays[idx] = cur
                cur, idx = [], idx + 1
            else:
                cur.append(frames[h_])
        if cur:
            strays[idx] = cur            # strays after which the device fell silent
        md = wire.unlimbs(c['md'])
        sc = dict(nkeys=c['nkeys'], need_auth=c['needAuth'], accept_at=c['acceptAt'], pub_accept=c['pubAccept'], bad_at=c['badAt'], strays=[], md=md, cb=c['cb'])
        mode = ('sync', 'async')[k % 2]
        tr, o, sess = run_script(mode, sc, seed=k, stray_frames=strays)
        sess.close_loop()
        got = dict(outcome='ok' if o.kind == 'ret' else o.exc_name, sigs=sum(1 for e in tr if e.get('kind') == 'SIG'), pub=sum(1 for e in tr if e.get('kind') == 'PUB'),
                   cb=sum(1 for e in tr if e['ev'] == 'cb'), avail=bool(sess.device.available), chunk=int(sess.device.max_chunk_size) if o.kind == 'ret' else row['chunk'])
        want = dict(outcome=row['outcome'], sigs=row['sigs'], pub=row['pub'], cb=row['cb'], avail=row['avail'], chunk=row['chunk'])
        if want['outcome'] == 'AdbTimeoutError' and got['outcome'] in ('SimTimeout', 'AdbTimeoutError'):
            got['outcome'] = 'AdbTimeoutError'         # the transport's own timeout error stands for the model's timeout
        if got != want:
            mism += 1
            if mism <= 3:
                ctx.design_drift('AdbAuth row %s: real %s, model %s' % ({kk: c[kk] for kk in ('nkeys', 'needAuth', 'acceptAt', 'pubAccept', 'badAt', 'cb')}, got, want))
    ctx.count(evaluations=len(rows), distinct=len(rows))
    ctx.extra['design_conformance'] = dict(rows_replayed=len(rows), mismatches=mism)


def json_key(row):
    import json
    return json.dumps(row, sort_keys=True)


def body(ctx):
    rng = random.Random(ctx.seed)
    replay_rows(ctx, rng)
    # 1. design
    wd = tlc.workdir('auth')
    import os
    import shutil
    try:
        with open(os.path.join(wd, 'MCAuth.tla'), 'w') as f:
            f.write(tlc.mc_module('MCAuth', 'AdbAuth', dict(MC_MDs=tlc.Raw('{<<0,4096>>, <<16,0>>, <<0,1>>, <<65535,65535>>}'))))
        cfg = tlc.cfg_text(constants={'MaxKeys': '2' if ctx.quick else '3', 'MaxStray': '1' if ctx.quick else '2', 'MDs': '<- MC_MDs', 'Connects': '2'},
                           invariants=['AuthOK', 'AvailIffOk', 'SuccessWhenAccepted'], deadlock=True, view='ViewNoHist')
        r = tlc.run('MCAuth', cfg, wd=wd, module_dir=wd, coverage=True, timeout=3000)
    finally:
        shutil.rmtree(wd, ignore_errors=True)
    ctx.add_tlc(r, 'AdbAuth design with AuthMon')
    if r.violations:
        raise tlc.TlcError('the design spec AdbAuth violates %s:\n%s' % (r.violations[0]['name'], r.violations[0]['trace'][-1]))
    dead = [k for k in ('Start', 'HostRead', 'HostTimeout', 'Again', 'Stray', 'Answer') if not r.coverage.get(k)]
    if dead:
        raise tlc.TlcError('vacuity: actions never taken: %s' % dead)
    ctx.extra['actions_covered'] = {k: v for k, v in r.coverage.items() if k != 'Init'}
    # 2. code->spec over the product
    scs = scripts(4, ctx.quick)
    traces, meta = [], []
    for mode in ('sync', 'async'):
        for i, sc in enumerate(scs):
            tr, o, sess = run_script(mode, sc, seed=ctx.seed * 100000 + i)
            # a second connect() on the same object with another script (every 3rd object)
            if i % 3 == 0:
                sc2 = scs[(i * 7 + 3) % len(scs)]
                tr2, o2, _ = run_script(mode, sc2, sess=sess, seed=ctx.seed * 100000 + i + 50000)
                tr = tr + tr2
                meta.append((mode, [sc, sc2]))
            else:
                meta.append((mode, [sc]))
            traces.append(tr)
            sess.close_loop()
    # the same signer objects used for several connects (a signer may hand out the very bytearray it keeps), unusual auth timeouts
    for mode in ('sync', 'async'):
        # keys whose public-key texts are equal are still different keys: each is tried once, in order
        for nk in (2, 3, 4):
            for acc in range(0, nk + 1):
                sc = dict(nkeys=nk, need_auth=True, accept_at=acc, pub_accept=True, bad_at=0, strays=[], md=4096, cb=True, same_pub=True)
                tr, o, sess = run_script(mode, sc, seed=ctx.seed + 300 + nk * 10 + acc)
                sess.close_loop()
                traces.append(tr)
                meta.append((mode, [sc]))
    for mode in ('sync', 'async'):
        # signers that have no public key: as long as one of their signatures is accepted the public key is never needed
        for nk in (1, 2, 3):
            for acc in range(1, nk + 1):
                sc = dict(nkeys=nk, need_auth=True, accept_at=acc, pub_accept=True, bad_at=0, strays=[1, 0, 1], md=4096, cb=True, no_pub=True)
                tr, o, sess = run_script(mode, sc, seed=ctx.seed + 400 + nk * 10 + acc)
                sess.close_loop()
                traces.append(tr)
                meta.append((mode, [sc]))
        # after the public key the device challenges again before (or instead of) connecting: only a CNXN is the answer
        for pm in ('reauth', 'reauth_only'):
            for md in (4096, 65536):
                sc = dict(nkeys=2, need_auth=True, accept_at=0, pub_accept=(pm == 'reauth'), pub_mode=pm, bad_at=0, strays=[], md=md, cb=True, auth_timeout=3.0)
                tr, o, sess = run_script(mode, sc, seed=ctx.seed + 450 + md)
                ok_ = (o.kind == 'ret' and o.value is True and int(sess.device.max_chunk_size) == min(65536, md // 2)) if pm == 'reauth' else (o.kind == 'exc' and not sess.device.available)
                sess.close_loop()
                if not ok_:
                    ctx.violation('C05.SuccessIffCnxn', dict(kind='handshake', mode=mode, script=sc, outcome=repr(o)[:120], available=bool(sess.device.available)))
                traces.append(tr)
                meta.append((mode, [sc]))
        # a slow link (every transport call takes a third of a second): several keys are tried, each answer arrives well within the read
        # timeout of 3 s, the whole exchange takes longer; stray packets in front of the later answers.  The key the device accepts is reached.
        for nk, strays in ((4, [0, 0, 1, 1, 1]), (3, [0, 1, 0, 2]), (4, [1, 1, 1, 1, 1])):
            sc = dict(nkeys=nk, need_auth=True, accept_at=nk, pub_accept=False, bad_at=0, strays=strays, md=4096, cb=False)
            dev_ = simdev.SimDevice(seed=ctx.seed + 470 + nk)
            sess_ = env.Session(mode, dev_, log_io=True, banner=b'verif-host', tick=0.33)
            tr, o, sess = run_script(mode, sc, sess=sess_, seed=ctx.seed + 470 + nk)
            sess.close_loop()
            if not (o.kind == 'ret' and o.value is True):
                ctx.violation('C05.SuccessWhenAccepted', dict(kind='handshake on a slow link', mode=mode, script=sc, outcome=repr(o)[:160]))
            traces.append(tr)
            meta.append((mode, [sc]))
        # stray packets in front of the CNXN that follows the public key, with every kind of auth timeout
        for at in (None, 0, 0.5, 7.0):
            for strays in ([0, 0, 0, 2], [1, 1, 1, 1], [0, 0, 0, 4]):
                sc = dict(nkeys=2, need_auth=True, accept_at=0, pub_accept=True, bad_at=0, strays=strays, md=4096, cb=True, auth_timeout=at)
                tr, o, sess = run_script(mode, sc, seed=ctx.seed + 500)
                sess.close_loop()
                traces.append(tr)
                meta.append((mode, [sc]))
    for mode in ('sync', 'async'):
        for at, dtt in ((None, None), (0, None), (0.5, None), (7.0, None), (None, 4.0), (7.0, 4.0), (0.5, 30.0)):
            sc = dict(nkeys=2, need_auth=True, accept_at=0, pub_accept=True, bad_at=0, strays=[], md=4096, cb=True, keep_pub=True, auth_timeout=at, default_tt=dtt)
            tr, o, sess = run_script(mode, sc, seed=ctx.seed + 77)
            keys = sess.last_keys
            for rep in range(2):
                tr2, o2, _ = run_script(mode, dict(sc, pub_accept=(rep == 0)), sess=sess, seed=ctx.seed + 78 + rep, keys=keys)
                tr = tr + tr2
            sess.close_loop()
            traces.append(tr)
            meta.append((mode, [dict(sc, note='three connects with the same signer objects'), dict(sc, pub_accept=True), dict(sc, pub_accept=False)]))
    # random scripts
    for j in range(100 if ctx.quick else 3000):
        nk = rng.randint(0, 4)
        sc = dict(nkeys=nk, need_auth=rng.random() < 0.9, accept_at=rng.randint(0, nk), pub_accept=rng.random() < 0.6, bad_at=rng.choice([0, 0, 0] + list(range(1, nk + 2))),
                  strays=[rng.randint(0, 4) for _ in range(6)], md=rng.choice([rng.randrange(2 ** 32), rng.randrange(1, 70000)]), cb=rng.random() < 0.5,
                  token_len=rng.choice([20, 20, 1, 64, 0]))
        if sc['accept_at'] and not sc['pub_accept']:
            sc['pub_accept'] = True
        mode = ('sync', 'async')[j % 2]
        tr, o, sess = run_script(mode, sc, seed=ctx.seed * 7 + j)
        sess.close_loop()
        traces.append(tr)
        meta.append((mode, [sc]))
    # SuccessWhenAccepted on the code: a healthy device that is going to accept (no authentication, an accepted signature, or the
    # public key) and sends nothing out of line must end in connect() returning True - whatever the signers look like
    for tr, (mode_, scs_) in zip(traces, meta):
        k_ = 0
        for e_ in tr:
            if e_['ev'] in ('ret', 'exc'):
                sc_ = scs_[min(k_, len(scs_) - 1)]
                k_ += 1
                will_accept = (not sc_['need_auth']) or (sc_['nkeys'] > 0 and not sc_.get('bad_at') and (0 < sc_['accept_at'] <= sc_['nkeys'] or sc_['pub_accept']))
                if will_accept and sc_.get('token_len', 20) == 20 and not (e_['ev'] == 'ret' and e_.get('value')):
                    ctx.violation('C05.SuccessWhenAccepted', dict(kind='handshake', mode=mode_, script=sc_, ended_with=e_))
                    break
        if len(ctx.violations) >= 3:
            break
    ver, r2 = tlc.validate_traces('TraceAuth', traces)
    ctx.add_tlc(r2, 'TraceAuth over %d handshakes' % len(traces))
    okn = 0
    for (i, l, v) in ver:
        if v == 'ok':
            okn += 1
        else:
            ctx.violation(v, dict(kind='handshake', mode=meta[i][0], scripts=meta[i][1], failing_event=l - 1, events=traces[i][:l]))
    ctx.count(traces=okn, evaluations=len(traces), distinct=len(scs))
    ctx.sample(dict(kind='handshake', script=meta[40][1], events=traces[40]))
    # binding self-test: re-sign an old token / drop the callback -> rejected
    t0 = next(t for t in traces if sum(1 for e in t if e.get('kind') == 'SIG') >= 2)
    bad = copy.deepcopy(t0)
    sigs = [e for e in bad if e.get('kind') == 'SIG']
    sigs[1]['tok'] = sigs[0]['tok']
    t1 = next(t for t in traces if any(e['ev'] == 'cb' for e in t))
    bad2 = [e for e in copy.deepcopy(t1) if e['ev'] != 'cb']
    v3, _ = tlc.validate_traces('TraceAuth', [bad, bad2])
    if v3[0][2] != 'C05.SignsNewestToken' or v3[1][2] != 'C05.CallbackOnceBeforePubkey':
        raise tlc.TlcError('binding self-test failed: %r' % (v3,))
    ctx.extra['sabotage_rejected'] = [v3[0][2], v3[1][2]]
    ctx.assumptions += ['signers are recording fakes (key index and signed bytes visible); the three real signer classes are bound in C17',
                        'adopted maxdata is observed through the public max_chunk_size property']


if __name__ == '__main__':
    main('C05', 'model_checking', body)
