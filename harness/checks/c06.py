"""C06 - concurrent streams are isolated: no cross-talk, loss, duplication or deadlock.

1. TLC explores the design spec AdbHost (critical-section granularity, device free to pick any ready stream)
   for 2-3 concurrent operations: the intended design satisfies MonitorOK / Complete / NoCrossTalk / NoStuck /
   LockDiscipline and deadlock freedom (and EventuallyDone under weak fairness); the as-built design (deviation
   constants of the open findings) exhibits the K1 stuck state - the finding's design-level witness.
2. spec->code: transition tour of the as-built 2-thread graph replayed into real threads (AdbDevice) and asyncio
   tasks (AdbDeviceAsync); projected real state compared with the model after every step (design conformance).
3. code->spec, independent of the design spec: random schedules of the real code (thread choice at every lock /
   transport boundary, device choice of the next packet), every execution validated by TLC against TraceEnv;
   an operation that cannot complete on a healthy device is C06.Stuck, or the known finding K1 when the trace
   carries K1's history signature.
"""
import os
import random

from .. import tlc, tour
from ..framework import main, as_built

CFG = {
    'A': ({'t1': ['shell'], 't2': ['shell']}, {'t1': [[1]], 't2': [[]]}),
    'B': ({'t1': ['shell'], 't2': ['shell']}, {'t1': [[1]], 't2': [[1]]}),
    'C': ({'t1': ['shell'], 't2': ['flush', 'readw', 'clse']}, {'t1': [[1]], 't2': [[1]]}),
    'D': ({'t1': ['shell'], 't2': []}, {'t1': [[]], 't2': []}),
    'E': ({'t1': ['shell'], 't2': ['shell'], 't3': ['shell']}, {'t1': [[1]], 't2': [[]], 't3': [[1]]}),
    'F': ({'t1': ['shell'], 't2': tour.LIST2}, {'t1': [[1, 2]], 't2': [[1, 2]]}),
    'G': ({'t1': ['flush', 'readw', 'clse'], 't2': ['flush', 'readw', 'clse']}, {'t1': [[1]], 't2': [[1]]}),
    'H': ({'t1': ['shell'], 't2': tour.PUSH2}, {'t1': [[]], 't2': [[], [1]]}),
    'I': ({'t1': ['flush', 'readw', 'clse'], 't2': tour.PUSH2}, {'t1': [[1]], 't2': [[], [1]]}),
    'J': ({'t1': tour.PUSH2, 't2': tour.PUSH2}, {'t1': [[], [1]], 't2': [[], [1]]}),
    'K': ({'t1': tour.PUSH2, 't2': ['flush', 'readw', 'clse'], 't3': ['flush', 'readw', 'clse']}, {'t1': [[], [1]], 't2': [[1]], 't3': [[1]]}),
    # exploration only (no model counterpart): a pull whose local sink raises while the device still has a WRITE in flight, next to other operations
    'L': ({'t1': tour.PULLFAIL, 't2': ['shell']}, {'t1': [[]], 't2': [[1, 2]]}),
    'M': ({'t1': tour.PULLFAIL, 't2': ['shell'], 't3': ['flush', 'readw', 'clse']}, {'t1': [[]], 't2': [[1]], 't3': [[1]]}),
}
INV = ('MonitorOK', 'Complete', 'NoCrossTalk', 'NoStuck', 'LockDiscipline')


def expected_value(p, t, replies):
    if p == ['shell']:
        return b''.join(tour.payload_of(t, i) for i in replies[t][0])
    if p == []:
        return None
    i = sorted(replies).index(t)
    if p == tour.LIST2:
        return [(('e-' + t).encode(), i + 1, 10 + i, 100 + i)]
    if p in (tour.PUSH2, tour.PUSH2FAIL):
        return None
    return (0o100000 + i + 1, 11 * (i + 1), 1000 + i)


def design(ctx, names, k1_open, f5_open):
    K1b, F5b, REG = as_built()
    for n in names:
        prog, rep = CFG[n]
        r = tour.host_run(prog, rep, False, False, invariants=INV)
        ctx.add_tlc(r, 'AdbHost %s intended (put keeps every CLSE)' % n)
        if r.violations:
            raise tlc.TlcError('the intended design violates %s in config %s:\n%s' % (r.violations[0]['name'], n, '\n'.join(r.violations[0]['trace'][-2:])))
        # as built: put drops a CLSE for an unknown pair; since the repair of K1 a live-stream registry keeps it for open streams
        r = tour.host_run(prog, rep, K1b, F5b, invariants=INV, registry=REG)
        ctx.add_tlc(r, 'AdbHost %s as-built (DEV_K1=%s DEV_F5=%s REGISTRY=%s)' % (n, K1b, F5b, REG))
        for v in r.violations:
            rp = dict(kind='design-counterexample', config=n, steps=len(v['trace']), last_state=v['trace'][-1][:1500])
            if v['name'] in ('NoStuck', 'Deadlock') and k1_open:
                ctx.violation('C06.NoStuck(design)', rp, finding='K1')
            else:
                ctx.violation('C06.%s(design)' % v['name'], rp)
                return
        ctx.extra.setdefault('as_built_design_violations', {})[n] = [v['name'] for v in r.violations]
    # a slow device: one operation's wait times out (it raises and abandons its stream, whose packets keep arriving); the others
    # still get exactly their own packets and complete
    for n in (['A', 'C'] if len(names) <= 4 else ['A', 'B', 'C', 'D']):
        prog, rep = CFG[n]
        for who in sorted(prog):
            r = tour.host_run(prog, rep, K1b, F5b, invariants=('MonitorOK', 'Complete', 'NoCrossTalk', 'LockDiscipline', 'GaveUpOnly'), registry=REG, giveup=(who,))
            ctx.add_tlc(r, 'AdbHost %s as-built, the wait of %s may time out' % (n, who))
            for v in r.violations:
                ctx.violation('C06.%s(design, with a timed-out operation)' % v['name'], dict(kind='design-counterexample', config=n, gives_up=who, steps=len(v['trace']), last_state=v['trace'][-1][:1500]))
                return
    # non-vacuity: without the registry the dropping put() does get stuck (the pinned tree's design, finding K1)
    prog, rep = CFG['A']
    r = tour.host_run(prog, rep, True, False, invariants=INV, registry=False)
    ctx.add_tlc(r, 'AdbHost A with the dropping put() and no registry (sanity mutation: must violate NoStuck)')
    if not any(v['name'] in ('NoStuck', 'Deadlock') for v in r.violations):
        raise tlc.TlcError('vacuity: the K1 design does not get stuck')
    ctx.extra['k1_design_witness_steps'] = len(r.violations[0]['trace'])


def liveness(ctx, n):
    prog, rep = CFG[n]
    r = tour.host_run(prog, rep, False, False, invariants=(), properties=('EventuallyDone',), spec='FairSpec', deadlock=False)
    ctx.add_tlc(r, 'AdbHost %s intended, EventuallyDone under weak fairness' % n)
    if r.violations:
        raise tlc.TlcError('the intended design violates EventuallyDone in config %s' % n)


def do_tour(ctx, n, k1, f5, modes):
    prog, rep = CFG[n]
    K1b, F5b, REG = as_built()
    r = tour.host_run(prog, rep, K1b, F5b, invariants=(), emit=True, deadlock=False, cached=True, registry=REG)
    ctx.add_tlc(r, 'AdbHost %s as-built edge stream' % n)
    g = tour.Graph(tlc.printed(r, 'EDGE'))
    paths = g.tour()
    info = dict(config=n, edges=len(g.edges), states=len(g.states), paths=len(paths), steps=sum(map(len, paths)), conform={})
    results = tour.replay_tour_parallel([(mode, prog, rep, paths) for mode in modes], procs=12)
    for mode, (k, steps, bad) in zip(modes, results):
        info['conform'][mode] = dict(paths_replayed=k, steps=steps, mismatches=len(bad))
        ctx.count(evaluations=steps, distinct=len(g.edges))
        if bad:
            b = bad[0]
            ctx.design_drift('config %s %s: real state differs from the as-built model after step %d (%s): real=%s model=%s' % (
                n, mode, b['step'], b['act'], b.get('real'), b.get('model')))
    ctx.extra.setdefault('design_conformance', []).append(info)


def _explore_one(task):
    name, mode, seed = task
    prog, rep = CFG[name]
    res = tour.explore(mode, prog, rep, 1, random.Random(seed), write_yield=(seed % 3 == 0), line_yield=(seed % 4 == 1))
    tr, info = res[0]
    info.update(config=name, mode=mode, seed=seed, write_yield=(seed % 3 == 0), line_yield=(seed % 4 == 1 and mode == 'sync'))
    info['results'] = {t: (r_ if r_ is None or r_[0] == 'ret' else ('exc', repr(r_[1]))) for t, r_ in info.get('results', {}).items()}
    tr = [{k: v for k, v in e.items() if not k.startswith('_')} for e in tr]
    return tr, info


def do_explore(ctx, rng, n, names, modes):
    runs = []
    for i in range(n):
        name = names[i % len(names)]
        mode = modes[(i // len(names)) % len(modes)]
        prog, rep = CFG[name]
        runs.append((name, mode, rng.randrange(1 << 30)))
    # overlapping FileSync transactions need the preemption point inside push (local read): extra schedules with it always on
    for i in range(n // 4):
        runs.append((('K', 'J', 'I')[i % 3], modes[i % len(modes)], 3 * rng.randrange(1 << 28)))
    # a failing local sink next to other operations: line-level preemption inside read() and the store is what matters there
    for i in range(n // 4):
        runs.append((('L', 'M')[i % 2], modes[i % len(modes)], 4 * rng.randrange(1 << 28) + 1))
    traces, infos = [], []
    by = {}
    for name, mode, seed in runs:
        by.setdefault((name, mode), []).append(seed)
    # the schedules are independent of each other: dealt to forked workers (each explores on its own interpreter state)
    import multiprocessing as mp
    tasks = [(name, mode, seed) for (name, mode), seeds in by.items() for seed in seeds]
    with mp.get_context('fork').Pool(12) as pool:
        for tr, info in pool.map(_explore_one, tasks, chunksize=8):
            traces.append(tr)
            infos.append(info)
    ver, r = tlc.validate_traces('TraceEnv', traces)
    ctx.add_tlc(r, 'TraceEnv over %d explored schedules' % len(traces))
    okn = 0
    hist = {}
    for (i, l, v) in ver:
        hist[v] = hist.get(v, 0) + 1
        info = infos[i]
        prog, rep = CFG[info['config']]
        rp = dict(kind='schedule', config=info['config'], mode=info['mode'], seed=info['seed'], schedule=info['schedule'], write_yield=info['write_yield'], line_yield=info['line_yield'])
        if v == 'ok':
            # results of operations without content in the trace: same as alone
            bad = None
            for t, p in prog.items():
                res = info['results'].get(t)
                want = expected_value(p, t, rep)
                got = res[1] if res else None
                if p == tour.LIST2 and isinstance(got, list):
                    got = [(bytes(x[0]), x[1], x[2], x[3]) for x in got]
                if p == tour.PULLFAIL:
                    if res is None or res[0] != 'exc' or 'No space left' not in str(res[1]):
                        bad = (t, repr(res), "OSError: the local sink's own error")
                    continue
                if res is None or res[0] != 'ret' or (p != ['shell'] and got != want):
                    if p in ([],) and res and res[0] == 'ret':
                        continue
                    bad = (t, repr(res), repr(want))
            # what the device received from each pushing thread must be that thread's own file
            for t, p in prog.items():
                if p == tour.PUSH2 and not bad:
                    ti = sorted(prog).index(t)
                    want_data = bytes((x * (ti + 3) + ti) % 251 for x in range(40))
                    recs = info.get('pushed', {}).get(info['lids'].get(t), [])
                    if len(recs) != 1 or recs[0][1] != want_data or recs[0][2]:
                        bad = (t, 'device received %r' % (recs[:1],), 'its own 40 bytes')
            if bad:
                ctx.violation('C06.SameAsAlone', dict(rp, thread=bad[0], got=bad[1], expected=bad[2]))
            else:
                okn += 1
        elif v == 'C06.Stuck.K1':
            ctx.violation(v, dict(rp, failing_event=l - 1, events=[e for e in traces[i] if e['ev'] in ('rd', 'stuck')][-8:]), finding='K1')
        elif v.startswith('ENV.'):
            raise tlc.TlcError('environment clause %s' % v)
        else:
            ctx.violation(v, dict(rp, failing_event=l - 1, events=traces[i][max(0, l - 8):l]))
    ctx.count(traces=okn, evaluations=len(traces))
    ctx.extra['explored_schedules'] = len(traces)
    ctx.extra['verdict_histogram'] = hist
    ctx.sample(dict(kind='schedule', config=infos[0]['config'], mode=infos[0]['mode'], schedule=infos[0]['schedule'][:25]))


def interleaved_generators(ctx, rng):
    """Cooperative concurrency in ONE thread / task: several streaming_shell generators over distinct streams are advanced in
    random order (plus whole operations in between), while the device sends any ready stream's packet next.  Each generator
    must yield exactly its own stream's payloads.  One scenario keeps a stream open across many abandoned streams."""
    from .. import env, simdev
    n = 0

    def scenario(mode, seed, nabandon):
        r = random.Random(seed)
        from .. import scen as scen_
        dev = simdev.SimDevice(chooser=simdev.Seeded(seed), seed=seed, rid_of=scen_.rid_fn(('plus', 'mirror', 'same', 'random')[seed % 4], seed))
        scripts = {}
        names = ['g%d' % i for i in range(r.randint(2, 4))]
        for nm in names:
            scripts[nm] = [('%s#%d;' % (nm, j)).encode() for j in range(r.randint(0, 4))]
            dev.shell_scripts[b'shell:' + nm.encode()] = scripts[nm]
            if r.random() < 0.3:
                dev.zero_dest[b'shell:' + nm.encode()] = r.choice(['a0', 'a1'])     # a legacy adbd service: its data packets carry one zero id
        for j in range(nabandon):
            dev.shell_scripts[b'shell:ab%d' % j] = [b'x']
        dev.service_for = lambda dest, d: (simdev.ShellService([b'x'], close=False) if dest.startswith(b'shell:ab') else None)
        dev.shell_scripts[b'shell:whole'] = [b'w1', b'w2']
        sess = env.Session(mode, dev)
        sess.call('connect')
        got = {nm: [] for nm in names}
        errors = []
        leaks0 = len(env.LOCK_LEAKS)
        if seed % 3 == 0:
            # the cyclic garbage collector runs at an arbitrary allocation - for instance inside a bulk_read, while the transport lock is held -
            # and finalises generators the caller has dropped (here: abandoned streams kept in reference cycles)
            import gc
            orig_read = sess.core.read
            cnt = {'n': 0}

            def read_gc(n_, t_):
                cnt['n'] += 1
                if cnt['n'] % 3 == 0:
                    gc.collect()
                return orig_read(n_, t_)
            sess.core.read = read_gc

        def drop_in_cycle(g_):
            box = {'g': g_}
            box['self'] = box

        def tick():
            if seed % 5 == 0 and r.random() < 0.3:
                sess.clock.advance(r.choice([61.0, 7200.0]))     # the owner of a stream does not come back to it for a long time
        if mode == 'sync':
            gens = {nm: iter(sess.device.streaming_shell(nm, decode=False, read_timeout_s=2.0)) for nm in names}
            live = list(names)
            opened_abandoned = 0
            steps = 0
            while live and steps < 500:
                steps += 1
                if opened_abandoned < nabandon and len(got[names[0]]) >= 1 or (opened_abandoned < nabandon and not scripts[names[0]]):
                    g = iter(sess.device.streaming_shell('ab%d' % opened_abandoned, decode=False, read_timeout_s=2.0))
                    try:
                        next(g)
                    except Exception as e:  # noqa
                        errors.append(('abandoned', repr(e)))
                    drop_in_cycle(g)
                    del g
                    opened_abandoned += 1
                    continue
                tick()
                c = r.random()
                if c < 0.15:
                    try:
                        v = sess.device.shell('whole', decode=False, read_timeout_s=2.0)
                        if v != b'w1w2':
                            errors.append(('whole', repr(v)))
                    except Exception as e:  # noqa
                        errors.append(('whole', repr(e)))
                    continue
                nm = r.choice(live)
                try:
                    got[nm].append(next(gens[nm]))
                except StopIteration:
                    live.remove(nm)
                except Exception as e:  # noqa
                    errors.append((nm, repr(e)))
                    live.remove(nm)
        else:
            async def go():
                gens = {nm: sess.device.streaming_shell(nm, decode=False, read_timeout_s=2.0).__aiter__() for nm in names}
                live = list(names)
                opened = 0
                steps = 0
                while live and steps < 500:
                    steps += 1
                    if opened < nabandon and (len(got[names[0]]) >= 1 or not scripts[names[0]]):
                        g = sess.device.streaming_shell('ab%d' % opened, decode=False, read_timeout_s=2.0).__aiter__()
                        try:
                            await g.__anext__()
                        except Exception as e:  # noqa
                            errors.append(('abandoned', repr(e)))
                        opened += 1
                        continue
                    tick()
                    c = r.random()
                    if c < 0.15:
                        try:
                            v = await sess.device.shell('whole', decode=False, read_timeout_s=2.0)
                            if v != b'w1w2':
                                errors.append(('whole', repr(v)))
                        except Exception as e:  # noqa
                            errors.append(('whole', repr(e)))
                        continue
                    nm = r.choice(live)
                    try:
                        got[nm].append(await gens[nm].__anext__())
                    except StopAsyncIteration:
                        live.remove(nm)
                    except Exception as e:  # noqa
                        errors.append((nm, repr(e)))
                        live.remove(nm)
            sess.rebind_clock()
            sess.loop.run_until_complete(go())
        sess.close_loop()
        bad = [(nm, got[nm], scripts[nm]) for nm in names if got[nm] != scripts[nm]]
        if len(env.LOCK_LEAKS) > leaks0:
            # in a single thread a lock requested while it is held can never be granted: with real locks this is a deadlock
            errors.append(('deadlock', 'a lock was requested while the same thread held it: ' + env.LOCK_LEAKS[-1][-300:]))
        return bad, errors

    def long_lived(mode, nabandon, rid='plus', complete=False):
        """Stream A stays open (its CLSE withheld) while `nabandon` other streams are opened and abandoned (or, with complete=True, run to
        their end); then another operation's reader reads A's CLSE off the wire; A must still end normally.  With rid='mirror' the
        second stream's (local id, remote id) is the mirror image of A's."""
        from .. import scen as scen_
        dev = simdev.SimDevice(chooser=simdev.First(), rid_of=scen_.rid_fn(rid, 1))
        dev.shell_scripts[b'shell:long'] = [b'A1']
        dev.shell_scripts[b'shell:whole'] = [b'w1']
        dev.service_for = lambda dest, d: (simdev.ShellService([b'x'], close=False) if dest.startswith(b'shell:ab') else None)
        sess = env.Session(mode, dev)
        sess.call('connect')
        out = {}
        if mode == 'sync':
            ga = iter(sess.device.streaming_shell('long', decode=False, read_timeout_s=2.0))
            out['first'] = next(ga)
            dev.frozen = {dev.all_streams[0].lid}
            for j in range(nabandon):
                if complete:
                    sess.device.shell('whole', decode=False, read_timeout_s=2.0)
                else:
                    next(iter(sess.device.streaming_shell('ab%d' % j, decode=False, read_timeout_s=2.0)))
            dev.frozen = set()
            out['whole'] = sess.device.shell('whole', decode=False, read_timeout_s=2.0)
            try:
                out['rest'] = list(ga)
            except Exception as e:  # noqa
                out['rest'] = repr(e)
        else:
            async def go():
                ga = sess.device.streaming_shell('long', decode=False, read_timeout_s=2.0).__aiter__()
                out['first'] = await ga.__anext__()
                dev.frozen = {dev.all_streams[0].lid}
                for j in range(nabandon):
                    if complete:
                        await sess.device.shell('whole', decode=False, read_timeout_s=2.0)
                    else:
                        await sess.device.streaming_shell('ab%d' % j, decode=False, read_timeout_s=2.0).__aiter__().__anext__()
                dev.frozen = set()
                out['whole'] = await sess.device.shell('whole', decode=False, read_timeout_s=2.0)
                try:
                    out['rest'] = [x async for x in ga]
                except Exception as e:  # noqa
                    out['rest'] = repr(e)
            sess.rebind_clock()
            sess.loop.run_until_complete(go())
        sess.close_loop()
        return out

    def across_reconnect(mode, with_close, k):
        """A generator of the previous connection is still being consumed after the caller reconnected (the device side restarted and
        numbers its streams from the start again); the operations of the new connection must get exactly their own output."""
        dev = simdev.SimDevice(chooser=simdev.Seeded(k), seed=k)
        dev.shell_scripts[b'shell:old'] = [b'A1;', b'A2;', b'A3;']
        dev.shell_scripts[b'shell:new'] = [b'B1;', b'B2;']
        dev.shell_scripts[b'shell:whole'] = [b'w1;', b'w2;']
        sess = env.Session(mode, dev)
        sess.call('connect')
        out = dict(new=[], old=[], whole=None)

        def drive_sync():
            ga = iter(sess.device.streaming_shell('old', decode=False, read_timeout_s=2.0))
            out['old'].append(next(ga))
            if with_close:
                sess.device.close()
            sess.device.connect()
            gb = iter(sess.device.streaming_shell('new', decode=False, read_timeout_s=2.0))
            order = ['b', 'a', 'w', 'b', 'a', 'b'] if k % 2 else ['a', 'b', 'b', 'w', 'a', 'b']
            for who in order:
                try:
                    if who == 'w':
                        out['whole'] = sess.device.shell('whole', decode=False, read_timeout_s=2.0)
                    elif who == 'a':
                        out['old'].append(next(ga))
                    else:
                        out['new'].append(next(gb))
                except StopIteration:
                    pass
                except Exception as e:  # noqa
                    out.setdefault('errors', []).append((who, type(e).__name__))

        async def drive_async():
            ga = sess.device.streaming_shell('old', decode=False, read_timeout_s=2.0).__aiter__()
            out['old'].append(await ga.__anext__())
            if with_close:
                await sess.device.close()
            await sess.device.connect()
            gb = sess.device.streaming_shell('new', decode=False, read_timeout_s=2.0).__aiter__()
            order = ['b', 'a', 'w', 'b', 'a', 'b'] if k % 2 else ['a', 'b', 'b', 'w', 'a', 'b']
            for who in order:
                try:
                    if who == 'w':
                        out['whole'] = await sess.device.shell('whole', decode=False, read_timeout_s=2.0)
                    elif who == 'a':
                        out['old'].append(await ga.__anext__())
                    else:
                        out['new'].append(await gb.__anext__())
                except StopAsyncIteration:
                    pass
                except Exception as e:  # noqa
                    out.setdefault('errors', []).append((who, type(e).__name__))
        sess.rebind_clock()
        if mode == 'sync':
            drive_sync()
        else:
            sess.loop.run_until_complete(drive_async())
        sess.close_loop()
        return out

    def failed_reconnect(mode, k):
        """Packets of a held generator are parked, then the caller reconnects (without close()) and the transport cannot connect: the old
        connection is gone, so nothing that was parked on it may still be handed out - not to the generator left over from it either."""
        dev = simdev.SimDevice(chooser=simdev.Seeded(k), seed=k)
        dev.eager = True
        dev.shell_scripts[b'shell:old'] = [b'A1;', b'A2;', b'A3;']
        dev.shell_scripts[b'shell:whole'] = [b'w1;', b'w2;']
        sess = env.Session(mode, dev)
        sess.call('connect')
        out = dict(old=[], whole=None, after=[], errors=[])

        def arm():
            sess.core.fault.only = ('connect',)
            for j in range(sess.core.ncalls, sess.core.ncalls + 4):
                sess.core.fault.at[j] = ('timeout', 'oserr')[k % 2]

        def drive_sync():
            ga = iter(sess.device.streaming_shell('old', decode=False, read_timeout_s=2.0))
            out['old'].append(next(ga))
            out['whole'] = sess.device.shell('whole', decode=False, read_timeout_s=2.0)       # reads (and parks) what the old stream still sends
            out['parked_before'] = len(sess.device._io_manager._packet_store)
            arm()
            try:
                sess.device.connect()
            except Exception as e:  # noqa
                out['errors'].append(('connect', type(e).__name__))
            out['parked_after'] = len(sess.device._io_manager._packet_store)
            for _ in range(3):
                try:
                    out['after'].append(next(ga))
                except StopIteration:
                    break
                except Exception as e:  # noqa
                    out['errors'].append(('a', type(e).__name__))
                    break

        async def drive_async():
            ga = sess.device.streaming_shell('old', decode=False, read_timeout_s=2.0).__aiter__()
            out['old'].append(await ga.__anext__())
            out['whole'] = await sess.device.shell('whole', decode=False, read_timeout_s=2.0)
            out['parked_before'] = len(sess.device._io_manager._packet_store)
            arm()
            try:
                await sess.device.connect()
            except Exception as e:  # noqa
                out['errors'].append(('connect', type(e).__name__))
            out['parked_after'] = len(sess.device._io_manager._packet_store)
            for _ in range(3):
                try:
                    out['after'].append(await ga.__anext__())
                except StopAsyncIteration:
                    break
                except Exception as e:  # noqa
                    out['errors'].append(('a', type(e).__name__))
                    break
        sess.rebind_clock()
        if mode == 'sync':
            drive_sync()
        else:
            sess.loop.run_until_complete(drive_async())
        sess.close_loop()
        return out

    def strays_before_wanted(mode, k):
        """What a held generator waits for lies parked under one of its legacy zero-id pairs, behind stray packets (commands it does not
        expect: they are dropped) that head its other pairs; another operation read and parked all of them.  Dropping the strays must
        not make the generator overlook the packet it waits for."""
        from .. import wire as wire_
        dev = simdev.SimDevice(chooser=simdev.Seeded(k), seed=k)
        dev.shell_scripts[b'shell:old'] = [b'A1;', b'never;']
        dev.shell_scripts[b'shell:whole'] = [b'w1;', b'w2;']
        sess = env.Session(mode, dev)
        sess.call('connect')
        out = dict(old=[], whole=None, errors=[])
        orders = [[('OKAY', 'R', 'L'), ('OKAY', 'R', 0), ('WRTE', 0, 'L')], [('OKAY', 'R', 0), ('OKAY', 'R', 'L'), ('WRTE', 0, 'L')], [('OKAY', 'R', 'L'), ('OKAY', 0, 'L'), ('WRTE', 'R', 0)],
                  [('OKAY', 0, 'L'), ('OKAY', 'R', 'L'), ('OKAY', 'R', 'L'), ('WRTE', 'R', 0)]]

        def inject():
            st = dev.all_streams[-1]
            dev.frozen = set([st.lid])                   # the service itself says nothing more
            for (cmd, a0, a1) in orders[k % len(orders)]:
                a0_, a1_ = (st.rid if a0 == 'R' else 0), (st.lid if a1 == 'L' else 0)
                dev.put(wire_.frame(cmd, a0_, a1_, b'A2;' if cmd == 'WRTE' else b''), lid=st.lid, sl=st.lid)

        def drive_sync():
            ga = iter(sess.device.streaming_shell('old', decode=False, read_timeout_s=2.0))
            out['old'].append(next(ga))
            inject()
            out['whole'] = sess.device.shell('whole', decode=False, read_timeout_s=2.0)
            try:
                out['old'].append(next(ga))
            except Exception as e:  # noqa
                out['errors'].append(type(e).__name__)

        async def drive_async():
            ga = sess.device.streaming_shell('old', decode=False, read_timeout_s=2.0).__aiter__()
            out['old'].append(await ga.__anext__())
            inject()
            out['whole'] = await sess.device.shell('whole', decode=False, read_timeout_s=2.0)
            try:
                out['old'].append(await ga.__anext__())
            except Exception as e:  # noqa
                out['errors'].append(type(e).__name__)
        sess.rebind_clock()
        if mode == 'sync':
            drive_sync()
        else:
            sess.loop.run_until_complete(drive_async())
        sess.close_loop()
        return out

    def cancel_anywhere(bop, k):
        """Two tasks on one device; task B is cancelled at the k-th turn of the event loop at which the byte streams are at a message
        boundary in both directions (so the cancellation itself breaks no framing) - wherever B happens to be suspended then, not
        only inside a transport call.  Task A must still complete with its own output."""
        import asyncio
        dev = simdev.SimDevice(chooser=simdev.Seeded(k), seed=k)
        dev.shell_scripts[b'shell:a'] = [b'A1;', b'A2;', b'A3;']
        dev.shell_scripts[b'shell:b'] = [b'B1;', b'B2;']
        dev.fs.add('/f', b'x' * 9000)
        sess = env.Session('async', dev)
        sess.core.yield_io = True
        sess.call('connect')
        out = dict(a=None, b=None, cancelled_at=None)
        d = sess.device
        env.set_locks(d, asyncio.Lock)     # two tasks: real locks

        async def main():
            async def A():
                out['a'] = await d.shell('a', decode=False, read_timeout_s=2.0)

            async def B():
                if bop == 'shell':
                    out['b'] = await d.shell('b', decode=False, read_timeout_s=2.0)
                elif bop == 'stat':
                    out['b'] = await d.stat('/f', read_timeout_s=2.0)
                else:
                    import io
                    await d.pull('/f', io.BytesIO(), read_timeout_s=2.0)
            ta, tb = asyncio.ensure_future(A()), asyncio.ensure_future(B())

            async def canceller():
                n_ = 0
                while not tb.done():
                    await asyncio.sleep(0)
                    if not (sess.core.cur or sess.core.cur_rest or sess.core.hbuf):
                        n_ += 1
                        if n_ >= k:
                            out['cancelled_at'] = n_
                            tb.cancel()
                            return
            tc = asyncio.ensure_future(canceller())
            for t_ in (ta, tb, tc):
                try:
                    await t_
                except asyncio.CancelledError:
                    pass
                except Exception as e:  # noqa
                    out.setdefault('errors', []).append((('a', 'b', 'c')[(ta, tb, tc).index(t_)], type(e).__name__))
        sess.rebind_clock()
        sess.loop.run_until_complete(main())
        sess.close_loop()
        return out

    def two_devices(mode, k):
        """Two device objects alive in one process, each with its own device; both number their streams from 1, so their (remote id,
        local id) pairs coincide.  Nothing one object reads or parks may reach the other."""
        devs, sesss = [], []
        for d in range(2):
            dev = simdev.SimDevice(chooser=simdev.Seeded(k + d), seed=k)
            tag = b'AB'[d:d + 1]
            dev.shell_scripts[b'shell:x'] = [tag + b'1;', tag + b'2;', tag + b'3;']
            dev.shell_scripts[b'shell:whole'] = [tag + b'w1;', tag + b'w2;']
            devs.append(dev)
            sesss.append(env.Session(mode, dev, clock=sesss[0].clock if sesss else None))
        out = {'A': [], 'B': [], 'wholeA': None, 'wholeB': None}

        def step(d, g):
            s_ = sesss[d]
            s_.rebind_clock()
            return next(g) if mode == 'sync' else s_.loop.run_until_complete(g.__anext__())

        def call(d, api, *a, **kw):
            s_ = sesss[d]
            s_.rebind_clock()
            f = getattr(s_.device, api)
            return f(*a, **kw) if mode == 'sync' else s_.loop.run_until_complete(f(*a, **kw))
        try:
            for d in range(2):
                assert call(d, 'connect') is True
            gens = []
            for d in range(2):
                g = sesss[d].device.streaming_shell('x', decode=False, read_timeout_s=2.0)
                gens.append(iter(g) if mode == 'sync' else g.__aiter__())
            order = [(0, 'g'), (1, 'g'), (0, 'w'), (1, 'g'), (1, 'w'), (0, 'g'), (0, 'g'), (1, 'g')] if k % 2 == 0 else [(1, 'g'), (0, 'g'), (1, 'w'), (0, 'w'), (0, 'g'), (1, 'g'), (1, 'g'), (0, 'g')]
            for d, what in order:
                try:
                    if what == 'g':
                        out['AB'[d]].append(step(d, gens[d]))
                    else:
                        out['whole' + 'AB'[d]] = call(d, 'shell', 'whole', decode=False, read_timeout_s=2.0)
                except (StopIteration, StopAsyncIteration):
                    pass
                except Exception as e:  # noqa
                    out.setdefault('errors', []).append(('AB'[d], what, type(e).__name__))
        finally:
            for s_ in sesss:
                s_.close_loop()
        return out

    for mode in ('sync', 'async'):
        for k in range(4):
            out = two_devices(mode, k)
            n += 1
            want = {'A': [b'A1;', b'A2;', b'A3;'], 'B': [b'B1;', b'B2;', b'B3;'], 'wholeA': b'Aw1;Aw2;', 'wholeB': b'Bw1;Bw2;'}
            if out != want:
                ctx.violation('C06.SameAsAlone', dict(kind='two device objects alive at once, streams with coinciding ids', mode=mode, variant=k, observed={a: repr(b)[:100] for a, b in out.items()}))
    # design: a task is cancelled at an await while the streams are at a message boundary (AdbCancel); the sanity mutation (a yield with
    # a packet in hand) must lose a packet
    for (tasks, per, mut) in (('{"a","b"}', 2, False), ('{"a","b","c"}', 2, False), ('{"a","b"}', 3, False), ('{"a","b"}', 2, True)):
        cfg_ = tlc.cfg_text(constants={'Tasks': tasks, 'PerStream': str(per), 'YieldAfterRead': 'TRUE' if mut else 'FALSE'}, invariants=['NoLoss', 'LockOwnerAlive', 'Drained'], deadlock=False)
        r_ = tlc.cached_run('AdbCancel', cfg_, depends=('AdbCancel',))
        ctx.add_tlc(r_, 'AdbCancel tasks=%s x %d packets%s' % (tasks, per, ' sanity mutation YieldAfterRead (must violate)' if mut else ''))
        if mut and not r_.violations:
            raise tlc.TlcError('vacuity: AdbCancel with a yield after the read does not lose a packet')
        if not mut and r_.violations:
            ctx.violation('C06.' + r_.violations[0]['name'] + '(design)', dict(kind='design-counterexample', spec='AdbCancel', trace=r_.violations[0]['trace'][-3:]))
    ncancel = 0
    for bop in ('shell', 'stat', 'pull'):
        for k in range(1, 40 if ctx.quick else 120):
            out = cancel_anywhere(bop, k)
            if os.environ.get('DBG06'):
                print(bop, k, out)
            n += 1
            ncancel += 1 if out['cancelled_at'] else 0
            if out['a'] != b'A1;A2;A3;' or any(e_[0] == 'a' for e_ in out.get('errors', [])):
                ctx.violation('C06.SameAsAlone', dict(kind='another task on the device is cancelled at a message boundary, wherever it is suspended', cancelled_operation=bop, loop_turn=k,
                                                      observed={a: repr(b)[:120] for a, b in out.items()}))
                break
            if not out['cancelled_at']:
                break             # B finished before the k-th turn: later turns do not exist
    ctx.extra['cancellations_at_arbitrary_suspension_points'] = ncancel
    for mode in ('sync', 'async'):
        for k in range(4):
            out = strays_before_wanted(mode, k)
            n += 1
            if out != dict(old=[b'A1;', b'A2;'], whole=b'w1;w2;', errors=[]):
                ctx.violation('C06.SameAsAlone', dict(kind='the packet a held generator waits for is parked under a zero-id pair, behind stray packets heading its other pairs', mode=mode, variant=k,
                                                      observed={a: repr(b)[:120] for a, b in out.items()}))
    for mode in ('sync', 'async'):
        for k in range(4):
            out = failed_reconnect(mode, k)
            n += 1
            if out['after'] or out.get('parked_after') or not any(e_[0] == 'connect' for e_ in out['errors']):
                ctx.violation('C06.SameAsAlone', dict(kind='a reconnect that fails at transport.connect() while packets of a held generator are parked: they belong to a connection that is gone',
                                                      mode=mode, variant=k, observed={a: repr(b)[:120] for a, b in out.items()}))
    for mode in ('sync', 'async'):
        for with_close in (True, False):
            for k in range(4):
                out = across_reconnect(mode, with_close, k)
                n += 1
                errs_new = [e for e in out.get('errors', []) if e[0] != 'a']
                stale_got_foreign = any(not bytes(x).startswith(b'A') for x in out['old'])
                if out['new'] != [b'B1;', b'B2;'] or out['whole'] != b'w1;w2;' or errs_new or stale_got_foreign:
                    ctx.violation('C06.SameAsAlone', dict(kind='operations of a new connection next to a generator left over from the previous one', mode=mode, close_before_connect=with_close,
                                                          order_variant=k, observed={a: repr(b)[:120] for a, b in out.items()}))
    for mode in ('sync', 'async'):
        for (nab, rid, complete) in ((0, 'plus', False), (3, 'plus', False), (70, 'plus', False), (300, 'plus', False), (1, 'mirror', True), (2, 'mirror', True), (1, 'same', True), (3, 'mirror', False)):
            out = long_lived(mode, nab, rid, complete)
            n += 1
            if out != dict(first=b'A1', whole=b'w1', rest=[]):
                ctx.violation('C06.SameAsAlone', dict(kind='a stream kept open across %d %s streams (remote ids: %s), its CLSE read by another operation' % (nab, 'completed' if complete else 'abandoned', rid), mode=mode, observed={k: repr(v)[:80] for k, v in out.items()}))
    cases = [(m, ctx.seed * 100 + k, 2 if k % 3 == 0 else 0) for k in range(30 if ctx.quick else 600) for m in ('sync', 'async')] + [(m, ctx.seed + 7, 70) for m in ('sync', 'async')]
    for (mode, seed, nab) in cases:
        bad, errors = scenario(mode, seed, nab)
        n += 1
        if bad or errors:
            ctx.violation('C06.NoDeadlock' if any(e_[0] == 'deadlock' for e_ in errors) else 'C06.SameAsAlone', dict(kind='interleaved generators in one %s' % ('thread' if mode == 'sync' else 'task'), mode=mode, seed=seed, abandoned_streams=nab,
                                                  wrong=[(a, [bytes(x) for x in b][:5], c[:5]) for a, b, c in bad][:3], errors=errors[:3]))
            if len(ctx.violations) >= 3:
                break
    ctx.count(evaluations=n)
    ctx.extra['interleaved_generator_scenarios'] = n


def replay(ctx):
    import json
    d = json.load(open(ctx.replay))['replay']
    prog, rep = CFG[d['config']]
    tr, info = tour.replay_schedule(d['mode'], prog, rep, d['schedule'], write_yield=d.get('write_yield', False), line_yield=d.get('line_yield', False))
    ver, r = tlc.validate_traces('TraceEnv', [tr])
    print('replayed: verdict', ver[0][2], 'results', info['results'])
    if ver[0][2] != 'ok':
        ctx.violation(ver[0][2], d, finding='K1' if ver[0][2].endswith('.K1') else None)


def body(ctx):
    if ctx.replay:
        return replay(ctx)
    rng = random.Random(ctx.seed)
    k1 = bool(ctx.open_finding('K1'))
    from ..framework import load_findings
    f5 = any(f.status == 'open' and f.fid == 'F5' for f in load_findings())
    design(ctx, ['A', 'B', 'C', 'D'] if ctx.quick else ['A', 'B', 'C', 'D', 'E', 'F', 'G', 'H'], k1, f5)
    liveness(ctx, 'A' if ctx.quick else 'C')
    do_tour(ctx, 'A', k1, f5, ['sync', 'async'])
    if not ctx.quick:
        do_tour(ctx, 'C', k1, f5, ['sync', 'async'])
        do_tour(ctx, 'B', k1, f5, ['sync', 'async'])
    interleaved_generators(ctx, rng)
    if ctx.violations:
        return
    do_explore(ctx, rng, 900 if ctx.quick else 20000, ['A', 'B', 'C', 'D', 'F', 'G', 'I', 'J', 'K'] if ctx.quick else ['A', 'B', 'C', 'D', 'E', 'F', 'G', 'H', 'I', 'J', 'K'], ['sync', 'async'])
    ctx.assumptions += ['preemption at lock acquisitions and at the first bulk_read of a frame (the critical sections of the design spec); in a quarter of the explored schedules of the threaded implementation also before every line of the packet store methods and of _AdbIOManager.read (sys.settrace), in a third before every bulk_write and local file read',
                        'device conforms to the Env model; it picks any ready stream next',
                        'design conformance (tour) is informative: a mismatch is reported as DESIGN-DRIFT, verdicts come only from TraceEnv clauses']


if __name__ == '__main__':
    main('C06', 'model_checking', body)
