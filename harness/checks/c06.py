"""C06 - concurrent streams are isolated: no cross-talk, loss, duplication or deadlock.

1. TLC explores the design spec AdbHost (critical-section granularity, device free to pick any ready stream)
   for 2-3 concurrent operations: the intended design satisfies MonitorOK / Complete / NoCrossTalk / NoStuck /
   LockDiscipline and deadlock freedom (and EventuallyDone under weak fairness); the as-built design (deviation
   constants of the open findings) exhibits the K1 stuck state - the finding's design-level witness.
2. spec->code: transition tour of the as-built 2-thread graph replayed into real threads (AdbDevice) and asyncio
   tasks (AdbDeviceAsync); projected real state compared with the model after every step (design conformance).
3. code->spec, independent of the design spec: random schedules of the real code (thread choice at every lock /
   transport boundary, device choice of the next packet), every execution validated by TLC against TraceEnv;
   an operation that cannot complete on a healthy device is C06.Stuck, or the known finding K1 when the trace
   carries K1's history signature.
"""
import random

from .. import tlc, tour
from ..framework import main, as_built

CFG = {
    'A': ({'t1': ['shell'], 't2': ['shell']}, {'t1': [[1]], 't2': [[]]}),
    'B': ({'t1': ['shell'], 't2': ['shell']}, {'t1': [[1]], 't2': [[1]]}),
    'C': ({'t1': ['shell'], 't2': ['flush', 'readw', 'clse']}, {'t1': [[1]], 't2': [[1]]}),
    'D': ({'t1': ['shell'], 't2': []}, {'t1': [[]], 't2': []}),
    'E': ({'t1': ['shell'], 't2': ['shell'], 't3': ['shell']}, {'t1': [[1]], 't2': [[]], 't3': [[1]]}),
    'F': ({'t1': ['shell'], 't2': tour.LIST2}, {'t1': [[1, 2]], 't2': [[1, 2]]}),
    'G': ({'t1': ['flush', 'readw', 'clse'], 't2': ['flush', 'readw', 'clse']}, {'t1': [[1]], 't2': [[1]]}),
    'H': ({'t1': ['shell'], 't2': tour.PUSH2}, {'t1': [[]], 't2': [[], [1]]}),
    'I': ({'t1': ['flush', 'readw', 'clse'], 't2': tour.PUSH2}, {'t1': [[1]], 't2': [[], [1]]}),
}
INV = ('MonitorOK', 'Complete', 'NoCrossTalk', 'NoStuck', 'LockDiscipline')


def expected_value(p, t, replies):
    if p == ['shell']:
        return b''.join(tour.payload_of(t, i) for i in replies[t][0])
    if p == []:
        return None
    i = sorted(replies).index(t)
    if p == tour.LIST2:
        return [(('e-' + t).encode(), i + 1, 10 + i, 100 + i)]
    if p in (tour.PUSH2, tour.PUSH2FAIL):
        return None
    return (0o100000 + i + 1, 11 * (i + 1), 1000 + i)


def design(ctx, names, k1_open, f5_open):
    K1b, F5b, REG = as_built()
    for n in names:
        prog, rep = CFG[n]
        r = tour.host_run(prog, rep, False, False, invariants=INV)
        ctx.add_tlc(r, 'AdbHost %s intended (put keeps every CLSE)' % n)
        if r.violations:
            raise tlc.TlcError('the intended design violates %s in config %s:\n%s' % (r.violations[0]['name'], n, '\n'.join(r.violations[0]['trace'][-2:])))
        # as built: put drops a CLSE for an unknown pair; since the repair of K1 a live-stream registry keeps it for open streams
        r = tour.host_run(prog, rep, K1b, F5b, invariants=INV, registry=REG)
        ctx.add_tlc(r, 'AdbHost %s as-built (DEV_K1=%s DEV_F5=%s REGISTRY=%s)' % (n, K1b, F5b, REG))
        for v in r.violations:
            rp = dict(kind='design-counterexample', config=n, steps=len(v['trace']), last_state=v['trace'][-1][:1500])
            if v['name'] in ('NoStuck', 'Deadlock') and k1_open:
                ctx.violation('C06.NoStuck(design)', rp, finding='K1')
            else:
                ctx.violation('C06.%s(design)' % v['name'], rp)
                return
        ctx.extra.setdefault('as_built_design_violations', {})[n] = [v['name'] for v in r.violations]
    # non-vacuity: without the registry the dropping put() does get stuck (the pinned tree's design, finding K1)
    prog, rep = CFG['A']
    r = tour.host_run(prog, rep, True, False, invariants=INV, registry=False)
    ctx.add_tlc(r, 'AdbHost A with the dropping put() and no registry (sanity mutation: must violate NoStuck)')
    if not any(v['name'] in ('NoStuck', 'Deadlock') for v in r.violations):
        raise tlc.TlcError('vacuity: the K1 design does not get stuck')
    ctx.extra['k1_design_witness_steps'] = len(r.violations[0]['trace'])


def liveness(ctx, n):
    prog, rep = CFG[n]
    r = tour.host_run(prog, rep, False, False, invariants=(), properties=('EventuallyDone',), spec='FairSpec', deadlock=False)
    ctx.add_tlc(r, 'AdbHost %s intended, EventuallyDone under weak fairness' % n)
    if r.violations:
        raise tlc.TlcError('the intended design violates EventuallyDone in config %s' % n)


def do_tour(ctx, n, k1, f5, modes):
    prog, rep = CFG[n]
    K1b, F5b, REG = as_built()
    r = tour.host_run(prog, rep, K1b, F5b, invariants=(), emit=True, deadlock=False, cached=True, registry=REG)
    ctx.add_tlc(r, 'AdbHost %s as-built edge stream' % n)
    g = tour.Graph(tlc.printed(r, 'EDGE'))
    paths = g.tour()
    info = dict(config=n, edges=len(g.edges), states=len(g.states), paths=len(paths), steps=sum(map(len, paths)), conform={})
    for mode in modes:
        k, steps, bad = tour.replay_tour(mode, prog, rep, paths)
        info['conform'][mode] = dict(paths_replayed=k, steps=steps, mismatches=len(bad))
        ctx.count(evaluations=steps, distinct=len(g.edges))
        if bad:
            b = bad[0]
            ctx.design_drift('config %s %s: real state differs from the as-built model after step %d (%s): real=%s model=%s' % (
                n, mode, b['step'], b['act'], b.get('real'), b.get('model')))
    ctx.extra.setdefault('design_conformance', []).append(info)


def do_explore(ctx, rng, n, names, modes):
    runs = []
    for i in range(n):
        name = names[i % len(names)]
        mode = modes[(i // len(names)) % len(modes)]
        prog, rep = CFG[name]
        runs.append((name, mode, rng.randrange(1 << 30)))
    traces, infos = [], []
    by = {}
    for name, mode, seed in runs:
        by.setdefault((name, mode), []).append(seed)
    for (name, mode), seeds in by.items():
        prog, rep = CFG[name]
        for seed in seeds:
            res = tour.explore(mode, prog, rep, 1, random.Random(seed), write_yield=(seed % 3 == 0), line_yield=(seed % 4 == 1))
            tr, info = res[0]
            info.update(config=name, mode=mode, seed=seed, write_yield=(seed % 3 == 0), line_yield=(seed % 4 == 1 and mode == 'sync'))
            traces.append(tr)
            infos.append(info)
    ver, r = tlc.validate_traces('TraceEnv', traces)
    ctx.add_tlc(r, 'TraceEnv over %d explored schedules' % len(traces))
    okn = 0
    hist = {}
    for (i, l, v) in ver:
        hist[v] = hist.get(v, 0) + 1
        info = infos[i]
        prog, rep = CFG[info['config']]
        rp = dict(kind='schedule', config=info['config'], mode=info['mode'], seed=info['seed'], schedule=info['schedule'], write_yield=info['write_yield'], line_yield=info['line_yield'])
        if v == 'ok':
            # results of operations without content in the trace: same as alone
            bad = None
            for t, p in prog.items():
                res = info['results'].get(t)
                want = expected_value(p, t, rep)
                got = res[1] if res else None
                if p == tour.LIST2 and isinstance(got, list):
                    got = [(bytes(x[0]), x[1], x[2], x[3]) for x in got]
                if res is None or res[0] != 'ret' or (p != ['shell'] and got != want):
                    if p in ([],) and res and res[0] == 'ret':
                        continue
                    bad = (t, repr(res), repr(want))
            if bad:
                ctx.violation('C06.SameAsAlone', dict(rp, thread=bad[0], got=bad[1], expected=bad[2]))
            else:
                okn += 1
        elif v == 'C06.Stuck.K1':
            ctx.violation(v, dict(rp, failing_event=l - 1, events=[e for e in traces[i] if e['ev'] in ('rd', 'stuck')][-8:]), finding='K1')
        elif v.startswith('ENV.'):
            raise tlc.TlcError('environment clause %s' % v)
        else:
            ctx.violation(v, dict(rp, failing_event=l - 1, events=traces[i][max(0, l - 8):l]))
    ctx.count(traces=okn, evaluations=len(traces))
    ctx.extra['explored_schedules'] = len(traces)
    ctx.extra['verdict_histogram'] = hist
    ctx.sample(dict(kind='schedule', config=infos[0]['config'], mode=infos[0]['mode'], schedule=infos[0]['schedule'][:25]))


def replay(ctx):
    import json
    d = json.load(open(ctx.replay))['replay']
    prog, rep = CFG[d['config']]
    tr, info = tour.replay_schedule(d['mode'], prog, rep, d['schedule'], write_yield=d.get('write_yield', False), line_yield=d.get('line_yield', False))
    ver, r = tlc.validate_traces('TraceEnv', [tr])
    print('replayed: verdict', ver[0][2], 'results', info['results'])
    if ver[0][2] != 'ok':
        ctx.violation(ver[0][2], d, finding='K1' if ver[0][2].endswith('.K1') else None)


def body(ctx):
    if ctx.replay:
        return replay(ctx)
    rng = random.Random(ctx.seed)
    k1 = bool(ctx.open_finding('K1'))
    from ..framework import load_findings
    f5 = any(f.status == 'open' and f.fid == 'F5' for f in load_findings())
    design(ctx, ['A', 'B', 'C', 'D'] if ctx.quick else ['A', 'B', 'C', 'D', 'E', 'F', 'G', 'H'], k1, f5)
    liveness(ctx, 'A' if ctx.quick else 'C')
    do_tour(ctx, 'A', k1, f5, ['sync', 'async'])
    if not ctx.quick:
        do_tour(ctx, 'C', k1, f5, ['sync', 'async'])
        do_tour(ctx, 'B', k1, f5, ['sync', 'async'])
    do_explore(ctx, rng, 700 if ctx.quick else 20000, ['A', 'B', 'C', 'D', 'F', 'G', 'I'] if ctx.quick else ['A', 'B', 'C', 'D', 'E', 'F', 'G', 'H', 'I'], ['sync', 'async'])
    ctx.assumptions += ['preemption at lock acquisitions and at the first bulk_read of a frame (the critical sections of the design spec); in a quarter of the explored schedules of the threaded implementation also before every line of the packet store methods and of _AdbIOManager.read (sys.settrace), in a third before every bulk_write and local file read',
                        'device conforms to the Env model; it picks any ready stream next',
                        'design conformance (tour) is informative: a mismatch is reported as DESIGN-DRIFT, verdicts come only from TraceEnv clauses']


if __name__ == '__main__':
    main('C06', 'model_checking', body)
