"""C20 - the USB transport honours the transport contract on a conforming libusb backend.

A fake `usb1` module (context, device, setting with one IN and one OUT endpoint, handle with claimInterface /
bulkRead / bulkWrite, libusb error classes) is installed before adb_shell is imported.
1. TLC: the contract spec AdbTransport (shared with C18) provides the driver scripts (transition tour).
2. Every script is executed against UsbTransport over the fake backend, with short transfers and backend errors
   injected at every call index, timeouts None / 0 / fractional, use after close; each run is validated by TLC
   against TraceUsb: ClaimsOnConnect, WritesToOut, ReadsFromIn, ReadAtMost, InOrder, TimeoutMs, ErrorsMapped,
   UseAfterClose, CloseIdempotent, Reconnectable.
3. SessionSame: whole device sessions through AdbDeviceUsb-style objects (AdbDevice over UsbTransport.find_adb)
   wired to the device simulator give the in-memory results.
"""
import io
import random
import sys

from .. import fakeusb
fakeusb.install()

from .. import env, scen, simdev, tlc, tour, transports  # noqa: E402
from ..framework import main  # noqa: E402
from . import c18  # noqa: E402

B = fakeusb.BACKEND


def drive(script, timeout_s, default_s, inject=None, short=False, seed=0, conn_s='same', select=None, system=None):
    conn_s = timeout_s if conn_s == 'same' else conn_s       # the timeout given to connect() (it is not the default of later calls)
    from adb_shell.transport.usb_transport import UsbTransport
    from adb_shell import exceptions as ex
    rng = random.Random(seed)
    B.reset()
    if inject:
        B.errors = dict(inject)
    if short:
        B.short_read = lambda n, avail: rng.randint(1, min(n, avail))
        B.short_write = lambda n: rng.randint(1, n)
    # how the device is chosen: the first ADB interface, by serial number, by port path given as a list / as a sysfs string
    sel = {None: {}, 'serial': dict(serial='FAKESERIAL'), 'port_list': dict(port_path=[1, 2, 3]), 'port_str': dict(port_path='1-2.3')}[select]
    import adb_shell.transport.usb_transport as ut
    real_platform = ut.platform
    if system:
        import types as _types
        ut.platform = _types.SimpleNamespace(system=lambda: system)       # the operating system the library believes it runs on
    try:
        return _drive(script, timeout_s, default_s, conn_s, rng, sel)
    finally:
        ut.platform = real_platform


def _drive(script, timeout_s, default_s, conn_s, rng, sel):
    from adb_shell.transport.usb_transport import UsbTransport
    t = UsbTransport.find_adb(default_transport_timeout_s=default_s, **sel)
    tr = []
    written = delivered = 0
    epoch = [0]

    def bn(i):
        return (c18.byte_name(i) + 97 * epoch[0]) % 251          # what the device says differs from connection to connection
    exp_ms = int((timeout_s if timeout_s is not None else (default_s if default_s is not None else 10)) * 1000)
    closed = True

    def flush_log(n=None, data=None):
        for c in B.log:
            if c['name'] == 'claimInterface':
                tr.append(dict(op='claim', iface=c['iface'], expected=fakeusb.IFACE))
            elif c['name'] == 'bulkRead':
                tr.append(dict(op='backend_read', ep=c['ep'], inEp=fakeusb.IN_EP, len=c['length'], n=n if n is not None else c['length'], tmo=c['timeout'], expTmo=exp_ms))
            elif c['name'] == 'bulkWrite':
                tr.append(dict(op='backend_write', ep=c['ep'], outEp=fakeusb.OUT_EP, tmo=c['timeout'], expTmo=exp_ms, dataSame=(data is None or bytes(data).startswith(c['data']) or c['data'] in bytes(data))))
        del B.log[:]
    for a in script:
        op = a['op']
        try:
            if op == 'connect':
                t.connect(conn_s)
                closed = False
                epoch[0] += 1
                B.inbuf = bytearray()
                written = delivered = 0
                tr.append(dict(op='connect', ok=True))
                flush_log()
                tr.append(dict(op='connected'))
            elif op == 'close':
                t.close()
                t.close()
                closed = True
                tr.append(dict(op='close', ok=True))
                flush_log()
            elif op == 'pw':
                B.inbuf += bytes(bn(written + i + 1) for i in range(a['m']))
                written += a['m']
                tr.append(dict(op='pw', m=a['m']))
            elif op == 'close1':
                t.close()                          # a single close() (the 'close' op calls it twice, which would repair a half-done first one)
                closed = True
                tr.append(dict(op='close', ok=True))
                flush_log()
            elif op == 'close_fault':
                B.release_error = a['kind']        # the next close() finds the interface gone: libusb raises in releaseInterface
            elif op == 'partial_timeout':
                B.partial_timeout = True          # the next backend read times out having received part of the data
            elif op in ('read', 'timeout'):
                nf0 = len(B.fired)
                try:
                    got = t.bulk_read(a['n'], timeout_s)
                    flush_log(n=a['n'])
                    ok = [bn(delivered + i + 1) for i in range(len(got))] == list(got)
                    tr.append(dict(op='read', n=a['n'], k=len(got), first=delivered + 1, contiguous=bool(ok)))
                    delivered += len(got)
                except Exception as x:  # noqa
                    flush_log(n=a['n'])
                    tr.append(dict(op='raised', call='bulk_read', cls=type(x).__name__, expected='UsbReadFailedError', closed=closed,
                                   legit=bool(closed or len(B.fired) > nf0 or written == delivered or B.gone)))
            elif op in ('write', 'hw'):
                data = bytes(rng.randrange(256) for _ in range(a['m'] if op == 'write' else a['n']))
                nf0 = len(B.fired)
                out0 = len(B.out)
                try:
                    k = t.bulk_write(data, timeout_s)
                    acc = len(B.out)
                    flush_log(data=data)
                    tr.append(dict(op='wrote', k=k if isinstance(k, int) else -1, accepted=len(B.out) - out0, prefixOk=(bytes(B.out[out0:]) == data[:len(B.out) - out0])))
                except Exception as x:  # noqa
                    flush_log(data=data)
                    tr.append(dict(op='raised', call='bulk_write', cls=type(x).__name__, expected='UsbWriteFailedError', closed=closed, legit=bool(closed or len(B.fired) > nf0 or B.gone)))
        except Exception as x:  # noqa
            tr.append(dict(op='error', clause={'connect': 'Reconnectable', 'close': 'CloseIdempotent'}.get(op, 'Raises'), what='%s raised %r' % (op, x)))
            break
    try:
        t.close()
    except Exception:  # noqa
        pass
    return tr


def two_devices(layout=None):
    """Two ADB devices on the bus that report the same serial number (cheap devices often do), one transport each, used in turn:
    connect(A), connect(B), use A, use B, close B, use A.  One trace per transport.  With a layout: the two devices sit on the same
    port chain behind two host controllers (bus 1 port 2.3 and bus 2 port 2.3)."""
    from adb_shell.transport.usb_transport import UsbTransport
    B.reset()
    B.ndevices = 2
    B.layout = layout
    pa, pb = ([1, 2, 3], [1, 2, 4]) if not layout else ([layout[0][0]] + layout[0][1], [layout[1][0]] + layout[1][1])
    ts = {'A': UsbTransport.find_adb(port_path=pa, default_transport_timeout_s=1.0), 'B': UsbTransport.find_adb(port_path=pb, default_transport_timeout_s=1.0)}
    trs = {'A': [], 'B': []}
    closed = {'A': True, 'B': True}

    def do(who, what):
        t, tr = ts[who], trs[who]
        del B.log[:]
        nf0 = len(B.fired)
        try:
            if what == 'connect':
                t.connect(1.0)
                closed[who] = False
                tr.append(dict(op='connect', ok=True))
                for c in B.log:
                    if c['name'] == 'claimInterface':
                        tr.append(dict(op='claim', iface=c['iface'], expected=fakeusb.IFACE))
                tr.append(dict(op='connected'))
            elif what == 'close':
                t.close()
                closed[who] = True
                tr.append(dict(op='close', ok=True))
            else:
                k = t.bulk_write(b'hello', 1.0)
                tr.append(dict(op='wrote', k=k if isinstance(k, int) else -1, accepted=5, prefixOk=True))
        except Exception as x:  # noqa
            if what == 'write':
                tr.append(dict(op='raised', call='bulk_write', cls=type(x).__name__, expected='UsbWriteFailedError', closed=closed[who], legit=bool(closed[who] or len(B.fired) > nf0)))
            else:
                tr.append(dict(op='error', clause={'connect': 'Reconnectable', 'close': 'CloseIdempotent'}[what], what='%s(%s) raised %r' % (what, who, x)))
    for who, what in (('A', 'connect'), ('B', 'connect'), ('A', 'write'), ('B', 'write'), ('B', 'close'), ('A', 'write'), ('B', 'connect'), ('A', 'write'), ('A', 'close'), ('B', 'write'), ('B', 'close')):
        do(who, what)
    B.ndevices = 1
    B.layout = None
    return [trs['A'], trs['B']]


def usb_session(seed):
    """AdbDevice over UsbTransport.find_adb wired to the simulator; returns outcomes like c18.session_in_memory."""
    from adb_shell.transport.usb_transport import UsbTransport
    m = env.mods()
    import threading
    import time
    env.bind_time(time, m['sync'])
    m['sync'].Lock = threading.Lock
    dev = simdev.SimDevice(seed=seed, auth=simdev.AuthPolicy(maxdata=65536))
    c18.prep(dev)
    core = transports.PipeCore(dev)
    core.connect(None)
    B.reset()
    rng = random.Random(seed)
    B.short_read = lambda n, avail: rng.randint(1, min(n, avail))
    B.on_write = core._host_bytes

    def need():
        if not dev.wire:
            dev.pump()
        while dev.wire:
            B.inbuf += dev.wire.pop(0)['bytes']
    B.on_need = need
    out = []
    try:
        t = UsbTransport.find_adb(default_transport_timeout_s=2.0)
        d = m['sync'].AdbDevice(t)
        out.append(d.connect(read_timeout_s=3.0))
        out.append(d.shell('ls', decode=False))
        out.append(d.stat('/f'))
        out.append([(bytes(x[0]), x[1], x[2], x[3]) for x in d.list('/d')])
        b = io.BytesIO()
        d.pull('/f', b)
        out.append(b.getvalue())
        d.push(io.BytesIO(scen.fast_pattern(3, 200000)), '/q', mtime=5)
        out.append(bytes(dev.fs.files['/q']['data']))
        d.close()
    except Exception as x:  # noqa
        out.append('raised %r' % x)
    return out


def body(ctx):
    rng = random.Random(ctx.seed)
    g, paths = c18.graph_paths(ctx)
    traces, meta = [], []
    grid = [(None, None), (None, 2.5), (0, None), (0.25, 7), (1.5, None), (2, 0.5)]
    for pi, p in enumerate(paths):
        sc = c18.script_of(p)
        # turn every other read of the script into a write so that the OUT endpoint is exercised too
        sc2 = []
        for j, a in enumerate(sc):
            sc2.append(a)
            if a['op'] == 'connect' or (a['op'] == 'pw' and j % 2):
                sc2.append(dict(op='write', m=rng.choice([1, 24, 4096])))
        tmo, dflt = grid[pi % len(grid)]
        traces.append(drive(sc2, tmo, dflt, seed=pi))
        meta.append(dict(kind='tour-script', timeout_s=tmo, default_s=dflt, script=sc2))
        if pi % 2 == 1:
            # connect() with its own timeout; the calls that follow give none / another one: the object's default resp. their own applies
            cs = (0.75, 3, None)[pi % 3]
            traces.append(drive(sc2, tmo, dflt, seed=pi, conn_s=cs))
            meta.append(dict(kind='tour-script, connect() with its own timeout', connect_timeout_s=cs, timeout_s=tmo, default_s=dflt, script=sc2))
        if pi % 3 == 0:
            traces.append(drive(sc2, tmo, dflt, short=True, seed=pi))
            meta.append(dict(kind='tour-script short transfers', timeout_s=tmo, default_s=dflt, script=sc2))
    # backend errors at every call index of a fixed script
    base = [dict(op='connect'), dict(op='write', m=24), dict(op='pw', m=3), dict(op='read', n=2), dict(op='write', m=100), dict(op='read', n=4), dict(op='pw', m=2),
            dict(op='read', n=9), dict(op='close'), dict(op='read', n=1), dict(op='write', m=5), dict(op='connect'), dict(op='pw', m=1), dict(op='read', n=1)]
    selects = [None, 'serial', 'port_list', 'port_str']
    systems = [None, 'Windows', 'Darwin', 'Linux']
    for k in range(0, 16):
        for ki, kind in enumerate(('timeout', 'io', 'nodevice', 'pipe')):
            sel_, sys_ = selects[(k + ki) % 4], systems[(k // 4 + ki) % 4]
            traces.append(drive(base, 0.5, None, inject={k: kind}, seed=k, select=sel_, system=sys_))
            meta.append(dict(kind='backend error', at=k, error=kind, script=base, device_selected_by=sel_, platform=sys_))
    for sel_ in selects:
        for sys_ in systems:
            traces.append(drive(base, 1.5, None, seed=3, select=sel_, system=sys_))
            meta.append(dict(kind='selection / platform', script=base, device_selected_by=sel_, platform=sys_))
    # a close() during which libusb raises (the interface is gone): the transport is closed all the same - use after close raises, and
    # a new connect() works (seeded change C20-w12-c20-m2)
    for kind in ('io', 'nodevice', 'pipe', 'timeout'):
        cf = [dict(op='connect'), dict(op='write', m=24), dict(op='pw', m=8), dict(op='read', n=4), dict(op='close_fault', kind=kind), dict(op='close1'), dict(op='read', n=4),
              dict(op='write', m=5), dict(op='connect'), dict(op='pw', m=2), dict(op='read', n=2), dict(op='write', m=9), dict(op='close'), dict(op='read', n=1)]
        traces.append(drive(cf, 0.5, None, seed=7))
        meta.append(dict(kind='backend error inside close(), then use after close and a new connection', error=kind, script=cf))
    # large writes (several maximum-size transfers' worth) with short transfers; a read that timed out with part of the data, then a new connection
    big = [dict(op='connect'), dict(op='write', m=40000), dict(op='write', m=16384), dict(op='write', m=16385), dict(op='write', m=70000), dict(op='pw', m=5), dict(op='partial_timeout'),
           dict(op='read', n=5), dict(op='close'), dict(op='connect'), dict(op='pw', m=4), dict(op='read', n=4), dict(op='write', m=33000)]
    for sd in range(6):
        traces.append(drive(big, 1.0, None, short=True, seed=100 + sd))
        meta.append(dict(kind='large writes with short transfers; partial data of a timed-out read; reconnect', script=big, seed=100 + sd))
    for lay in (None, [(1, [2, 3]), (2, [2, 3])], [(3, [1]), (1, [1])]):
        for tr_ in two_devices(lay):
            traces.append(tr_)
            meta.append(dict(kind='two devices with the same serial number, one transport each', layout=lay))
    ver, r = tlc.validate_traces('TraceUsb', traces)
    ctx.add_tlc(r, 'TraceUsb over %d scripts on the fake libusb backend' % len(traces))
    okn = 0
    for (i, l, v) in ver:
        if v == 'ok':
            okn += 1
        else:
            ctx.violation(v, dict(meta[i], failing_event=l - 1, events=traces[i][max(0, l - 4):l]))
    ctx.count(traces=okn, evaluations=len(traces), distinct=len(g.edges))
    ctx.extra['backend_calls_judged'] = sum(1 for t in traces for e in t if e['op'].startswith('backend_'))
    ctx.extra['errors_mapped_cases'] = sum(1 for t in traces for e in t if e['op'] == 'raised')
    ctx.sample(dict(meta[2], events=traces[2][:12]))
    a = usb_session(ctx.seed + 5)
    b = c18.session_in_memory('sync', ctx.seed + 5)
    ctx.count(evaluations=1)
    if a != b:
        first = next((i for i, (x, y) in enumerate(zip(a, b)) if x != y), min(len(a), len(b)))
        ctx.violation('C20.SessionSame', dict(kind='session', first_difference_at=first, over_usb=repr(a[first])[:200] if first < len(a) else None))
    ctx.assumptions += ['the backend is a model of libusb1 as documented (bulkRead returns at most `length` bytes and raises USBErrorTimeout when nothing arrives; bulkWrite returns the count); no hardware',
                        'timeouts are exactly representable values so that the millisecond conversion is compared as integers']


if __name__ == '__main__':
    main('C20', 'model_checking', body)
