"""C15 - every message reaches the peer completely, even when the transport writes short.

1. TLC explores the design spec AdbWriter (two writers sharing the transport lock, header then payload, per-call
   capacity 1..4, a write may fail): the intended host loop satisfies PeerGetsAll / InOrderNoGap / Contiguous /
   LockFreeAtEnd; the sanity mutations IgnoreShortWrite (finding F1 before its repair), ResubmitStale and
   LockPerCall each violate one of them.
2. code->spec, in-memory: every capacity sequence over {0, 1, 2, half, len-1, len} up to 4 calls (then unlimited), and
   random capacities, imposed on the transport for a scenario covering connect / shell / stat / list / pull / push,
   sync and async; the bytes the peer received are framed by the independent parser and judged by the frame
   clauses of TraceEnv (a gap or truncation shows as C02.Framing / C02.Checksum / an incomplete frame); a 70 KB
   message accepted one byte per call; a write failing in the middle of a buffer at every write index (the call
   raises or the peer has everything); schedules of three operations with short writes and a preemption point at
   every bulk_write (the pieces of a message stay together).
3. code->spec, real loopback TCP: TcpTransport and TcpTransportAsync with a transport timeout (non-blocking path)
   against a socket server running the simulator with a 4 KiB receive buffer and a slow reader; pushes with
   maxdata 64 KiB .. 1 MiB; the server-side byte stream is judged the same way and the pushed file must arrive intact.
"""
import asyncio
import io
import itertools
import random
import socket

from .. import env, scen, simdev, sockdev, tlc, tour, transports
from ..framework import main, load_findings


def scenario(seed, maxdata=4096, big=False):
    ops = [dict(api='shell', decode=False, cmd='ls -l /sdcard', chunks=[b'abc'.hex()]),
           dict(api='stat', path='/s', st=[1, 2, 3]),
           dict(api='list', path='/d', entries=[[b'a'.hex(), 1, 2, 3]]),
           dict(api='pull', path='/p', size=3000, dest='bytesio'),
           dict(api='push', path='/q', size=3 * maxdata + 77 if big else 9000, src='bytesio', mtime=7)]
    return dict(seed=seed, maxdata=maxdata, rid='random', frag='whole', ops=ops)


def run_caps(mode, spec, capseq, rng=None):
    """capseq: list of capacity tokens for the first bulk_write calls; afterwards everything is accepted."""
    it = iter(capseq)

    def wcap(n):
        tok = next(it, None)
        if tok is None:
            return (0 if rng.random() < 0.1 else rng.randint(1, n)) if rng else n
        return {'0': 0, '1': 1, '2': min(2, n), 'half': max(1, n // 2), 'len-1': max(1, n - 1), 'len': n}[tok]      # '0': nothing accepted this time, try again
    for op in spec['ops']:
        op['read_timeout_s'] = 1.0
    rr = scen.run(dict(spec, connect_kw=dict(read_timeout_s=1.0)), mode, wcap=wcap)
    return rr


def judge(ctx, runs, label, f1_open):
    traces = [scen.project_events(rr, spec) for (mode, spec, caps, rr) in runs]
    ver, r = tlc.validate_traces('TraceEnv', traces)
    ctx.add_tlc(r, 'TraceEnv %s (%d sessions)' % (label, len(traces)))
    okn = 0
    for (i, l, v) in ver:
        mode, spec, caps, rr = runs[i]
        if v == 'ok':
            # nothing may remain half-sent at the end either
            if rr.sess and rr.sess.core.hbuf:
                ctx.violation('C15.PeerGetsAll', dict(kind='short-writes', label=label, mode=mode, capacities=caps, pending_bytes=len(rr.sess.core.hbuf)), finding='F1' if f1_open else None)
            else:
                okn += 1
        elif v.startswith('C02.'):
            ctx.violation('C15.PeerGetsAll', dict(kind='short-writes', label=label, mode=mode, capacities=caps, frame_clause=v, failing_event=l - 1,
                                                  event={k: x for k, x in traces[i][l - 2].items() if k in ('ev', 'cmd', 'len', 'alen', 'reason', 'pending')}),
                          finding='F1' if f1_open else None)
        elif v.startswith('ENV.'):
            raise tlc.TlcError(v)
        else:
            okn += 1
    ctx.count(traces=okn, evaluations=len(traces))


def loopback_case(mode, maxdata, size, seed, rcvbuf=4096, read_pause=0.001, timeout=5.0):
    m = env.mods()
    dev = simdev.SimDevice(seed=seed, auth=simdev.AuthPolicy(maxdata=maxdata))
    sd = sockdev.SockDevice(dev, rcvbuf=rcvbuf, read_size=4096, read_pause=read_pause, seed=seed)
    data = scen.fast_pattern(seed, size)
    out = dict(mode=mode, maxdata=maxdata, size=size)
    import time as realtime
    env.bind_time(realtime, m['sync'])
    env.bind_time(realtime, m['asyn'])
    import threading
    m['sync'].Lock = threading.Lock
    m['asyn'].Lock = asyncio.Lock
    try:
        if mode == 'sync':
            from adb_shell.transport.tcp_transport import TcpTransport
            d = m['sync'].AdbDevice(TcpTransport('127.0.0.1', sd.port), default_transport_timeout_s=timeout)
            try:
                d.connect(read_timeout_s=10.0)
                d._io_manager._transport._connection.setsockopt(socket.SOL_SOCKET, socket.SO_SNDBUF, 4096)
                d.push(io.BytesIO(data), '/big', mtime=5, read_timeout_s=10.0)
                out['outcome'] = 'ret'
            except Exception as e:  # noqa
                out['outcome'] = 'exc:' + type(e).__name__
            finally:
                try:
                    d.close()
                except Exception:  # noqa
                    pass
        else:
            from adb_shell.transport.tcp_transport_async import TcpTransportAsync

            async def go():
                d = m['asyn'].AdbDeviceAsync(TcpTransportAsync('127.0.0.1', sd.port), default_transport_timeout_s=timeout)
                try:
                    await d.connect(read_timeout_s=10.0)
                    await d.push(io.BytesIO(data), '/big', mtime=5, read_timeout_s=10.0)
                    out['outcome'] = 'ret'
                except Exception as e:  # noqa
                    out['outcome'] = 'exc:' + type(e).__name__
                finally:
                    try:
                        await d.close()
                    except Exception:  # noqa
                        pass
            loop = asyncio.new_event_loop()
            try:
                loop.run_until_complete(go())
            finally:
                loop.close()
    finally:
        realtime.sleep(0.05)
        sd.close()
    got = dev.fs.files.get('/big', {}).get('data')
    out['intact'] = (got == data)
    out['server_received'] = sd.received
    events = [{k: v for k, v in e.items() if not k.startswith('_')} for e in dev.rec.events if e['ev'] in ('tx', 'tx_garbage', 'rd', 'dv')]
    return out, events, sd.error


def body(ctx):
    rng = random.Random(ctx.seed)
    f1 = any(f.status == 'open' and f.fid == 'F1' for f in load_findings())
    # 1. design
    for (dev, expect) in ((None, None), ('IgnoreShortWrite', 'PeerGetsAll'), ('ResubmitStale', 'PeerGetsAll'), ('LockPerCall', 'Contiguous'),
                          ('DeferRef', None), ('DeferRef+ReuseHeader', 'InOrderNoGap'), ('ReuseHeader', None)):
        consts = {'HdrLen': '3', 'PayLens': '{0,1,2,3}', 'MaxCap': '4', 'Writers': '{"a","b"}', 'MaxFails': '1',
                  'IgnoreShortWrite': 'FALSE', 'ResubmitStale': 'FALSE', 'LockPerCall': 'FALSE', 'DeferRef': 'FALSE', 'ReuseHeader': 'FALSE'}
        for d_ in (dev.split('+') if dev else []):
            consts[d_] = 'TRUE'
        label = dev or 'intended'
        if dev in ('DeferRef', 'ReuseHeader'):
            dev = None          # an environment (a transport that transmits the queued object later) / a variant that is harmless alone: must hold like the intended design
        cfg = tlc.cfg_text(constants=consts, invariants=['PeerGetsAll', 'InOrderNoGap', 'Contiguous', 'LockFreeAtEnd'], deadlock=True)
        r = tlc.run('AdbWriter', cfg)
        ctx.add_tlc(r, 'AdbWriter %s' % label)
        names = [v['name'] for v in r.violations]
        if dev is None and names:
            ctx.violation('C15.' + names[0] + '(design)', dict(kind='design-counterexample', state=r.violations[0]['trace'][-1][:400]))
            return
        if dev and not names:
            raise tlc.TlcError('vacuity: sanity mutation %s violates nothing' % dev)
        if dev:
            ctx.extra.setdefault('sanity_mutations_violate', {})[dev] = names[0]
        if dev == 'IgnoreShortWrite' and f1:
            ctx.violation('C15.PeerGetsAll(design)', dict(kind='design-counterexample', deviation='IgnoreShortWrite', state=r.violations[0]['trace'][-1][:400]), finding='F1')
    # 2. in-memory capacities
    toks = ['0', '1', '2', 'half', 'len-1', 'len']
    seqs = [s for n in (1, 2, 3, 4) for s in itertools.product(toks, repeat=n)]
    if ctx.quick:
        seqs = [s for s in seqs if len(s) <= 2] + rng.sample([s for s in seqs if len(s) > 2], 40)
    runs = []
    for k, caps in enumerate(seqs):
        mode = ('sync', 'async')[k % 2]
        spec = scenario(ctx.seed + k)
        runs.append((mode, spec, list(caps), run_caps(mode, spec, caps)))
    for k in range(30 if ctx.quick else 500):
        mode = ('sync', 'async')[k % 2]
        spec = scenario(ctx.seed + 1000 + k, maxdata=rng.choice([4096, 65536]), big=(k % 5 == 0))
        runs.append((mode, spec, ['random'], run_caps(mode, spec, [], rng=random.Random(ctx.seed + k))))
    judge(ctx, runs, 'in-memory short writes', f1)
    ctx.sample(dict(kind='short-writes', capacities=list(seqs[7]), mode='async'))
    if ctx.violations:
        return
    # 2b. one buffer that needs more than 65536 write calls (a WRITE larger than 64 KiB accepted one byte at a time)
    runs = []
    for mode in ('sync', 'async'):
        spec = dict(seed=ctx.seed, maxdata=262144, rid='random', frag='whole', ops=[dict(api='push', path='/q', size=70000, src='bytesio', mtime=7, read_timeout_s=1.0)])
        runs.append((mode, spec, ['always 1'], scen.run(dict(spec, connect_kw=dict(read_timeout_s=1.0)), mode, wcap=lambda n: 1)))
    judge(ctx, runs, 'in-memory, one byte per write call, a 70 KB message', f1)
    for (mode, spec, caps, rr) in runs:
        got = rr.dev.fs.files.get('/q', {}).get('data')
        if rr.outcomes[1].kind == 'ret' and (got is None or len(got) != 70000):
            ctx.violation('C15.PeerGetsAll', dict(kind='short-writes', label='70 KB push, one byte per call', mode=mode, arrived=None if got is None else len(got)))
    # 2b'. a sendall-style transport whose bulk_write returns None, and messages larger than 64 KiB
    runs = []
    for mode in ('sync', 'async'):
        for md, size in ((262144, 200000), (1024 * 1024, 1500000)):
            spec = dict(seed=ctx.seed + md, maxdata=md, rid='random', frag='whole', ops=[dict(api='push', path='/q', size=size, src='bytesio', mtime=7, read_timeout_s=1.0)])
            rr = scen.run(dict(spec, connect_kw=dict(read_timeout_s=1.0)), mode, write_none=True)
            runs.append((mode, spec, ['bulk_write returns None'], rr))
            got = rr.dev.fs.files.get('/q', {}).get('data')
            if rr.outcomes[1].kind == 'ret' and (got is None or len(got) != size):
                ctx.violation('C15.PeerGetsAll', dict(kind='None-returning transport', mode=mode, maxdata=md, size=size, arrived=None if got is None else len(got)))
    judge(ctx, runs, 'in-memory, bulk_write returns None, messages above 64 KiB', f1)
    # 2b''. short writes on a slow transport: every call takes (virtual) time, so that a whole buffer needs longer than the transport
    #       timeout although no single call does - the buffer must still arrive completely (or the call raises)
    runs = []
    for mode in ('sync', 'async'):
        for (cap, tick, tt) in ((6, 0.02, 0.05), (1, 0.01, 0.02), (10, 0.3, 0.5), (100, 0.02, 0.05)):
            spec = dict(seed=ctx.seed + cap, maxdata=4096, rid='random', frag='whole', tick=tick,
                        ops=[dict(api='shell', decode=False, cmd='echo hello', chunks=[b'hello'.hex(), b'\n'.hex()], transport_timeout_s=tt, read_timeout_s=5.0),
                             dict(api='push', path='/q', size=600, src='bytesio', mtime=7, transport_timeout_s=tt, read_timeout_s=5.0),
                             dict(api='stat', path='/q', transport_timeout_s=tt, read_timeout_s=5.0)])
            rr = scen.run(dict(spec, connect_kw=dict(read_timeout_s=5.0)), mode, wcap=lambda n, c=cap: min(n, c))
            runs.append((mode, spec, ['always %d' % cap, 'every call takes %.2f s, transport timeout %.2f s' % (tick, tt)], rr))
    judge(ctx, runs, 'in-memory short writes on a slow transport', f1)
    # 2b+. a transport that queues the caller's object and transmits it at its next call (no copy in between): what it sends is what the
    #      object holds then - the peer must still get every message as it was when bulk_write accepted it
    runs = []
    for k in range(6 if ctx.quick else 60):
        spec = scenario(ctx.seed * 7 + k, maxdata=4096)
        for mode in ('sync', 'async'):
            rr = scen.run(spec, mode, defer_ref=True)
            runs.append((mode, spec, ['the transport keeps a reference and transmits at its next call'], rr))
            r0 = scen.run(spec, mode)
            ctx.count(evaluations=1)
            if [e['_raw'] for e in rr.events if e['ev'] == 'tx'] != [e['_raw'] for e in r0.events if e['ev'] == 'tx'] or [o.key() for o in rr.outcomes] != [o.key() for o in r0.outcomes]:
                ctx.violation('C15.PeerGetsAll', dict(kind='a transport that transmits the queued object later', mode=mode,
                                                      why='the device received other messages than over a transport that copies at once',
                                                      outcomes=[(o.kind, o.exc_name) for o in rr.outcomes]))
    judge(ctx, runs, 'in-memory transport that transmits the queued object later', f1)
    # 2c. a write fails in the middle of a buffer (after a short write) and the transport works again: either the call raises, or
    #     the peer still got every byte - never a silent gap
    nruns = 0
    for mode in ('sync', 'async'):
        for cap in (10, 7):
            spec0 = dict(seed=ctx.seed, maxdata=4096, rid='random', frag='whole', stop_on_exc=True, stop_after_fault=True,
                         ops=[dict(api='push', src='dir', files=[('a', 30)], cwd='elsewhere', path='/sdcard/dd', mtime=9, read_timeout_s=1.0),
                              dict(api='shell', decode=False, cmd='id', chunks=[b'uid=0'.hex()], read_timeout_s=1.0),
                              dict(api='push', path='/q', size=60, src='bytesio', mtime=7, read_timeout_s=1.0)])
            base = scen.run(dict(spec0, connect_kw=dict(read_timeout_s=1.0)), mode, wcap=lambda n, c=cap: min(n, c))
            calls = base.sess.core.calls
            base_tx = [e['_raw'] for e in base.events if e['ev'] == 'tx']
            if any(o.kind == 'exc' for o in base.outcomes):
                ctx.violation('C15.PeerGetsAll', dict(kind='short-writes', label='%d bytes per call, no fault' % cap, mode=mode, outcomes=[(o.kind, o.exc_name) for o in base.outcomes]))
                continue
            ks = [k for k, c in enumerate(calls) if c[0] == 'bulk_write']
            if ctx.quick:
                ks = ks[::2] if cap == 7 else ks
            batch = []
            for k in ks:
                for kind in ('timeout', 'blocking', 'eintr') if ctx.quick else ('timeout', 'reset', 'blocking', 'oserr', 'eintr'):
                    rr = scen.run(dict(spec0, connect_kw=dict(read_timeout_s=1.0)), mode, wcap=lambda n, c=cap: min(n, c), fault=transports.Fault(at={k: kind}))
                    batch.append((mode, spec0, ['always %d' % cap, 'fault %s at call %d' % (kind, k)], rr))
            nruns += len(batch)
            traces = [scen.project_events(rr, spec) for (_, spec, _, rr) in batch]
            ver, r = tlc.validate_traces('TraceEnv', traces)
            ctx.add_tlc(r, 'TraceEnv: a failed write in the middle of a buffer, %s, %d bytes per call (%d runs)' % (mode, cap, len(batch)))
            for (i, l, v) in ver:
                _, _, caps, rr = batch[i]
                raised = any(o.kind == 'exc' for o in rr.outcomes)     # the session ends with the operation in which the fault struck
                # nothing raised: then the device must have received exactly the messages of the fault-free run, as far as the session went
                got_tx = [e['_raw'] for e in rr.events if e['ev'] == 'tx']
                missing = (not raised) and got_tx != base_tx[:len(got_tx)]
                if not raised and (v.startswith('C02.') or rr.sess.core.hbuf or missing):
                    ctx.violation('C15.NeverSilentlyTruncated', dict(kind='short-writes+fault', mode=mode, capacities=caps, frame_clause=v, pending_bytes=len(rr.sess.core.hbuf),
                                                                      message_missing_or_altered=missing, outcomes=[o.kind for o in rr.outcomes]))
                else:
                    ctx.count(traces=1, evaluations=1)
    ctx.extra['failed_write_mid_buffer_runs'] = nruns
    # 2d. short writes with a second thread / task queued on the transport lock: the pieces of one message stay together
    for mode in ('sync', 'async'):
        prog, rep = {'t1': ['shell'], 't2': ['shell'], 't3': tour.PUSH2}, {'t1': [[1]], 't2': [[1, 2]], 't3': [[]]}
        res = []
        for k in range(25 if ctx.quick else 600):
            res += tour.explore(mode, prog, rep, 1, random.Random(ctx.seed * 31 + k), write_yield=True,
                                wcap=lambda r_: (lambda n, r2=random.Random(r_.random()): r2.randint(1, max(1, min(n, 16)))))
        v2, r2 = tlc.validate_traces('TraceEnv', [t for t, _ in res])
        ctx.add_tlc(r2, 'TraceEnv over %d %s schedules of three operations with short writes' % (len(res), mode))
        for (i, l, v) in v2:
            if v.startswith('C02.'):
                ctx.violation('C15.PeerGetsAll', dict(kind='schedule+short-writes', mode=mode, frame_clause=v, schedule=res[i][1]['schedule'][:200]))
            else:
                ctx.count(traces=1, evaluations=1)
    # 2e. a task is cancelled in the middle of a message (short writes, a second task queued on the transport lock): the cancelled message is
    #     broken by the cancellation itself, but nothing of it is written any more once its sender is gone - whatever is written afterwards
    #     is the other task's own message, in one piece
    import asyncio
    ncm = 0
    for k in range(1, 40 if ctx.quick else 200):
        dev = simdev.SimDevice(seed=k)
        dev.shell_scripts[b'shell:' + b'a' * 60] = [b'A']
        dev.shell_scripts[b'shell:b'] = [b'B']
        sess = env.Session('async', dev, wcap=lambda n: min(n, 7))
        sess.core.yield_io = True
        sess.call('connect')
        d = sess.device
        env.set_locks(d, asyncio.Lock)
        log, state = [], dict(cancelled_at=None)
        orig = sess.transport.bulk_write

        async def logged(data, tmo, orig=orig, log=log):
            log.append((asyncio.current_task().get_name(), len(data)))
            return await orig(data, tmo)
        sess.transport.bulk_write = logged

        async def main(d=d, sess=sess, log=log, state=state, k=k):
            ta = asyncio.ensure_future(d.shell('a' * 60, decode=False, read_timeout_s=1.0))
            ta.set_name('A')
            tb = asyncio.ensure_future(d.shell('b', decode=False, read_timeout_s=1.0))
            tb.set_name('B')
            n_ = 0
            while not ta.done():
                await asyncio.sleep(0)
                if sess.core.hbuf and log and log[-1][0] != 'B':
                    n_ += 1
                    if n_ >= k:
                        state['cancelled_at'] = len(log)
                        ta.cancel()
                        break
            for t_ in (ta, tb):
                try:
                    await t_
                except BaseException:  # noqa
                    pass
            for _ in range(50):
                await asyncio.sleep(0)          # whatever was left running in the background gets its turns
        sess.rebind_clock()
        sess.loop.run_until_complete(main())
        sess.close_loop()
        if state['cancelled_at'] is None:
            break
        ncm += 1
        ctx.count(evaluations=1)
        late = [w for w in log[state['cancelled_at']:] if w[0] != 'B']
        if late:
            ctx.violation('C15.Contiguous', dict(kind='a task cancelled in the middle of a message', cancelled_after_writes=state['cancelled_at'],
                                                 writes_after_the_cancellation_by_others_than_the_second_task=late[:5], writes=log[:state['cancelled_at'] + 12]))
            break
    ctx.extra['cancellations_in_mid_message'] = ncm
    # 3. loopback
    lb = []
    for mode in ('sync', 'async'):
        for (md, size) in ([(65536, 300000), (1024 * 1024, 2500000)] if ctx.quick else [(65536, 300000), (262144, 1000000), (1024 * 1024, 2500000), (1024 * 1024, 4000000)]):
            out, events, err = loopback_case(mode, md, size, ctx.seed + md)
            if err:
                raise tlc.TlcError('socket server failed: %r' % err)
            lb.append((out, events))
    ver, r = tlc.validate_traces('TraceEnv', [e for _, e in lb])
    ctx.add_tlc(r, 'TraceEnv over %d loopback TCP pushes (server-side byte stream)' % len(lb))
    for (i, l, v) in ver:
        out = lb[i][0]
        # the peer is slow but healthy: the push must return and the file must have arrived intact
        bad = v.startswith('C02.') or out['outcome'] != 'ret' or not out['intact']
        if bad:
            ctx.violation('C15.LargePushArrivesIntact' if not v.startswith('C02.') else 'C15.PeerGetsAll', dict(kind='loopback-tcp', frame_clause=v, **out), finding='F1' if f1 else None)
        else:
            ctx.count(traces=1)
    ctx.extra['loopback'] = [o for o, _ in lb]
    ctx.assumptions += ['a truncated or gapped message is recognised on the peer side by the independent frame parser (header/length/checksum/magic, incomplete frame before the next read)',
                        'loopback runs use real time; only byte-stream integrity is judged, no timing']


if __name__ == '__main__':
    main('C15', 'model_checking', body)
