"""C16 - the async API is behaviourally identical to the sync API.

Translation validation through the common specification: every scenario (operation sequence x device script x
adversary seed x fault injection) is run once through AdbDevice and once through AdbDeviceAsync against identical
simulators; the two runs are projected to Layer-A observables (every host packet byte for byte, every result value,
every exception class, .available after every call) and TLC checks pairwise equality (TraceTwin); each run is also
accepted by TraceEnv.  The scenarios are those of the other checks: random and adversarial sessions (C01-C04),
rejected transfers (C10), handshake scripts (C05), stalls (C11), injected transport faults (C12), short writes
(C15); TcpTransport vs TcpTransportAsync are paired on the loopback driver scripts of C18.
"""
import hashlib
import random

from .. import env, scen, simdev, tlc, transports
from ..framework import main


def h(b):
    return hashlib.sha1(bytes(b)).hexdigest()[:16]


def observe(rr):
    obs = []
    for e in rr.events:
        if e['ev'] == 'tx':
            obs.append(('tx', '%s:%d:%s' % (e['cmd'], e['len'], h(e['_raw']))))
        elif e['ev'] == 'tx_garbage':
            obs.append(('tx', 'garbage'))
        elif e['ev'] == 'exc':
            obs.append(('exc', '%s:%s:%s' % (e['api'], e['cls'], e.get('avail'))))
        elif e['ev'] == 'ret':
            obs.append(('ret', '%s:%s' % (e['api'], e.get('avail'))))
    for i, o in enumerate(rr.outcomes):
        if o.kind == 'ret':
            v = o.value
            if isinstance(v, list):
                v = [tuple(bytes(y) if isinstance(y, (bytes, bytearray)) else y for y in x) if isinstance(x, tuple) else (bytes(x) if isinstance(x, (bytes, bytearray)) else x) for x in v]
            obs.append(('val', '%d:%s' % (i, h(repr(v).encode()))))
    for i, b in sorted(rr.extra.get('pulled', {}).items()):
        obs.append(('val', 'pulled%d:%s' % (i, h(b or b'none'))))
    if rr.dev:
        for p, f in sorted(rr.dev.fs.files.items()):
            obs.append(('val', 'devfile:%s:%s' % (h(p.encode('utf8', 'replace')), h(f['data']))))
    return obs


def pair(oa, ob):
    tr = [dict(kind='len', a=len(oa), b=len(ob))]
    for (ka, va), (kb, vb) in zip(oa, ob):
        tr.append(dict(kind=ka if ka == kb else 'tx', a='%s|%s' % (ka, va), b='%s|%s' % (kb, vb)))
    return tr


def body(ctx):
    rng = random.Random(ctx.seed)
    specs = []
    n = 60 if ctx.quick else 1500
    for i in range(n):
        specs.append(('random session', scen.gen_session(rng, i, big=(i % 11 == 0), adversarial=(i % 2 == 1)), {}))
    from . import c10, c15
    for gi, s in enumerate(c10.grid(ctx, rng)):
        if s.get('reorder') or gi % (3 if ctx.quick else 1) == 0:
            specs.append(('rejected transfer', s, {}))
    from . import c07
    for n in range(4096 - 80, 4096 + 12):
        specs.append(('push alignment', c07.spec_for(4096, n, rng.choice([15, 19]), ctx.seed + n), {}))
    for k in range(20 if ctx.quick else 200):
        sp = c15.scenario(ctx.seed + k, maxdata=rng.choice([4096, 65536]))
        for op in sp['ops']:
            op['read_timeout_s'] = 1.0
        specs.append(('short writes', dict(sp, wcap='random'), {}))
    # stalls and faults: the device falls silent after j packets / a transport call fails at index k
    for k in range(40 if ctx.quick else 600):
        sp = scen.gen_session(rng, 5000 + k, adversarial=False, ops_max=3)
        for op in sp['ops']:
            op['read_timeout_s'] = rng.choice([1.0, 0, -1])
            op['transport_timeout_s'] = rng.choice([None, 0.5])
        if k % 2:
            specs.append(('stall', sp, dict(budget=rng.randint(0, 12), stall=rng.choice(['raise', 'empty']))))
        else:
            specs.append(('fault', sp, dict(fault={rng.randint(0, 60): rng.choice(['timeout', 'reset', 'eof'])})))
    # a peer that announces more than the host's own 1 MiB, and a push that fills more than 1 MiB of the send buffer
    for (md, size) in ((2 * 1024 * 1024, 1500000), (1024 * 1024 + 1, 1024 * 1024 + 300), (0x7FFFFFFF, 1200000)):
        specs.append(('maxdata above 1 MiB', dict(seed=ctx.seed, maxdata=md, rid='plus', frag='whole', ops=[dict(api='push', path='/big', size=size, src='bytesio', mtime=3)]), {}))
    # progress callbacks raising something that is not an Exception
    for api in ('pull', 'push'):
        for size in (100, 70000, 200000):
            op = dict(api=api, path='/cb', size=size, cb='raise_base')
            op.update(dict(dest='bytesio') if api == 'pull' else dict(src='bytesio', mtime=3))
            specs.append(('callback raising a BaseException', dict(seed=ctx.seed + size, maxdata=65536, rid='plus', frag='whole', ops=[op, dict(api='shell', decode=False, cmd='after', chunks=[b'ok'.hex()])]), {}))
    # arguments that cannot work: a local destination that cannot be opened, a device path object that is neither str nor bytes -
    # whatever happens (exception class, what was already sent) must be the same in both classes
    for k in range(6):
        ops = [dict(api='pull', path='/f', size=3000, dest='path', local_as='missing_dir', cb=(None, 'ok')[k % 2]),
               dict(api=('stat', 'list', 'pull')[k % 3], path='/x', path_as='purepath', size=10, dest='bytesio', st=[1, 2, 3], entries=[]),
               dict(api='shell', decode=False, cmd='after', chunks=[b'ok'.hex()])]
        if k >= 3:
            ops = ops[1:2] + ops[0:1] + ops[2:]
        specs.append(('unusable arguments', dict(seed=ctx.seed + 800 + k, maxdata=4096, rid='plus', frag='whole', ops=ops), {}))
    # the generator protocol beyond plain iteration: values sent into streaming_shell's generator; callbacks that are falsy objects
    for k in range(4):
        ops = [dict(api='streaming_shell', decode=bool(k % 2), cmd='s%d' % k, chunks=[b'l1\n'.hex(), b'l2\n'.hex(), b'l3\n'.hex()], take=2, hold='g', send='more'),
               dict(api='shell', decode=False, cmd='x', chunks=[b'x'.hex()]), dict(api='resume', gen='g'),
               dict(api='pull', path='/f', size=5000, dest='bytesio', cb='ok', cb_falsy=True), dict(api='push', path='/q', size=5000, src='bytesio', mtime=3, cb='ok', cb_falsy=True),
               dict(api='shell', decode=False, cmd='after', chunks=[b'ok'.hex()])]
        specs.append(('generator protocol / falsy callbacks', dict(seed=ctx.seed + 950 + k, maxdata=4096, rid='plus', frag='whole', ops=ops), {}))
    # operations on a device that is not connected (never connected / closed), local paths that exist or not
    for k in range(3):
        ops = [dict(api='pull', path='/f', size=100, dest='path', local_as=('str', 'missing_dir', 'pathlib')[k]), dict(api='push', path='/q', size=10, src=('bytesio', 'path')[k % 2], mtime=3),
               dict(api='stat', path='/s', st=[1, 2, 3]), dict(api='shell', decode=False, cmd='x', chunks=[])]
        specs.append(('not connected', dict(seed=ctx.seed + 960 + k, maxdata=4096, rid='plus', frag='whole', connect=False, close=(k == 1), ops=ops), {}))
    # one event loop per public call on the async side (asyncio.run() each time, the counterpart of plain calls on the sync side)
    for k in range(3):
        ops = [dict(api='push', path='/q%d' % k, size=5000, src=('path', 'bytesio', 'dir')[k], files=[['a', 10], ['b', 20]], mtime=3), dict(api='shell', decode=False, cmd='x', chunks=[b'x'.hex()]),
               dict(api='reconnect', close_first=bool(k % 2)), dict(api='push', path='/r%d' % k, size=100, src='path', mtime=4), dict(api='pull', path='/r%d' % k, size=None, dest='path')]
        specs.append(('one event loop per call', dict(seed=ctx.seed + 970 + k, maxdata=4096, rid='plus', frag='whole', loop_per_call=True, ops=ops), {}))
    # requests that do not fit an empty send buffer (a device path of maxdata minus the header and more)
    for k, n_ in enumerate((4070, 4076, 4080, 4088, 4096, 5000)):
        ops = [dict(api=('stat', 'list', 'pull')[k % 3], path='/' + 'p' * n_, st=[1, 2, 3], entries=[], size=10, dest='bytesio'), dict(api='shell', decode=False, cmd='after', chunks=[b'ok'.hex()])]
        specs.append(('oversize request', dict(seed=ctx.seed + 980 + k, maxdata=4096, rid='plus', frag='whole', ops=ops), {}))
    # generators created in one connection state and first advanced in another
    for k in range(4):
        ops = [dict(api='streaming_shell', decode=False, cmd='g', chunks=[b'a'.hex(), b'b'.hex()], take=0, hold='g'), dict(api='reconnect', close_first=True) if k % 2 else dict(api='shell', decode=False, cmd='x', chunks=[]),
               dict(api='resume', gen='g')]
        specs.append(('generator created, then the connection changes', dict(seed=ctx.seed + 990 + k, maxdata=4096, rid='plus', frag='whole', connect=(k < 2), ops=ops), {}))
    # a damaged packet in the middle of a session (payload bit, checksum field off by one, checksum field zero)
    for k in range(9):
        ops = [dict(api='shell', decode=False, cmd='a', chunks=[b'one'.hex(), b'two'.hex()]), dict(api='stat', path='/s', st=[1, 2, 3]), dict(api='pull', path='/p', size=5000, dest='bytesio'),
               dict(api='shell', decode=False, cmd='b', chunks=[b'three'.hex()])]
        specs.append(('damaged packet', dict(seed=ctx.seed + 900 + k, maxdata=4096, rid='plus', frag='whole', ops=ops, mangle=dict(nth=1 + k // 3 * 2, kind=('check0', 'check+1', 'flip')[k % 3])), {}))
    # what is parked when connect() is called again without close(): a zero-id packet read while an OPEN was waiting for its OKAY,
    # late packets of a stream whose operation gave up
    for k in range(6 if ctx.quick else 60):
        ops = [dict(api='shell', decode=False, cmd='a%d' % k, chunks=[b'a1'.hex()], stray_zero=(b'stale%d;' % k).hex(), read_timeout_s=1.0),
               dict(api='reconnect', close_first=(k % 3 == 2)),
               dict(api=rng.choice(['shell', 'exec_out', 'streaming_shell']), decode=False, cmd='b%d' % k, chunks=[b'b1;'.hex(), b'b2;'.hex()][:1 + k % 2])]
        if k % 2:
            ops.insert(1, dict(api='shell', decode=False, cmd='l%d' % k, chunks=[b'late;'.hex()], late=True, read_timeout_s=1.0))
        specs.append(('reconnect with packets parked', dict(seed=ctx.seed + k, maxdata=4096, rid=rng.choice(['plus', 'same']), frag='whole', ops=ops), dict(stall='raise')))
    traces, meta, env_traces = [], [], []
    for (label, spec, extra) in specs:
        runs = {}
        for mode in ('sync', 'async'):
            kw = {}
            if 'stall' in extra:
                kw['stall'] = extra['stall']
                kw['tick'] = 0.01
            if 'fault' in extra:
                kw['fault'] = transports.Fault(at=dict(extra['fault']))
                kw['tick'] = 0.01
            sp = dict(spec)
            if 'budget' in extra:
                sp['ops'] = [dict(op, budget=extra['budget']) if j == len(spec['ops']) - 1 else op for j, op in enumerate(spec['ops'])]
            rr = scen.run(sp, mode, **kw)
            runs[mode] = rr
        traces.append(pair(observe(runs['sync']), observe(runs['async'])))
        meta.append(dict(kind=label, spec=spec, extra={k: (v if k != 'fault' else {str(a): b for a, b in v.items()}) for k, v in extra.items()}))
        if label == 'random session':
            env_traces.append(scen.project_events(runs['async'], spec))
    # handshake scripts
    from . import c05
    for i, sc in enumerate(c05.scripts(3, True)[:: (4 if ctx.quick else 1)]):
        ta, oa, sa = c05.run_script('sync', sc, seed=i)
        tb, ob, sb = c05.run_script('async', sc, seed=i)
        sa.close_loop()
        sb.close_loop()
        oa_ = [('tx' if e['ev'] == 'atx' else e['ev'], repr(sorted((k, str(v)) for k, v in e.items()))) for e in ta]
        ob_ = [('tx' if e['ev'] == 'atx' else e['ev'], repr(sorted((k, str(v)) for k, v in e.items()))) for e in tb]
        traces.append(pair(oa_, ob_))
        meta.append(dict(kind='handshake', script=sc))
    ver, r = tlc.validate_traces('TraceTwin', traces)
    ctx.add_tlc(r, 'TraceTwin over %d paired scenarios' % len(traces))
    okn = 0
    events = 0
    for (i, l, v) in ver:
        events += len(traces[i])
        if v == 'ok':
            okn += 1
        else:
            ctx.violation(v, dict(meta[i], first_difference=traces[i][l - 2], index=l - 2))
    ver2, r2 = tlc.validate_traces('TraceEnv', env_traces)
    ctx.add_tlc(r2, 'TraceEnv over the async runs of the random sessions')
    ctx.cov['programs'] = len(traces)
    ctx.cov['disagreements_checked'] = events
    ctx.count(traces=okn, evaluations=len(traces), distinct=len(traces))
    ctx.sample(dict(meta[1], paired_observables=traces[1][:6]))
    # TcpTransport vs TcpTransportAsync: the loopback driver scripts of C18, results compared step by step
    from . import c18
    g, paths = c18.graph_paths(ctx)
    tw = []
    for p in paths[:: (4 if ctx.quick else 1)]:
        sc = c18.script_of(p)
        a = [(e['op'], repr(sorted((k, v) for k, v in e.items() if k not in ('elapsed',)))) for e in c18.drive_sync(sc)]
        b = [(e['op'], repr(sorted((k, v) for k, v in e.items() if k not in ('elapsed',)))) for e in c18.drive_async(sc)]
        # the kernel may return different prefix lengths to the two transports; compare what was delivered in total and the error classes
        def norm(x):
            out = []
            tot = 0
            for op, rp in x:
                if op == 'read':
                    continue
                out.append(('val', rp))
            return out
        tw.append(pair(norm(a), norm(b)))
    ver3, r3 = tlc.validate_traces('TraceTwin', tw)
    ctx.add_tlc(r3, 'TraceTwin over %d TcpTransport / TcpTransportAsync driver scripts' % len(tw))
    for (i, l, v) in ver3:
        if v != 'ok':
            ctx.violation(v, dict(kind='tcp transports', first_difference=tw[i][l - 2]))
        else:
            ctx.cov['programs'] += 1
    ctx.assumptions += ['concurrency is paired only through the tours of C06 (one model, two implementations); here scenarios are sequential',
                        'for the TCP transports the kernel may split reads differently: connect/close/timeout behaviour and error classes are compared, delivered bytes are judged by C18']


if __name__ == '__main__':
    main('C16', 'translation_validation', body)
