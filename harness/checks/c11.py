"""C11 - no operation hangs: a stalled device produces a timeout error in bounded time.

1. TLC explores the design spec AdbTimed (deadline checks of the read path, timeout normalisation) against the most
   general stalling adversary over the grid {-1,0,1,2,3,5}^2 x {None}: Bounded holds with K = 3 and is violated
   with K = 2 (the tight constant, recorded in the evidence), Ordered, RightError.
2. code->spec under a virtual clock: for every operation, every packet it awaits (the device falls silent after
   j packets, j = 0 .. all), every stall kind (transport timeout, end-of-stream empty reads, trickling bytes,
   traffic for other streams incl. an endless series of late CLSEs of unknown streams, unexpected commands,
   a stream that only sends empty WRITEs to a command with a whole-command limit) and a grid of transport/read/total timeouts including None, 0
   and negatives, the run is one trace judged by TraceTimed: Bounded (K = 6, 12 for pull, plus the total timeout
   and, for connect, the auth timeout), RightError, NoFabrication, Ordered; a transport-call budget is the watchdog.
"""
import io
import itertools
import random

from .. import env, scen, simdev, tlc, transports, wire
from ..framework import main

TICK = 0.01
OPS = ['connect', 'connect_auth', 'connect_auth_none', 'shell', 'streaming_shell', 'exec_out', 'stat', 'list', 'pull', 'pull_cb', 'push', 'push_dir', 'push_rejected', 'reboot', 'root']
_DIR = {}


def push_dir_source():
    """A local directory with two files (made once per run of the check, removed at exit)."""
    if 'p' not in _DIR:
        import atexit
        import os
        import shutil
        import tempfile
        d = tempfile.mkdtemp(prefix='c11-', dir=tlc.WORK if os.path.isdir(tlc.WORK) else None)
        for name, n in (('a.bin', 3000), ('b.bin', 10)):
            with open(os.path.join(d, name), 'wb') as f:
                f.write(scen.fast_pattern(len(name), n))
        atexit.register(shutil.rmtree, d, True)
        _DIR['p'] = d
    return _DIR['p']


def make_stall(kind, dev, rt=1.0):
    state = {'start': None, 'buf': b'', 'rt': rt}

    def stall(core, n, timeout):
        if state['start'] is None:
            state['start'] = core.clock.time()
        tmo = 0.0 if timeout is None else max(timeout, 0.0)
        if kind == 'raise':
            core.clock.advance(tmo)
            raise transports.SimTimeout('read timed out')
        if kind == 'empty':
            core.clock.advance(tmo)
            return b''
        if kind in ('trickle_huge', 'huge_then_empty'):
            # a header that announces a payload of almost 2^31 / 2^32 bytes, then a trickle resp. end-of-stream
            if 'hdr' not in state:
                state['hdr'] = True
                state['buf'] = wire.frame('WRTE', 0x7777, 0x7776, b'', length=(0x7FFFFF00, 0xFFFFFF00)[int(core.clock.time() * 1000) % 2], check=1) + b'\x00' * 4096
            if len(state['buf']) > 4096:          # the header itself arrives promptly
                out, state['buf'] = state['buf'][:min(n, len(state['buf']) - 4096)], state['buf'][min(n, len(state['buf']) - 4096):]
                return out
            if kind == 'huge_then_empty':
                core.clock.advance(tmo)
                return b''
            core.clock.advance(tmo * 0.9)
            out, state['buf'] = state['buf'][:1], state['buf'][1:]
            return out
        if kind == 'foreign_flood':
            # packets of one other stream, thousands of them within the read timeout
            core.clock.advance(0.002)
            if not state['buf']:
                state['buf'] = wire.frame('OKAY', 0x7777, 0x7776)
            out, state['buf'] = state['buf'][:n], state['buf'][n:]
            return out
        if kind == 'trickle_big':
            # one packet of 1 MiB that arrives 8 KiB at a time: every 64 KiB of it within the read timeout, the whole of it not by far
            if 'hdr' not in state:
                state['hdr'] = True
                state['buf'] = wire.frame('WRTE', 0x7777, 0x7776, b'', length=1024 * 1024, check=0)      # (a megabyte of NULs: the checksum is right)
                state['left'] = 1024 * 1024
            if state['buf']:
                out, state['buf'] = state['buf'][:n], state['buf'][n:]
                return out
            if state['left'] <= 0:
                core.clock.advance(tmo)                       # the packet is through (it was for another stream): silence from here on
                raise transports.SimTimeout('read timed out')
            core.clock.advance(max(state['rt'], 0.0) * 0.12 + 0.001)
            k_ = min(n, 8192, state['left'])
            state['left'] -= k_
            return b'\x00' * k_
        if kind == 'trickle':
            if not state['buf']:
                state['buf'] = wire.frame('WRTE', 0x7777, 0x7776, b'', length=1024 * 1024, check=1) + b'\x00' * 4096
            core.clock.advance(tmo * 0.9)
            out, state['buf'] = state['buf'][:1], state['buf'][1:]
            return out
        if kind in ('foreign', 'unexpected', 'foreign_clse', 'empty_wrte'):
            # whole frames, handed out in the pieces the host asks for
            if not state['buf']:
                core.clock.advance(min(tmo, 0.3))
                st = dev.all_streams[-1] if dev.all_streams else None
                if kind == 'foreign_clse':
                    state['n'] = state.get('n', 0) + 1          # a late CLSE of a stream this connection has never heard of, again and again
                    state['buf'] = wire.frame('CLSE', 0x7000 + state['n'] % 7, 0x7100 + state['n'] % 5)
                elif kind == 'foreign' or st is None:
                    state['buf'] = wire.frame('OKAY', 0x7777, 0x7776)
                elif kind == 'empty_wrte':
                    state['buf'] = wire.frame('WRTE', st.rid, st.lid, b'')   # the stream is alive and says nothing (each one is acknowledged by the host)
                else:
                    state['buf'] = wire.frame('SYNC', st.rid, st.lid)
            out, state['buf'] = state['buf'][:n], state['buf'][n:]
            return out
        raise ValueError(kind)
    return stall, state


def run_case(mode, op, j, kind, tt, rt, total, seed, healthy=None, net='mem'):
    dev = simdev.SimDevice(seed=seed)
    dev.shell_scripts[b'shell:x'] = [b'a1', b'b2']
    dev.shell_scripts[b'exec:x'] = [b'a1', b'b2']
    dev.fs.add('/f', scen.fast_pattern(1, 9000))
    dev.fs.dirs['/d'] = [(b'n1', 1, 2, 3), (b'n2', 4, 5, 6)]
    if op == 'push_rejected':
        # the device rejects the file right after SEND (its FAIL is on its way) and then stops acknowledging: a push of many WRITEs
        dev.service_for = lambda dest, d: (simdev.SyncService(d, plan=simdev.SyncFailPlan('SEND', reason=b'read-only')) if dest.rstrip(b'\0') == b'sync:' else None)
        dev.eager = True          # the FAIL goes on the wire as soon as the device has produced it (right behind the OKAY of the first WRITE)
    if op in ('connect_auth', 'connect_auth_none'):
        dev.auth = simdev.AuthPolicy(mode='auth', maxdata=4096, accept_sig=lambda i, s, t: False, pubkey='accept')
    sess = env.Session(mode, dev, tick=TICK, default_transport_timeout_s=None, net=net)
    core = sess.core
    core.max_calls = 6000
    stall, state = make_stall(kind, dev, min(rt, total) if (total is not None and op in ('shell', 'exec_out', 'root', 'reboot')) else rt)
    kw = {}
    if tt is not None:
        kw['transport_timeout_s'] = tt
    kw['read_timeout_s'] = rt
    is_conn = op.startswith('connect')
    if not is_conn:
        o0 = sess.call('connect')
        assert o0.kind == 'ret'
    base_frames = dev.nframes
    dev.budget = j
    core.stall = stall
    n0 = len(core.last_timeouts)

    class K(object):
        def Sign(self, d):
            return b's' * 256

        def GetPublicKey(self):
            return b'pk'
    try:
        if op == 'connect':
            o = sess.call('connect', **kw)
        elif op == 'connect_auth':
            o = sess.call('connect', rsa_keys=[K()], auth_timeout_s=2.0, **kw)
        elif op == 'connect_auth_none':
            o = sess.call('connect', rsa_keys=[K()], auth_timeout_s=None, **kw)      # wait for the user as long as it takes - but not for a device that only sends other things
        elif op in ('shell', 'exec_out'):
            o = sess.call(op, 'x', decode=False, timeout_s=total, **kw)
        elif op == 'streaming_shell':
            o = sess.call(op, 'x', decode=False, **kw)
        elif op in ('root', 'reboot'):
            o = sess.call(op, timeout_s=total, **kw)
        elif op == 'stat':
            o = sess.call('stat', '/f', **kw)
        elif op == 'list':
            o = sess.call('list', '/d', **kw)
        elif op == 'pull':
            buf = io.BytesIO()
            o = sess.call('pull', '/f', buf, **kw)
            if o.kind == 'ret':
                o.value = buf.getvalue()
        elif op == 'pull_cb':
            buf = io.BytesIO()
            o = sess.call('pull', '/f', buf, progress_callback=lambda *a: None, **kw)
            if o.kind == 'ret':
                o.value = buf.getvalue()
        elif op == 'push_dir':
            # a directory: the library first runs `mkdir` over a shell stream of its own, then pushes every file
            o = sess.call('push', push_dir_source(), '/qd', mtime=3, **kw)
            if o.kind == 'ret':
                o.value = sorted((k_, len(v_['data'])) for k_, v_ in dev.fs.files.items() if k_.startswith('/qd'))
        elif op == 'push_rejected':
            o = sess.call('push', io.BytesIO(scen.fast_pattern(2, 60000)), '/q', mtime=3, **kw)
            if healthy is None and o.kind == 'exc' and o.exc_name == 'PushFailedError':
                o = env.Outcome('ret', value='rejected')          # the fault-free run of this operation ends with the device's FAIL
            elif o.kind == 'exc' and o.exc_name == 'PushFailedError':
                o = env.Outcome('ret', value='rejected')
        elif op == 'push':
            o = sess.call('push', io.BytesIO(scen.fast_pattern(2, 9000)), '/q', mtime=3, **kw)
            if o.kind == 'ret':
                o.value = bytes(dev.fs.files.get('/q', {}).get('data', b'missing'))
        hang = False
    except transports.Watchdog:
        o = env.Outcome('exc', exc=transports.Watchdog('budget'))
        hang = True
    hang = hang or (o.kind == 'exc' and o.exc_name == 'Watchdog')
    sess.close_loop()
    frames = dev.nframes - base_frames
    stalled = state['start'] is not None
    elapsed = min(2 ** 26, int(round((sess.clock.time() - state['start']) * 1000))) if stalled else 0
    ms = lambda v: max(-2 ** 26, min(2 ** 26, int(round(v * 1000))))  # noqa   (TLC integers are 32-bit: very large times are capped, order preserved)
    uses_total = op in ('shell', 'exec_out', 'root', 'reboot') and total is not None
    val = repr(o.value) if o.kind == 'ret' else None
    ev = dict(ev='end', op=op, hang=bool(hang), stalled=bool(stalled), elapsed=elapsed, k=12 if op.startswith('pull') else 6,
              rt=ms(rt), tt=ms(tt) if tt is not None else 0, ttNone=tt is None, total=ms(total) if uses_total else 0, totalNone=not uses_total,
              tick=ms(TICK), extra=2000 if op == 'connect_auth' else 0, outcome=o.kind, cls=o.exc_name or '', same=(healthy is None or val == healthy),
              mustFail=False, closing=op.startswith('pull'), stream=not is_conn,
              tmos=[(-1 if t is None else ms(t)) for t in core.last_timeouts[n0:]][:400])
    return ev, frames, val


def body(ctx):
    rng = random.Random(ctx.seed)
    # 1. design
    import os
    import shutil
    ktight = None
    for K, skip, share in ((2, False, False), (3, True, False), (3, False, True), (3, False, False)):
        wd = tlc.workdir('timed')
        try:
            with open(os.path.join(wd, 'MCTimed.tla'), 'w') as f:
                f.write(tlc.mc_module('MCTimed', 'AdbTimed', dict(MC_Grid=tlc.Raw('{0-1, 0, 1, 2, 3, 5}'))))
            cfg = tlc.cfg_text(constants={'Grid': '<- MC_Grid', 'None': '99', 'H': '2', 'PMax': '2', 'K': str(K), 'SkipTotal': 'TRUE' if skip else 'FALSE', 'SharePartTimer': 'TRUE' if share else 'FALSE'},
                               invariants=['Bounded', 'Ordered', 'RightError', 'NotEarly'], deadlock=True)
            r = tlc.run('MCTimed', cfg, wd=wd, module_dir=wd)
        finally:
            shutil.rmtree(wd, ignore_errors=True)
        ctx.add_tlc(r, 'AdbTimed K=%d%s' % (K, ' (sanity mutation: no whole-command check)' if skip else (' (sanity mutation: one timer per packet)' if share else '')))
        names = [v['name'] for v in r.violations]
        if share:
            if 'NotEarly' not in names:
                raise tlc.TlcError('vacuity: NotEarly must fail when header and payload share one timer')
            continue
        if skip:
            if 'Bounded' not in names:
                raise tlc.TlcError('vacuity: Bounded must fail when data packets skip the whole-command check')
            continue
        if K == 2 and 'Bounded' not in names:
            raise tlc.TlcError('vacuity: Bounded with K=2 is expected to fail')
        if K == 3:
            if names:
                ctx.violation('C11.' + names[0] + '(design)', dict(kind='design-counterexample', state=r.violations[0]['trace'][-1][:600]))
                return
            ktight = 3
    ctx.extra['tightest_K_in_design_model'] = ktight
    # 2. real code
    grid_t = [None, -1, 0, 0.5, 2, 1e-6, 1e9]          # also: next to nothing, and practically for ever (time arithmetic with very large values)
    grid_r = [-1, 0, 1, 3, 1e-6]          # (a read timeout of 1e9 s is honoured by waiting: the call budget of the harness ends first, not the library)
    grid_total = [None, -1, 0, 2]
    kinds = ['raise', 'empty', 'trickle', 'foreign', 'unexpected', 'trickle_huge', 'huge_then_empty', 'foreign_flood', 'trickle_big']
    traces, meta = [], []
    for mode in ('sync', 'async'):
        for op in OPS:
            hv, nfr, val = run_case(mode, op, 10 ** 6, 'raise', None, 3, None, ctx.seed)
            if hv['outcome'] != 'ret':
                raise tlc.TlcError('healthy %s %s does not return: %s' % (mode, op, hv['cls']))
            points = list(range(nfr + 1))
            for j in points:
                combos = list(itertools.product(kinds, grid_t, grid_r, grid_total if op in ('shell', 'exec_out', 'root', 'reboot') else [None]))
                if ctx.quick:
                    rng.shuffle(combos)
                    combos = combos[:6]
                # a stream that keeps sending empty WRITEs is a stall only for a command with a whole-command limit
                extra = [('foreign_clse', tt, rt, None) for tt in (None, 0.5) for rt in (1, 3)] if not op.startswith('connect') else []
                if op in ('shell', 'exec_out', 'root') and j >= 1:
                    extra += [('empty_wrte', tt, 3, total) for tt in (None, 0.5) for total in (2, 0)]
                if ctx.quick:
                    rng.shuffle(extra)
                    extra = extra[:2]
                if not op.startswith('connect') and j >= 1:
                    extra += [('foreign_flood', (None, 0.5)[j % 2], 30, None)]          # thousands of packets of one other stream within the read timeout
                if op == 'connect_auth_none':
                    extra += [(kd, tt_, rt_, None) for kd in ('foreign', 'foreign_clse', 'empty') for tt_ in (None, 0.5) for rt_ in (1, 3)]
                if op == 'push_rejected':
                    # the device stops acknowledging after its FAIL is on the wire: end-of-stream reads / foreign traffic, real timeouts
                    extra += [(kd, tt_, rt_, None) for kd in ('empty', 'foreign') for tt_ in (None, 0.5) for rt_ in (1, 3)]
                combos += extra
                for (kind, tt, rt, total) in combos:
                    ev, _, _ = run_case(mode, op, j, kind, tt, rt, total, ctx.seed, healthy=val)
                    # with every packet delivered the call must still return the healthy value; if it raises early because
                    # a timeout value is <= 0 that is a timeout error, which Bounded/RightError judge
                    traces.append([ev])
                    meta.append(dict(kind='stall', mode=mode, op=op, after_packets=j, stall=kind, transport_timeout_s=tt, read_timeout_s=rt, timeout_s=total))
    # the same grid over the library's own TCP transports on a virtual network (their select / async_timeout waits are in the loop)
    for mode in ('sync', 'async'):
        for op in ['connect', 'shell', 'stat', 'pull', 'push']:
            hv, nfr, val = run_case(mode, op, 10 ** 6, 'raise', None, 3, None, ctx.seed, net='tcp')
            if hv['outcome'] != 'ret':
                raise tlc.TlcError('healthy %s %s over the virtual TCP transport does not return: %s' % (mode, op, hv['cls']))
            for j in range(nfr + 1):
                combos = list(itertools.product(kinds + ([] if op == 'connect' else ['foreign_clse']), [None, 0, 0.5, 2], [0, 1, 3], [None]))
                if ctx.quick:
                    rng.shuffle(combos)
                    combos = combos[:4]
                for (kind, tt, rt, total) in combos:
                    ev, _, _ = run_case(mode, op, j, kind, tt, rt, total, ctx.seed, healthy=val, net='tcp')
                    traces.append([ev])
                    meta.append(dict(kind='stall', net='TcpTransport on a virtual network', mode=mode, op=op, after_packets=j, stall=kind, transport_timeout_s=tt, read_timeout_s=rt, timeout_s=total))
    ver, r2 = tlc.validate_traces('TraceTimed', traces)
    ctx.add_tlc(r2, 'TraceTimed over %d stalled operations' % len(traces))
    okn = 0
    for (i, l, v) in ver:
        if v == 'ok':
            okn += 1
        else:
            e = dict(traces[i][0])
            e['tmos'] = e['tmos'][:10]
            ctx.violation(v, dict(meta[i], event=e))
    ctx.count(traces=okn, evaluations=len(traces), distinct=len(traces))
    ctx.extra['stalled_runs'] = sum(1 for t in traces if t[0]['stalled'])
    ctx.extra['max_elapsed_over_bound_ratio'] = None
    ctx.sample(dict(meta[5], event={k: v for k, v in traces[5][0].items() if k != 'tmos'}))
    ctx.assumptions += ['virtual clock: every transport call costs 10 ms, a timed-out call costs its timeout',
                        'bound K = 6 (12 for pull, which closes its stream afterwards) has a factor 2 of slack over the design model (K = 3)']


if __name__ == '__main__':
    main('C11', 'model_checking', body)
