"""C19 - packet store semantics.

1. TLC explores tla/AdbStore.tla (every operation sequence within the bounds) and checks the
   properties of the spec itself (FIFO, sound/complete lookup, CLSE forgets, len).
2. spec->code: the labelled state graph streamed by TLC is walked on the real _AdbPacketStore: every
   operation sequence up to the bound is executed; each real step must be an edge of the graph (same
   operation, same result, target = projection of the real store).
3. code->spec: long random histories over larger id domains are validated by TLC against TraceStore.
"""
import json
import random

from .. import env, tlc
from ..framework import main

NONE = 99


def edges_from_tlc(ctx, ids, cmds, nops):
    cfg = tlc.cfg_text(constants={'Ids': '{' + ','.join(map(str, ids)) + '}', 'Cmds': '{' + ','.join('"%s"' % c for c in cmds) + '}',
                                  'MaxLevel': str(nops + 1)},
                       invariants=['TypeOK', 'FifoQueues'], properties=['StepProps'], constraints=['Bound'], view='View',
                       action_constraints=['EmitEdge'])
    r = tlc.cached_run('AdbStore', cfg, depends=('AdbStore',))
    if r.violations:
        raise tlc.TlcError('AdbStore violates its own properties: %s' % r.violations[0]['name'])
    ctx.add_tlc(r, 'AdbStore ids=%s nops=%d (edge stream)' % (ids, nops))
    g = {}
    n = 0
    for e in tlc.printed(r, 'EDGE'):
        n += 1
        g.setdefault(canon(e['from']), []).append((e['op'], canon(e['to'])))
    return g, n


def canon(st):
    return json.dumps(sorted(({'a0': x['a0'], 'a1': x['a1'], 'q': [[p['c'], p['d']] if isinstance(p, dict) else list(p) for p in x['q']]} for x in st),
                             key=lambda x: (x['a0'], x['a1'])), sort_keys=True)


# payloads: the model names a packet's data by a small integer d; the real payload of some of them is chosen to look like something else
# (a command word, nothing at all): the store must treat a payload as opaque
SPECIAL = {2: b'CLSE', 3: b'', 4: b'OKAY', 5: b'WRTE', 6: b'\x00' * 4}
UNSPECIAL = {v: k for k, v in SPECIAL.items()}


def enc(d):
    return SPECIAL.get(d, str(d).encode())


def dec(b):
    b = bytes(b)
    if b in UNSPECIAL:
        return UNSPECIAL[b]
    try:
        return int(b)
    except ValueError:
        return 9999          # a payload this store was never given (the model has no such packet: the step is rejected)


def project(store):
    out = []
    for a1, m in store._dict.items():
        for a0, q in m.items():
            items = env.queue_items(q)         # asyncio.Queue / queue.Queue keep a deque in _queue; a plain deque or list is taken as it is; wrappers are looked into
            if items:
                out.append({'a0': a0, 'a1': a1, 'q': [[c.decode(), dec(d)] for c, d in items]})
    return out


def concrete_fp(store):
    return repr(sorted((a1, a0, [(c, bytes(d)) for c, d in env.queue_items(q)]) for a1, m in store._dict.items() for a0, q in m.items()))


def pat(v):
    return None if v == NONE else v


def apply_op(store, op):
    """Apply the model operation to the real store; returns the observed result in model terms."""
    k = op['op']
    if k == 'put':
        store.put(op['a0'], op['a1'], op['c'].encode(), enc(op['d']))
        return None
    if k == 'find':
        r = store.find(pat(op['a0']), pat(op['a1']))
        return list(r) if r else []
    if k == 'findz':
        r = store.find_allow_zeros(pat(op['a0']), pat(op['a1']))
        return list(r) if r else []
    if k == 'get':
        c, a0, a1, d = store.get(pat(op['a0']), pat(op['a1']))
        return dict(res=[a0, a1], c=c.decode(), d=dec(d))
    if k == 'clear':
        store.clear(op['a0'], op['a1'])
        return None
    if k == 'clear_all':
        store.clear_all()
        return None
    if k == 'len':
        return len(store)
    if k == 'contains':
        return (pat(op['a0']), pat(op['a1'])) in store
    raise AssertionError(k)


def opkey(op):
    return (op['op'], op.get('a0'), op.get('a1'), op.get('c') if op['op'] == 'put' else None)


def matches(op, res):
    k = op['op']
    if k in ('put', 'clear', 'clear_all'):
        return True
    if k in ('find', 'findz'):
        return op['res'] == res
    if k == 'get':
        return op['res'] == res['res'] and op['c'] == res['c'] and op['d'] == res['d']
    if k in ('len', 'contains'):
        return op['res'] == res
    return False


def walk(ctx, graph, nops, label):
    """Every operation sequence of length <= nops on the real store, pruned on (model state, concrete state)."""
    Store = env.mods()['hh']._AdbPacketStore
    init = canon([])
    seen = set()
    stats = dict(nodes=0, steps=0, maxdepth=0, ops=set())

    def build(seq):
        s = Store()
        for op in seq:
            apply_op(s, op)
        return s

    import collections
    stack = collections.deque([((), init)])
    while stack:
        seq, ms = stack.popleft()
        s0 = build(seq)
        key = (ms, concrete_fp(s0))
        if key in seen:
            continue
        seen.add(key)
        stats['nodes'] += 1
        stats['maxdepth'] = max(stats['maxdepth'], len(seq))
        if len(seq) >= nops:
            continue
        out = graph.get(ms)
        if out is None:
            raise tlc.TlcError('model state missing from the edge stream: %s' % ms)
        groups = {}
        for op, to in out:
            groups.setdefault(opkey(op), []).append((op, to))
        for gk, alts in groups.items():
            s = build(seq)
            op0 = alts[0][0]
            try:
                res = apply_op(s, op0)
            except Exception as e:  # noqa
                if ctx.violation('C19.' + op0['op'] + '.Raises', dict(model=label, ops=list(seq) + [op0], error=repr(e))):
                    return stats
                continue
            stats['steps'] += 1
            stats['ops'].add(gk[0])
            real = canon(project(s))
            ok = [(op, to) for op, to in alts if matches(op, res) and to == real]
            if not ok:
                clause = {'put': 'PutUnderOwnKeyFifo', 'find': 'FindSoundComplete', 'findz': 'FindSoundComplete', 'get': 'GetFifoOwnKey',
                          'clear': 'ClearForgets', 'clear_all': 'ClearAllForgets', 'len': 'LenIsPendingKeys', 'contains': 'ContainsIffFind'}[op0['op']]
                ctx.violation('C19.' + clause, dict(model=label, ops=list(seq) + [op0], real_result=res, real_state=json.loads(real),
                                                     model_edges=[(op, json.loads(to)) for op, to in alts][:6]))
                if len(ctx.violations) >= 3:
                    return stats
                continue
            if True:
                chosen = ok[0]
                stack.append((seq + (dict(chosen[0]),), chosen[1]))
    return stats


def random_traces(ctx, n, length, ids, rng, idmap=None):
    """Random histories on the real store, logged with results and the projected state after each op."""
    Store = env.mods()['hh']._AdbPacketStore
    cmds = ['OKAY', 'WRTE', 'CLSE']
    idmap = idmap or (lambda x: x)
    inv = {idmap(i): i for i in ids}

    def proj(s):
        return [{'a0': inv[x['a0']], 'a1': inv[x['a1']], 'q': [{'c': c, 'd': d} for c, d in x['q']]} for x in project(s)]

    traces = []
    # the environment of the store under test: wall-clock time passes (hours at a time), and other stores exist in the same process
    # (every device object has one) and are created, filled and cleared in between - none of which the store may notice
    from .. import simdev as simdev_
    import time as real_time
    clock = simdev_.VClock()
    env.bind_time(clock)
    for _ in range(n):
        s = Store()
        others = [Store()]
        tr = []
        dcount = {}
        for _ in range(length):
            x_ = rng.random()
            if x_ < 0.08:
                clock.advance(rng.choice([61.0, 3700.0, 200000.0]))
            elif x_ < 0.14:
                others.append(Store())
            elif x_ < 0.22:
                o_ = rng.choice(others)
                o_.put(idmap(rng.choice(ids)), idmap(rng.choice(ids)), rng.choice(cmds).encode(), b'other')
            elif x_ < 0.25:
                rng.choice(others).clear_all()
            kind = rng.choice(['put'] * 4 + ['find', 'findz', 'get', 'get', 'clear', 'len', 'contains'] + (['clear_all'] if rng.random() < 0.1 else []))
            a0, a1 = rng.choice(ids), rng.choice(ids)
            p0 = rng.choice(ids + [NONE]) if rng.random() < 0.4 else a0
            p1 = rng.choice(ids + [NONE]) if rng.random() < 0.4 else a1
            R = lambda v: None if v == NONE else idmap(v)  # noqa
            ev = None
            if kind == 'put':
                c = rng.choice(cmds)
                cur = [x for x in project(s) if x['a0'] == idmap(a0) and x['a1'] == idmap(a1)]
                d = (cur[0]['q'][-1][1] if cur else 0) + 1
                s.put(idmap(a0), idmap(a1), c.encode(), enc(d))
                ev = dict(op='put', a0=a0, a1=a1, c=c, d=d)
            elif kind in ('find', 'findz'):
                r = s.find(R(p0), R(p1)) if kind == 'find' else s.find_allow_zeros(R(p0), R(p1))
                ev = dict(op=kind, a0=p0, a1=p1, res=[inv[r[0]], inv[r[1]]] if r else [])
            elif kind == 'get':
                if not s.find(R(p0), R(p1)):
                    continue
                c, r0, r1, d = s.get(R(p0), R(p1))
                ev = dict(op='get', a0=p0, a1=p1, res=[inv[r0], inv[r1]], c=c.decode(), d=dec(d))
            elif kind == 'clear':
                s.clear(idmap(a0), idmap(a1))
                ev = dict(op='clear', a0=a0, a1=a1)
            elif kind == 'clear_all':
                s.clear_all()
                ev = dict(op='clear_all')
            elif kind == 'len':
                ev = dict(op='len', n=len(s))
            elif kind == 'contains':
                ev = dict(op='contains', a0=p0, a1=p1, b=(R(p0), R(p1)) in s)
            ev['st'] = proj(s)
            tr.append(ev)
        traces.append(tr)
    env.bind_time(real_time)
    return traces


def deep_trace(depth):
    Store = env.mods()['hh']._AdbPacketStore
    s = Store()
    tr = []

    def proj():
        return [{'a0': x['a0'], 'a1': x['a1'], 'q': [{'c': c, 'd': d} for c, d in x['q']]} for x in project(s)]
    for d in range(1, depth + 1):
        s.put(1, 2, b'WRTE', enc(d))
        ev = dict(op='put', a0=1, a1=2, c='WRTE', d=d)
        if d % 50 == 0 or d == depth:
            ev['st'] = proj()
            tr.append(ev)
        if d % 97 == 0:
            s.put(2, 2, b'OKAY', b'1')
            c, a0, a1, dd = s.get(2, 2)
    # only the final state of the filling phase is logged in full; then every get is checked against the model
    tr = [dict(op='fill', a0=1, a1=2, n=depth, st=proj())]
    for d in range(1, depth + 1):
        try:
            c, a0, a1, dd = s.get(1, 2)
        except Exception as e:  # noqa
            tr.append(dict(op='raised', what='get(1, 2) with %d packets still pending in the model: %r' % (depth - d + 1, e)))
            break
        ev = dict(op='get', a0=1, a1=2, res=[a0, a1], c=c.decode(), d=dec(dd))
        if d % max(25, depth // 20) == 0 or d > depth - 3:
            ev['st'] = proj()
        else:
            ev['op'] = 'getq'
        tr.append(ev)
    return tr


def wide_trace(npairs):
    """More than a thousand streams with something pending at the same time (abandoned streams pile up), then traffic on new ones."""
    Store = env.mods()['hh']._AdbPacketStore
    s = Store()
    tr = []

    def proj():
        return [{'a0': x['a0'], 'a1': x['a1'], 'q': [{'c': c, 'd': d} for c, d in x['q']]} for x in project(s)]
    for j in range(1, npairs + 1):
        s.put(7, j, b'WRTE', enc(1))
        tr.append(dict(op='putq', a0=7, a1=j, c='WRTE', d=1))
    # the last one with the full state, then new streams: packets parked for them must be retrievable
    tr[-1] = dict(tr[-1], op='put', st=proj())
    for j in range(npairs + 1, npairs + 6):
        for d in (1, 2):
            s.put(7, j, b'WRTE', enc(d))
            tr.append(dict(op='putq', a0=7, a1=j, c='WRTE', d=d))
        for d in (1, 2):
            try:
                c, a0, a1, dd = s.get(7, j)
            except Exception as e:  # noqa
                tr.append(dict(op='raised', what='get(7, %d): %r' % (j, e)))
                return tr, [[7, k] for k in range(1, npairs + 7)]
            tr.append(dict(op='getq', a0=7, a1=j, res=[a0, a1], c=c.decode(), d=dec(dd)))
        tr.append(dict(op='len', n=len(s), st=proj()))
    return tr, [[7, k] for k in range(1, npairs + 7)]


def validate(ctx, traces, ids, label, expect_fail=False, keys=None):
    consts = {'Ids': '{' + ','.join(map(str, ids)) + '}', 'Cmds': '{"OKAY","WRTE","CLSE"}'}
    ver, r = tlc.validate_traces('TraceStore', traces, constants=consts, extra_data=dict(keys=keys) if keys else None)
    ctx.add_tlc(r, 'TraceStore ' + label)
    bad = [(i, l, v) for i, l, v in ver if v != 'ok']
    if expect_fail:
        return bad
    ctx.count(traces=len(traces) - len(bad))
    for i, l, v in bad[:3]:
        if v.startswith('ENV.'):
            raise tlc.TlcError('environment clause %s failed in trace %d at event %d' % (v, i, l - 1))
        ctx.violation(v, dict(kind='history', label=label, failing_event=l - 1, trace=traces[i][:l]))
    return bad


PLANS = [([0, 1, 2], 3), ([0, 1], 5)]


class _NoCtx(object):
    def add_tlc(self, *a, **k):
        pass


def warm():
    for ids, nops in PLANS:
        edges_from_tlc(_NoCtx(), ids, ['OKAY', 'WRTE', 'CLSE'], nops)


def body(ctx):
    rng = random.Random(ctx.seed)
    cmds = ['OKAY', 'WRTE', 'CLSE']
    # (ids, nops): the quantifier of C19 is 3x3 ids / 3 ops and 2x2 ids / 5 ops
    plans = PLANS
    for ids, nops in plans:
        g, ne = edges_from_tlc(ctx, ids, cmds, nops)
        st = walk(ctx, g, nops, 'ids=%s nops=%d' % (ids, nops))
        ctx.count(evaluations=st['steps'], distinct=st['nodes'])
        ctx.extra.setdefault('walks', []).append(dict(ids=ids, nops=nops, model_states=len(g), model_edges=ne, real_nodes=st['nodes'],
                                                      real_steps=st['steps'], ops=sorted(st['ops']), exhaustive=True))
        if ctx.violations:
            return
    ctx.cov['exhaustive'] = True
    # code->spec: long random histories, small and 32-bit ids
    n, length = (150, 60) if ctx.quick else (1500, 120)
    ids6 = [0, 1, 2, 3, 4, 5]
    tr = random_traces(ctx, n, length, ids6, rng)
    validate(ctx, tr, ids6, 'random 6x6')
    big = {0: 0, 1: 1, 2: 0x7FFFFFFF, 3: 0x80000000, 4: 0xFFFFFFFE, 5: 0xFFFFFFFF}
    tr2 = random_traces(ctx, n // 3, length, ids6, rng, idmap=lambda i: big[i])
    validate(ctx, tr2, ids6, 'random ids near 2^31/2^32 (ranked)')
    # deep queues: hundreds to thousands of packets parked for one pair while another pair is served (FIFO must hold at any depth)
    deep = []
    for depth in ((300, 5000) if ctx.quick else (300, 1000, 5000, 20000)):
        deep.append(deep_trace(depth))
    validate(ctx, deep, [0, 1, 2], 'deep queues')
    # wide: more than a thousand pairs with something pending
    wt, wkeys = wide_trace(1100 if ctx.quick else 5000)
    validate(ctx, [wt], [0, 1, 2], 'more than a thousand pending streams', keys=wkeys)
    ctx.sample(dict(kind='history', events=tr[0][:8]))
    # binding self-test: a corrupted history must be rejected
    import copy
    t = copy.deepcopy(tr[0])
    for e in t:
        if e['op'] == 'len':
            e['n'] += 1
            break
    else:
        t.append(dict(op='len', n=99, st=t[-1]['st']))
    bad = validate(ctx, [t], ids6, 'sabotaged history (must be rejected)', expect_fail=True)
    if not bad:
        raise tlc.TlcError('binding self-test failed: a corrupted history was accepted')
    ctx.extra['sabotage_rejected'] = bad[0][2]
    ctx.assumptions += ['projection reads _AdbPacketStore._dict (pinned by the repository tests) and whatever container holds the packets of a stream',
                        'parking a CLSE for a pair with nothing pending may be kept or dropped (left open by C19; see C06/K1)']


if __name__ == '__main__':
    main('C19', 'model_checking', body)
