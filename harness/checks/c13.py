"""C13 - nothing is sent unless connected; availability tracks the connection truthfully.

1. TLC explores AdbApi (all life-cycle letters from both states) and checks GuardFirst / EmptyPath /
   AvailableExactly on the specification.
2. spec->code: the labelled graph is walked on fresh AdbDevice and AdbDeviceAsync objects: every sequence over
   the full alphabet {connect-ok, connect-fail x 5 kinds, close, 13 operations x path empty/non-empty} up to
   length 3, and up to length 5 over operation classes; after every step the outcome class, the number of
   bytes written to the transport, .available and the scratch directory are compared with the model edge.
"""
import io
import itertools
import os
import shutil
import tempfile

from .. import env, simdev, tlc, transports, wire
from ..framework import main

FAILS = ['transport', 'silent', 'nokeys', 'badauth', 'checksum']
PATH_APIS = ['list', 'stat', 'pull', 'push']
OTHER_APIS = ['shell', 'exec_out', 'streaming_shell', 'root', 'reboot']


def graph(ctx):
    cfg = tlc.cfg_text(constants={'FailKinds': '{' + ','.join('"%s"' % k for k in FAILS) + '}'}, properties=['GuardFirst', 'EmptyPath', 'AvailableExactly'],
                       view='View', action_constraints=['EmitEdge'])
    r = tlc.cached_run('AdbApi', cfg, depends=('AdbApi',))
    if r.violations:
        raise tlc.TlcError('AdbApi violates %s' % r.violations[0]['name'])
    ctx.add_tlc(r, 'AdbApi')
    g = {}
    for e in tlc.printed(r, 'EDGE'):
        g.setdefault(e['from'], []).append((e['op'], e['to']))
    return g


class Obj(object):
    """A fresh device object whose simulated device can be told how the next connect() goes."""

    def __init__(self, mode, tmp):
        self.mode = mode
        self.tmp = tmp
        self.plan = 'ok'
        outer = self

        class Auth(simdev.AuthPolicy):
            def on_cnxn(self, dev, h):
                p = outer.plan
                if p == 'silent':
                    return []
                if p == 'nokeys':
                    return [wire.frame('AUTH', 1, 0, b'\x01' * 20)]
                if p == 'badauth':
                    return [wire.frame('AUTH', 1, 0, b'\x01' * 20)]
                if p == 'checksum':
                    return [wire.frame('CNXN', 0x01000000, 4096, b'device::\0', check=12345)]
                return simdev.AuthPolicy.on_cnxn(self, dev, h)

            def on_auth(self, dev, h):
                if outer.plan == 'badauth':
                    return [wire.frame('AUTH', 9, 0, b'\x02' * 20)]
                return simdev.AuthPolicy.on_auth(self, dev, h)
        self.dev = simdev.SimDevice(auth=Auth())
        self.dev.fs.add('/f', b'data')
        self.dev.fs.dirs['/d'] = [(b'x', 1, 2, 3)]
        self.sess = env.Session(mode, self.dev)
        core = self.sess.core
        orig = core.connect

        def connect(timeout):
            if outer.plan == 'transport':
                core._call('connect', timeout)
                raise transports.SimTimeout('connect failed')
            return orig(timeout)
        core.connect = connect
        self.nfile = 0

    def signer(self):
        class S(object):
            def Sign(self, data):
                return b'sig'

            def GetPublicKey(self):
                return b'pub'
        return S()

    def step(self, letter):
        s = self.sess
        w0 = s.core.written
        files0 = sorted(os.listdir(self.tmp))
        if letter[0] == 'connect':
            self.plan = letter[1]
            kw = dict(read_timeout_s=1.0, transport_timeout_s=1.0, auth_timeout_s=1.0)
            if letter[1] == 'badauth':
                kw['rsa_keys'] = [self.signer(), self.signer()]
            o = s.call('connect', **kw)
        elif letter[0] == 'close':
            o = s.call('close')
        else:
            api, empty = letter[1], letter[2]
            path = '' if empty else {'list': '/d', 'stat': '/f', 'pull': '/f', 'push': '/new'}.get(api, '')
            if api in ('shell', 'exec_out', 'streaming_shell'):
                o = s.call(api, 'cmd')
            elif api in ('root', 'reboot'):
                o = s.call(api)
            elif api in ('list', 'stat'):
                o = s.call(api, path)
            elif api == 'pull':
                self.nfile += 1
                o = s.call('pull', path, os.path.join(self.tmp, 'pulled%d' % self.nfile))
            else:
                o = s.call('push', io.BytesIO(b'abc'), path)
        return dict(out=('ok' if o.kind == 'ret' else o.exc_name), wrote=s.core.written > w0, avail=bool(s.device.available),
                    files_created=sorted(set(os.listdir(self.tmp)) - set(files0)), ret=(o.value if o.kind == 'ret' else None))


def letter_of(op):
    if op['op'] == 'connect_ok':
        return ('connect', 'ok')
    if op['op'] == 'connect_fail':
        return ('connect', op['kind'])
    if op['op'] == 'close':
        return ('close',)
    return ('op', op['api'], op['empty'])


def check_step(g, state, letter, obs):
    """Return (clause or None, next model state)."""
    alts = [(op, to) for op, to in g[state] if letter_of(op) == letter]
    for op, to in alts:
        out_ok = (op['out'] == obs['out']) or (op['out'] == 'raises' and obs['out'] != 'ok')
        if out_ok and obs['avail'] == to and (op['wrote'] or not obs['wrote']) and (op['out'] == 'ok' or not obs['files_created'] or letter[0] != 'op'):
            if letter == ('connect', 'ok') and obs['ret'] is not True:
                continue
            return None, to
    op, to = alts[0]
    if obs['avail'] != to:
        return 'C13.AvailableExactly', to
    if obs['wrote'] and not any(o['wrote'] for o, _ in alts):
        return 'C13.NothingWritten', to
    if obs['files_created'] and letter[0] == 'op':
        return 'C13.NoLocalFile', to
    if letter[0] == 'op' and letter[2]:
        return 'C13.EmptyPath', to
    return 'C13.GuardFirst', to


def walk(ctx, g, mode, alphabet, length, tmp, label):
    n = 0
    for seq in itertools.product(alphabet, repeat=length):
        o = Obj(mode, tmp)
        state = False
        try:
            for i, letter in enumerate(seq):
                obs = o.step(letter)
                n += 1
                clause, state = check_step(g, state, letter, obs)
                if clause:
                    obs.pop('ret', None)
                    ctx.violation(clause, dict(kind='sequence', mode=mode, letters=[list(x) for x in seq[:i + 1]], observed=obs, label=label))
                    if len(ctx.violations) >= 3:
                        return n
                    break
        finally:
            o.sess.close_loop()
            for f in os.listdir(tmp):
                os.remove(os.path.join(tmp, f))
    return n


def body(ctx):
    g = graph(ctx)
    full = [('connect', 'ok')] + [('connect', k) for k in FAILS] + [('close',)] + [('op', a, e) for a in PATH_APIS for e in (False, True)] + [('op', a, False) for a in OTHER_APIS]
    classes = [('connect', 'ok'), ('connect', 'silent'), ('connect', 'nokeys'), ('close',), ('op', 'shell', False), ('op', 'stat', False), ('op', 'list', True),
               ('op', 'streaming_shell', False), ('op', 'pull', False)]
    tmp = tempfile.mkdtemp(prefix='c13-', dir=tlc.WORK if os.path.isdir(tlc.WORK) else None)
    try:
        total = 0
        for mode in ('sync', 'async'):
            total += walk(ctx, g, mode, full, 3 if ctx.quick else 4, tmp, 'full alphabet')
            if ctx.violations:
                break
            total += walk(ctx, g, mode, classes, 4 if ctx.quick else 6, tmp, 'operation classes')
            if ctx.violations:
                break
    finally:
        shutil.rmtree(tmp, ignore_errors=True)
    ctx.count(evaluations=total, distinct=len(full) ** (3 if ctx.quick else 4) + len(classes) ** (4 if ctx.quick else 6))
    ctx.cov['exhaustive'] = True
    ctx.cov['traces_validated_against_impl'] = 2 * (len(full) ** (3 if ctx.quick else 4) + len(classes) ** (4 if ctx.quick else 6))
    ctx.sample(dict(kind='sequence', letters=[['connect', 'silent'], ['op', 'pull', False], ['connect', 'ok'], ['close'], ['op', 'stat', False]]))
    ctx.assumptions += ['when the path is empty and the device unavailable either documented exception is accepted',
                        'operations on an available device against a healthy simulator must return normally']


if __name__ == '__main__':
    main('C13', 'model_checking', body)
