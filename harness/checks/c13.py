"""C13 - nothing is sent unless connected; availability tracks the connection truthfully.

1. TLC explores AdbApi (all life-cycle letters from both states) and checks GuardFirst / EmptyPath /
   AvailableExactly on the specification.
2. spec->code: the labelled graph is walked on fresh AdbDevice and AdbDeviceAsync objects: every sequence over
   the full alphabet {connect-ok, connect-fail x 7 kinds (incl. a cancelled / BaseException connect), close,
   close whose transport close raises, 13 operations x path empty/non-empty, streaming generator handed out /
   item requested} up to length 3, and up to length 5 over operation classes; after every step the outcome
   class, whether the transport was asked to write, .available and the scratch directory are compared with the
   model edges (the model is nondeterministic in the generator's length: the set of possible model states is
   carried along).
"""
import asyncio
import io
import itertools
import json
import os
import shutil
import tempfile

from .. import env, simdev, tlc, transports, wire
from ..framework import main

FAILS = ['transport', 'silent', 'nokeys', 'badauth', 'checksum', 'cancel', 'cancel_read', 'badkeys']


class Interrupt(BaseException):
    """What a sync caller can be hit by inside connect(): not an Exception."""
PATH_APIS = ['list', 'stat', 'pull', 'push']
OTHER_APIS = ['shell', 'exec_out', 'streaming_shell', 'root', 'reboot']


def graph(ctx):
    cfg = tlc.cfg_text(constants={'FailKinds': '{' + ','.join('"%s"' % k for k in FAILS) + '}'}, properties=['GuardFirst', 'EmptyPath', 'AvailableExactly', 'NothingSentUnlessConnected', 'FreshGenIsAnOperation'],
                       view='View', action_constraints=['EmitEdge'])
    r = tlc.cached_run('AdbApi', cfg, depends=('AdbApi',))
    if r.violations:
        raise tlc.TlcError('AdbApi violates %s' % r.violations[0]['name'])
    ctx.add_tlc(r, 'AdbApi')
    g = {}
    for e in tlc.printed(r, 'EDGE'):
        g.setdefault(skey(e['from']), []).append((e['op'], skey(e['to'])))
    return g


def skey(st):
    return (bool(st['a']), st['g'])


class Obj(object):
    """A fresh device object whose simulated device can be told how the next connect() goes."""

    def __init__(self, mode, tmp):
        self.mode = mode
        self.tmp = tmp
        self.plan = 'ok'
        outer = self

        class Auth(simdev.AuthPolicy):
            def on_cnxn(self, dev, h):
                p = outer.plan
                if p == 'silent':
                    return []
                if p in ('nokeys', 'badkeys'):
                    return [wire.frame('AUTH', 1, 0, b'\x01' * 20)]
                if p == 'badauth':
                    return [wire.frame('AUTH', 1, 0, b'\x01' * 20)]
                if p == 'checksum':
                    return [wire.frame('CNXN', 0x01000000, 4096, b'device::\0', check=12345)]
                return simdev.AuthPolicy.on_cnxn(self, dev, h)

            def on_auth(self, dev, h):
                if outer.plan == 'badauth':
                    return [wire.frame('AUTH', 9, 0, b'\x02' * 20)]
                return simdev.AuthPolicy.on_auth(self, dev, h)
        self.dev = simdev.SimDevice(auth=Auth())
        self.dev.default_script = [b'one', b'two']
        self.dev.fs.add('/f', b'data')
        self.dev.fs.dirs['/d'] = [(b'x', 1, 2, 3)]
        self.sess = env.Session(mode, self.dev)
        core = self.sess.core
        orig = core.connect

        def connect(timeout):
            if outer.plan == 'transport':
                core._call('connect', timeout)
                raise transports.SimTimeout('connect failed')
            if outer.plan == 'cancel':
                core._call('connect', timeout)
                raise (asyncio.CancelledError() if mode == 'async' else Interrupt())
            return orig(timeout)
        core.connect = connect
        orig_read = core.read

        def read(n, timeout):
            if outer.plan == 'cancel_read':
                outer.plan = 'ok'
                core._call('bulk_read', (n, timeout))
                raise (asyncio.CancelledError() if mode == 'async' else Interrupt())
            return orig_read(n, timeout)
        core.read = read
        orig_close = core.close

        def close():
            orig_close()
            if outer.close_fails:
                outer.close_fails = False
                raise OSError('the transport could not be closed cleanly (device unplugged)')
        core.close = close
        self.close_fails = False
        self.gen = None
        self.nfile = 0
        # what `available` says while a connect() attempt is running, sampled at every transport call of the attempt
        self.in_connect, self.during = False, []
        orig_call = core._call

        def _call(kind, detail=None):
            if outer.in_connect:
                outer.during.append(bool(outer.sess.device.available))
            return orig_call(kind, detail)
        core._call = _call

    def signer(self):
        class S(object):
            def Sign(self, data):
                return b'sig'

            def GetPublicKey(self):
                return b'pub'
        return S()

    def step(self, letter):
        s = self.sess
        w0 = self.nwrites()
        files0 = sorted(os.listdir(self.tmp))
        if letter[0] == 'connect':
            self.plan = letter[1]
            kw = dict(read_timeout_s=1.0, transport_timeout_s=1.0, auth_timeout_s=1.0)
            if letter[1] == 'badauth':
                kw['rsa_keys'] = [self.signer(), self.signer()]
            if letter[1] == 'badkeys':
                def lazy_keys():
                    raise FileNotFoundError('adbkey: no such file (keys loaded lazily)')
                    yield None  # noqa
                kw['rsa_keys'] = lazy_keys()         # any iterable of signers; this one fails when it is iterated
            self.in_connect, self.during = True, []
            try:
                o = s.call('connect', **kw)
            finally:
                self.in_connect = False
        elif letter[0] == 'close':
            self.close_fails = len(letter) > 1
            o = s.call('close')
            self.close_fails = False
        elif letter[0] == 'gen_create':
            o = self.guarded('streaming_shell()', lambda: s.device.streaming_shell('cmd'))
            if o.kind == 'ret':
                self.gen, o.value = o.value, None
        elif letter[0] == 'gen_next':
            g = self.gen
            if s.mode == 'sync':
                o = self.guarded('next(gen)', lambda: next(g))
            else:
                o = self.guarded('anext(gen)', lambda: s.loop.run_until_complete(g.__anext__()))
        else:
            api, empty = letter[1], letter[2]
            path = '' if empty else {'list': '/d', 'stat': '/f', 'pull': '/f', 'push': '/new'}.get(api, '')
            if api in ('shell', 'exec_out', 'streaming_shell'):
                o = s.call(api, 'cmd')
            elif api in ('root', 'reboot'):
                o = s.call(api)
            elif api in ('list', 'stat'):
                o = s.call(api, path)
            elif api == 'pull':
                self.nfile += 1
                target = os.path.join(self.tmp, 'pulled%d' % self.nfile)
                if (empty or not s.device.available) and self.nfile % 2:
                    target = os.path.join(self.tmp, 'newdir%d' % self.nfile, 'sub', 'pulled')        # a folder that does not exist: the refused call must not create it either
                    target = (target, target.encode(), __import__('pathlib').Path(target))[self.nfile // 2 % 3]
                o = s.call('pull', path, target)
            else:
                o = s.call('push', io.BytesIO(b'abc'), path)
        out = 'ok' if o.kind == 'ret' else ('stop' if o.exc_name in ('StopIteration', 'StopAsyncIteration') else o.exc_name)
        return dict(out=out, wrote=self.nwrites() > w0, avail=bool(s.device.available), during=(letter[0] == 'connect' and any(self.during)),
                    files_created=sorted(set(os.listdir(self.tmp)) - set(files0)), ret=(o.value if o.kind == 'ret' else None))


def _obj_methods():
    def nwrites(self):
        return sum(1 for c in self.sess.core.calls if c[0] == 'bulk_write')

    def guarded(self, what, f):
        s = self.sess
        s.rebind_clock()
        s.rec.ev('call', api=what, info={}, clk=int(s.clock.time()))
        try:
            return env.Outcome('ret', value=f())
        except BaseException as e:  # noqa
            if isinstance(e, (KeyboardInterrupt, SystemExit)):
                raise
            return env.Outcome('exc', exc=e)
    Obj.nwrites, Obj.guarded = nwrites, guarded


_obj_methods()


def letter_of(op):
    if op['op'] == 'connect_ok':
        return ('connect', 'ok')
    if op['op'] == 'connect_fail':
        return ('connect', op['kind'])
    if op['op'] == 'close':
        return ('close',)
    if op['op'] == 'close_fail':
        return ('close', 'fail')
    if op['op'] in ('gen_create', 'gen_next'):
        return (op['op'],)
    return ('op', op['api'], op['empty'])


COVERED = set()


def check_step(g, states, letter, obs):
    """Return (clause or None, set of possible next model states; None when the letter is not enabled in the model)."""
    alts = [(op, to) for st in sorted(states) for op, to in g[st] if letter_of(op) == letter]
    if not alts:
        return None, None
    if obs.get('during'):
        # available is True exactly from a successful connect() until the next close() or connect() *attempt*: while the attempt runs it is False
        return 'C13.AvailableExactly', set(t for _, t in alts)
    nxt = set()
    for op, to in alts:
        out_ok = (op['out'] == obs['out']) or (op['out'] == 'raises' and obs['out'] not in ('ok', 'stop'))
        if out_ok and obs['avail'] == to[0] and (op['wrote'] or not obs['wrote']) and (op['out'] == 'ok' or not obs['files_created'] or letter[0] != 'op'):
            if letter == ('connect', 'ok') and obs['ret'] is not True:
                continue
            nxt.add(to)
            COVERED.add(json.dumps(op, sort_keys=True))
    if nxt:
        return None, nxt
    op, to = alts[0]
    follow = set(t for _, t in alts)
    if all(obs['avail'] != t[0] for t in follow):
        return 'C13.AvailableExactly', follow
    if obs['wrote'] and not any(o['wrote'] for o, _ in alts):
        return 'C13.NothingWritten', follow
    if obs['files_created'] and letter[0] == 'op':
        return 'C13.NoLocalFile', follow
    if letter[0] == 'op' and letter[2]:
        return 'C13.EmptyPath', follow
    return 'C13.GuardFirst', follow


def enabled_prefix(g, seq):
    """Length of the longest prefix of the letter sequence that the model can take at all."""
    states = {(False, 'none')}
    for i, letter in enumerate(seq):
        states = set(to for st in states for op, to in g[st] if letter_of(op) == letter)
        if not states:
            return i
    return len(seq)


def _walk_seqs(g, mode, seqs, tmp, label):
    """Run the letter sequences; returns (steps, violations [(clause, replay)], covered model edge labels)."""
    n, viol = 0, []
    for seq in seqs:
        if enabled_prefix(g, seq) < len(seq):
            continue
        o = Obj(mode, tmp)
        state = {(False, 'none')}
        try:
            for i, letter in enumerate(seq):
                if not any(letter_of(op) == letter for st in state for op, _ in g[st]):
                    break      # not enabled in any model state the observations leave possible (e.g. no generator was handed out)
                obs = o.step(letter)
                n += 1
                clause, state = check_step(g, state, letter, obs)
                if clause:
                    obs.pop('ret', None)
                    viol.append((clause, dict(kind='sequence', mode=mode, letters=[list(x) for x in seq[:i + 1]], observed=obs, label=label)))
                    break
        finally:
            o.sess.close_loop()
            for f in os.listdir(tmp):
                if os.path.isdir(os.path.join(tmp, f)):
                    shutil.rmtree(os.path.join(tmp, f), ignore_errors=True)
                else:
                    os.remove(os.path.join(tmp, f))
        if len(viol) >= 3:
            break
    return n, viol, set(COVERED)


_JOB = {}


def _walk_worker(k):
    g, mode, seqs, tmp, label, nproc = _JOB['args']
    sub = os.path.join(tmp, 'w%d' % k)
    os.makedirs(sub, exist_ok=True)
    return _walk_seqs(g, mode, seqs[k::nproc], sub, label)


def walk(ctx, g, mode, alphabet, length, tmp, label, prefix=(), nproc=12):
    seqs = [tuple(prefix) + s_ for s_ in itertools.product(alphabet, repeat=length)]
    if len(seqs) < 400:
        res = [_walk_seqs(g, mode, seqs, tmp, label)]
    else:
        # the sequences are independent of each other (a fresh object per sequence): dealt to forked workers
        import multiprocessing as mp
        _JOB['args'] = (g, mode, seqs, tmp, label, nproc)
        with mp.get_context('fork').Pool(nproc) as pool:
            res = pool.map(_walk_worker, range(nproc))
    n = 0
    for (k, viol, cov) in res:
        n += k
        COVERED.update(cov)
        for clause, rep in viol:
            if len(ctx.violations) < 3:
                ctx.violation(clause, rep)
    return n


def body(ctx):
    g = graph(ctx)
    full = [('connect', 'ok')] + [('connect', k) for k in FAILS] + [('close',), ('close', 'fail'), ('gen_create',), ('gen_next',)] + [('op', a, e) for a in PATH_APIS for e in (False, True)] + [('op', a, False) for a in OTHER_APIS]
    classes = [('connect', 'ok'), ('connect', 'silent'), ('connect', 'cancel'), ('close',), ('close', 'fail'), ('op', 'shell', False), ('op', 'list', True),
               ('op', 'pull', False), ('gen_create',), ('gen_next',)]
    tmp = tempfile.mkdtemp(prefix='c13-', dir=tlc.WORK if os.path.isdir(tlc.WORK) else None)
    try:
        total = 0
        for mode in ('sync', 'async'):
            total += walk(ctx, g, mode, full, 3 if ctx.quick else 4, tmp, 'full alphabet')
            if ctx.violations:
                break
            total += walk(ctx, g, mode, classes, 4 if ctx.quick else 6, tmp, 'operation classes')
            if ctx.violations:
                break
            for pre in ([('connect', 'ok'), ('gen_create',), ('gen_next',)], [('connect', 'ok'), ('gen_create',), ('gen_next',), ('gen_next',)]):
                total += walk(ctx, g, mode, classes, 3 if ctx.quick else 4, tmp, 'a generator in progress, then operation classes', prefix=pre)
            if ctx.violations:
                break
    finally:
        shutil.rmtree(tmp, ignore_errors=True)
    # design: close() racing with operations (AdbCloseRace conjoined with the Layer-A monitor), every schedule of 2 / 3 operation threads;
    # the sanity mutation (flag cleared after the transport was closed) must violate the monitor clauses
    for (ops, reps, sections) in ((['t1', 't2'], 2, 3), (['t1', 't2', 't3'], 2, 2)):
        consts = {'Ops': '{' + ','.join('"%s"' % t for t in ops) + '}', 'Reps': str(reps), 'Sections': str(sections), 'FlagLast': 'FALSE'}
        cfg = tlc.cfg_text(constants=consts, invariants=['MonitorOk', 'RefusedTouchesNothing', 'LockDiscipline'], deadlock=True)
        r = tlc.cached_run('AdbCloseRace', cfg, depends=('AdbCloseRace', 'AdbMon'))
        ctx.add_tlc(r, 'AdbCloseRace %d operation threads x %d calls x %d lock sections' % (len(ops), reps, sections))
        if r.violations:
            ctx.violation('C13.' + r.violations[0]['name'] + '(design)', dict(kind='design-counterexample', trace=r.violations[0]['trace'][-3:]))
    cfg = tlc.cfg_text(constants={'Ops': '{"t1","t2"}', 'Reps': '2', 'Sections': '2', 'FlagLast': 'TRUE'}, invariants=['MonitorOk'], deadlock=True)
    r = tlc.cached_run('AdbCloseRace', cfg, depends=('AdbCloseRace', 'AdbMon'))
    ctx.add_tlc(r, 'AdbCloseRace sanity mutation FlagLast (must violate)')
    if not r.violations:
        raise tlc.TlcError('vacuity: AdbCloseRace with the flag cleared last does not violate the monitor')
    ctx.extra['close_race_sanity_mutation_violates'] = r.violations[0]['name']
    # close() called by one thread / task while others are in the middle of operations or start new ones: from the moment close() is
    # called, whatever is started raises AdbConnectionError and writes nothing (monitor clauses C13.*), under random schedules
    import random
    from .. import tour
    for mode in ('sync', 'async'):
        prog = {'t1': ['shell'], 't2': ['close'], 't3': ['shell'], 't4': ['flush', 'readw', 'clse']}
        rep = {'t1': [[1]], 't2': [[]], 't3': [[1, 2]], 't4': [[]]}
        res = []
        for k in range(30 if ctx.quick else 600):
            res += tour.explore(mode, prog, rep, 1, random.Random(ctx.seed * 131 + k), reps={'t1': 2, 't3': 3, 't4': 2})
        ver, r = tlc.validate_traces('TraceEnv', [t for t, _ in res])
        ctx.add_tlc(r, 'TraceEnv over %d %s schedules of operations racing with close()' % (len(res), mode))
        for (i, l, v) in ver:
            if v.startswith('C13.'):
                ctx.violation(v, dict(kind='close() racing with operations of other threads', mode=mode, schedule=[list(c) for c in res[i][1]['schedule']][:300], failing_event=l - 1))
            else:
                ctx.count(traces=1, evaluations=1)
        ctx.extra.setdefault('close_race_verdicts', {}).update({mode: sorted(set(v for _, _, v in ver))})
    ctx.count(evaluations=total, distinct=len(full) ** (3 if ctx.quick else 4) + len(classes) ** (4 if ctx.quick else 6))
    alledges = set(json.dumps(op, sort_keys=True) for st in g for op, _ in g[st])
    ctx.extra['model_edge_labels'] = len(alledges)
    ctx.extra['model_edge_labels_taken_by_the_implementation'] = len(COVERED & alledges)
    ctx.extra['model_edge_labels_never_taken'] = sorted(alledges - COVERED)   # alternatives the property leaves open and the library does not use
    ctx.cov['exhaustive'] = True
    ctx.cov['traces_validated_against_impl'] = 2 * (len(full) ** (3 if ctx.quick else 4) + len(classes) ** (4 if ctx.quick else 6))
    ctx.sample(dict(kind='sequence', letters=[['connect', 'silent'], ['op', 'pull', False], ['connect', 'ok'], ['close'], ['op', 'stat', False]]))
    ctx.assumptions += ['when the path is empty and the device unavailable either documented exception is accepted',
                        'operations on an available device against a healthy simulator must return normally']


if __name__ == '__main__':
    main('C13', 'model_checking', body)
