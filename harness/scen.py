"""Scenario specs (pure data, replayable) and their execution against the real library.

A session spec is a dict:
  seed       int        chooser / fragmentation / cut seed
  maxdata    int        what the device announces in CNXN
  rid        'plus'|'random'|'high'|int    how the device picks remote ids
  lid0       int        initial value of the host's id counter (None: leave)
  frag       'whole'|'bytes1'|'random'|'empty'|'poll'   read fragmentation of the in-memory transport
  wcap       None|'random'|int  write capacity per call (C15)
  ops        list of op dicts, see run_op()
"""
import io
import logging
import os
import random
import shutil
import tempfile

from . import env, simdev, transports, wire


def pattern(seed, n, off=0):
    """Position-dependent content: any misplaced, dropped or duplicated byte range changes the value."""
    r = random.Random(seed * 7919 + 13)
    base = bytes(r.randrange(256) for _ in range(257))
    out = bytearray(n)
    for i in range(n):
        j = off + i
        out[i] = (base[j % 257] + (j // 257) * 31 + (j // 65521) * 7) & 0xFF
    return bytes(out)


def fast_pattern(seed, n):
    r = random.Random(seed * 104729 + 7)
    base = bytes(r.randrange(256) for _ in range(257))
    reps = n // 257 + 1
    big = bytearray(base * reps)[:n]
    # stamp the block index every 257 bytes so equal-looking blocks differ
    for b in range(0, n, 257):
        k = b // 257
        big[b] = k & 0xFF
        if b + 1 < n:
            big[b + 1] = (k >> 8) & 0xFF
        if b + 2 < n:
            big[b + 2] = (k >> 16) & 0xFF
    return bytes(big)


def rid_fn(kind, seed):
    r = random.Random(seed ^ 0x5bd1e995)
    used = set()

    def f(lid, dev):
        if isinstance(kind, int):
            return kind
        if kind == 'plus':
            return 1000 + lid
        if kind == 'same':
            return lid
        if kind == 'mirror':
            return lid + 1 if lid % 2 else lid - 1       # streams (1, 2) and (2, 1), (3, 4) and (4, 3), ...: each pair is the other's mirror image
        while True:
            v = r.randrange(1, 2 ** 32) if kind == 'random' else r.randrange(2 ** 31, 2 ** 32)
            if v not in used and v != lid:
                used.add(v)
                return v
    return f


def frag_fn(kind, seed):
    r = random.Random(seed ^ 0x9e3779b9)
    if kind == 'whole':
        return None
    if kind == 'bytes1':
        return lambda n, avail: 1
    if kind == 'random':
        return lambda n, avail: r.randint(1, max(1, min(n, avail)))
    if kind == 'empty':
        st = {'e': 0}

        def f(n, avail):
            if st['e'] < 2 and r.random() < 0.3:
                st['e'] += 1
                return 0
            st['e'] = 0
            return r.randint(1, max(1, min(n, avail)))
        return f
    if kind == 'poll':
        # a polling (non-blocking) transport: at one point of the stream - wherever the draw lands: before a header, inside one, between
        # header and payload, inside a payload - it reports "nothing yet" 1500 times in a row, then delivers the rest
        st = {'at': r.randint(1, 12), 'k': 0, 'run': 0}

        def f(n, avail):
            st['k'] += 1
            if st['k'] >= st['at'] and st['run'] < 1500:
                st['run'] += 1
                return 0
            return r.randint(1, max(1, min(n, avail)))
        return f
    raise ValueError(kind)


def cutter_fn(kind, seed, maxpayload):
    """How the device cuts a sync reply byte string into WRITE payloads."""
    r = random.Random(seed ^ 0x85ebca6b)

    def cut(b):
        if isinstance(kind, (list, tuple)):          # explicit cut positions (bytes from the start of the reply)
            pos = sorted(set(p for p in kind if 0 < p < len(b)))
            parts = [b[i:j] for i, j in zip([0] + pos, pos + [len(b)])]
            out = []
            for p_ in parts:
                out += [p_[i:i + maxpayload] for i in range(0, len(p_), maxpayload)]
            return out
        if kind == 'whole' or len(b) <= 1:
            return [b[i:i + maxpayload] for i in range(0, len(b), maxpayload)]
        if kind == 'bytes1':
            return [b[i:i + 1] for i in range(len(b))]
        out = []
        i = 0
        while i < len(b):
            if kind == 'small':
                n = r.randint(1, 9)
            else:
                n = r.choice([1, 2, 3, 7, 8, 9, 15, 16, 17, r.randint(1, max(1, min(len(b), maxpayload)))])
            n = min(n, maxpayload, len(b) - i)
            out.append(b[i:i + n])
            i += n
        if kind == 'empties':
            # WRITEs without payload sprinkled over the reply (before the first record, between records, inside one): legal packets that
            # take part in flow control like any other
            out2 = [b'']
            for piece in out:
                out2.append(piece)
                if r.random() < 0.4:
                    out2.append(b'')
            return out2
        return out
    return cut


class RunResult(object):
    def __init__(self):
        self.outcomes = []
        self.events = []
        self.dev = None
        self.sess = None
        self.extra = {}
        self.held = {}        # generators of streaming_shell kept by the caller: name -> dict(gen, items, i, outcome)


def build_device(spec, rec=None, chooser=None):
    seed = spec.get('seed', 0)
    dev = simdev.SimDevice(chooser=chooser or simdev.Seeded(seed), rec=rec, seed=seed, rid_of=rid_fn(spec.get('rid', 'plus'), seed),
                           auth=simdev.AuthPolicy(maxdata=spec.get('maxdata', 4096), version=spec.get('version', 0x01000000)))
    if spec.get('auth'):
        # the device demands authentication: dict(accept='sig' | 'pub', pub=<text of the public key>, pub_type='str' | 'bytes' | 'bytearray', nkeys=)
        au = spec['auth']
        dev.auth = simdev.AuthPolicy(mode='auth', maxdata=spec.get('maxdata', 4096), version=spec.get('version', 0x01000000),
                                     accept_sig=(lambda i, s_, t_: au.get('accept') == 'sig'), pubkey='accept')
    dev.eager = bool(spec.get('eager', False))
    dev.reorder = bool(spec.get('reorder', False))
    if spec.get('small'):
        dev.syms_of = lambda payload: [BYTE_SYM.get(x, 99) for x in bytes(payload)]
    return dev


def prepare_ops(spec, dev, tmp):
    """Install device-side scripts/files for every op; returns per-op python-side arguments."""
    seed = spec.get('seed', 0)
    host_md = 1024 * 1024
    plans = {}
    args = []
    for i, op in enumerate(spec['ops']):
        api = op['api']
        a = {}
        if op.get('zero_ids'):
            dev.zero_ops[i] = op['zero_ids']
        if op.get('stray_zero'):
            dev.stray_zero_ops[i] = bytes.fromhex(op['stray_zero'])
        if api in ('shell', 'exec_out', 'streaming_shell', 'root'):
            cmd = op.get('cmd', 'c%d' % i)
            chunks = [bytes.fromhex(c) if isinstance(c, str) else bytes(c) for c in op.get('chunks', [])]
            key = (b'root:' if api == 'root' else (b'exec:' if api == 'exec_out' else b'shell:') + cmd.encode('utf8'))
            dev.shell_scripts[key] = chunks
            a['cmd'] = cmd
        elif api == 'stat':
            path = op.get('path', '/f%d' % i) + ('.%d' % i if 'st' in op else '')
            if 'st' in op:
                if not hasattr(dev.fs, 'stat_override'):
                    dev.fs.stat_override = {}
                dev.fs.stat_override[path.encode('utf8')] = tuple(op['st'])
            a['path'] = path
        elif api == 'list':
            path = op.get('path', '/d%d' % i)
            dev.fs.dirs[path] = [(bytes.fromhex(n) if isinstance(n, str) else bytes(n), m, s, t) for (n, m, s, t) in op.get('entries', [])]
            a['path'] = path
        elif api == 'pull':
            path = op.get('path', '/p%d' % i)
            if op.get('size') is not None:
                dev.fs.add(path, fast_pattern(seed + i, op['size']))
            if op.get('stat_size') is not None:
                # what STAT reports disagrees with what RECV delivers (procfs/sysfs files report 0; a file that grew in between)
                if not hasattr(dev.fs, 'stat_override'):
                    dev.fs.stat_override = {}
                dev.fs.stat_override[path.encode('utf8')] = (0o100644, op['stat_size'], 1)
            a['path'] = path
        elif api == 'push':
            src = op.get('src', 'bytesio')
            data = fast_pattern(seed + 1000 + i, op.get('size', 0))
            a['data'] = data
            a['dpath'] = op.get('path', '/q%d' % i)
            if src == 'path':
                p = os.path.join(tmp, 'src%d.bin' % i)
                with open(p, 'wb') as f:
                    f.write(data)
                a['local'] = p
            elif src == 'fifo':
                # a named pipe: a perfectly good local "file" whose st_size is 0 whatever comes through it
                p = os.path.join(tmp, 'src%d.fifo' % i)
                os.mkfifo(p)
                a['local'] = p
                a['fifo'] = True
            elif src == 'bytesio':
                a['local'] = None
            elif src == 'dir':
                d = os.path.join(tmp, 'srcdir%d' % i)
                os.makedirs(d)
                a['files'] = {}
                for k, (name, size) in enumerate(op.get('files', [])):
                    if name.endswith('/'):
                        os.makedirs(os.path.join(d, name.rstrip('/')))       # a sub-directory inside the pushed directory (push is not recursive)
                        with open(os.path.join(d, name.rstrip('/'), 'inner'), 'wb') as f:
                            f.write(b'inner')
                        continue
                    fd = fast_pattern(seed + 2000 + i * 50 + k, size)
                    a['files'][name] = fd
                    with open(os.path.join(d, name), 'wb') as f:
                        f.write(fd)
                a['local'] = d
                # a working directory that is not the pushed one but holds DIRECTORIES named like the pushed files (and a file named like the directory)
                decoy = os.path.join(tmp, 'decoy%d' % i)
                os.makedirs(decoy)
                for name in a['files']:
                    os.makedirs(os.path.join(decoy, name))
                a['decoy'] = decoy
                a['data'] = b''.join(a['files'].values())
                dev.shell_scripts[('shell:mkdir ' + a['dpath']).encode('utf8')] = []
        plans[i] = op.get('plan')
        args.append(a)

    counter = {'sync': 0}
    per_op = {}
    sync_ops = [i for i, op in enumerate(spec['ops']) if op['api'] in ('stat', 'list', 'pull', 'push')]

    def service_for(dest, d):
        if dest.rstrip(b'\0') != b'sync:':
            return None
        cur = d.cur_op
        op = spec['ops'][cur] if cur is not None else {}
        pl = op.get('plan')
        nth_ = per_op.get(cur, 0)
        per_op[cur] = nth_ + 1
        if pl and pl.get('nth') is not None and pl['nth'] != nth_:
            pl = None                          # the plan is for the nth sync stream of the operation only (the nth file of a directory push)
        plan = simdev.SyncFailPlan(**{k: (v.encode('latin1') if k == 'reason' else v) for k, v in pl.items() if k != 'nth'}) if pl else None
        r = random.Random(seed * 31 + cur * 17 + counter['sync'])
        counter['sync'] += 1
        sizes = op.get('data_sizes')
        if sizes == 'random':
            ds = lambda rem: r.choice([1, 2, 100, 4096, 65535, 65536, r.randint(1, 65536)])  # noqa
        elif isinstance(sizes, list):
            it = iter(sizes)
            ds = lambda rem: next(it, 65536)  # noqa
        else:
            ds = None
        svc = simdev.SyncService(d, plan=plan, data_sizes=ds, cutter=cutter_fn(op.get('cuts', 'whole'), seed + cur, host_md))
        svc.explicit_sizes = op.get('explicit_sizes')
        svc.surplus_okay = bool(op.get('surplus_okay'))
        return svc
    dev.service_for = service_for
    dev.cur_op = None
    return args


class _FormatAll(logging.Handler):
    """Formats every record (so that lazily formatted arguments are really evaluated) and throws the text away."""

    def emit(self, record):
        record.getMessage()


_FORMAT_ALL = _FormatAll()


def run(spec, mode='sync', rec=None, chooser=None, keep_session=False, **core_kw):
    """Execute the session spec against a fresh simulator; returns RunResult."""
    if spec.get('warn_error'):
        # the application runs with warnings turned into errors (python -W error, pytest filterwarnings=error)
        import warnings
        with warnings.catch_warnings():
            warnings.simplefilter('error', UserWarning)
            warnings.simplefilter('error', RuntimeWarning)
            return run({k: v for k, v in spec.items() if k != 'warn_error'}, mode, rec, chooser, keep_session, **core_kw)
    if spec.get('debug_log'):
        # the application has switched the library's loggers to DEBUG
        lg = logging.getLogger('adb_shell')
        old = lg.level
        lg.setLevel(logging.DEBUG)
        lg.addHandler(_FORMAT_ALL)
        old_prop = lg.propagate
        lg.propagate = False
        try:
            return run({k: v for k, v in spec.items() if k != 'debug_log'}, mode, rec, chooser, keep_session, **core_kw)
        finally:
            lg.setLevel(old)
            lg.removeHandler(_FORMAT_ALL)
            lg.propagate = old_prop
    seed = spec.get('seed', 0)
    if spec.get('ambient', True) and ('rtype' not in spec or 'debug_log' not in spec or 'boundary' not in spec or 'loop_per_call' not in spec or 'warn_error' not in spec):
        # ambient variation of the environment, derived from the seed unless the spec pins it: the container type bulk_read hands out
        # and whether the application runs the library's loggers at DEBUG.  Neither may change any observable result.
        h = (seed * 2654435761 + 97 * len(spec.get('ops', []))) & 0xFFFFFFFF
        amb = dict(spec, ambient=False)
        amb.setdefault('rtype', [None, 'bytearray', 'memoryview', 'array'][(h >> 5) % 4])
        amb.setdefault('debug_log', (h >> 9) % 3 == 0)
        amb.setdefault('warn_error', (h >> 21) % 3 == 0)
        if not any(('hold' in op_) or ('take' in op_) or op_.get('api') == 'resume' for op_ in spec.get('ops', [])):
            amb.setdefault('loop_per_call', (h >> 17) % 3 == 0)      # async: one event loop per public call (asyncio.run() each time)
        if spec.get('frag', 'whole') == 'whole' and not spec.get('mangle'):
            amb.setdefault('boundary', 'usb' if (h >> 13) % 4 == 0 else None)      # a transport that keeps transfer boundaries, as USB bulk does
        return run(amb, mode, rec, chooser, keep_session, **core_kw)
    rr = RunResult()
    dev = build_device(spec, rec, chooser)
    tmp = tempfile.mkdtemp(prefix='scen-', dir=os.path.join(os.path.dirname(os.path.dirname(os.path.abspath(__file__))), '.work')) \
        if any(op['api'] in ('push', 'pull') and (op.get('src') in ('path', 'dir', 'fifo') or op.get('dest') == 'path') for op in spec['ops']) else None
    try:
        args = prepare_ops(spec, dev, tmp)
        kw = dict(core_kw)
        if 'frag' not in kw and spec.get('frag', 'whole') not in ('whole', 'quiet_trickle'):
            kw['frag'] = frag_fn(spec['frag'], seed)
        if 'tick' not in kw and spec.get('tick'):
            kw['tick'] = spec['tick']          # every transport call takes this much (virtual) time
        if 'boundary' not in kw and spec.get('boundary'):
            kw['boundary'] = spec['boundary']
        if 'rtype' not in kw and spec.get('rtype'):
            kw['rtype'] = spec['rtype']
        if 'wcap' not in kw and spec.get('wcap') is not None:
            w = spec['wcap']
            r = random.Random(seed ^ 0xc2b2ae35)
            kw['wcap'] = (lambda n: r.randint(1, n)) if w == 'random' else (lambda n: max(1, min(n, w)))
        if spec.get('subclass'):
            kw['subclass'] = spec['subclass']          # the caller uses a subclass of the device class that overrides a public method
        s = env.Session(mode, dev, **kw)
        s.loop_per_call = bool(spec.get('loop_per_call')) and mode == 'async'
        if spec.get('frag') == 'quiet_trickle':
            # a healthy but slow link: every packet is preceded by a quiet spell of 0.8 x the read timeout (the time passes inside the read
            # of the header, which then arrives whole), and its payload arrives in five pieces that take 0.1 x the read timeout each -
            # every wait is shorter than the read timeout, the packet as a whole takes longer
            rt_ = float(spec.get('frag_rt', 1.0))

            def qt(n, avail, _c=s.clock, _core=s.core):
                if len(_core.cur) == _core.cur_len:          # nothing of this frame consumed yet: the header read
                    _c.advance(0.8 * rt_)
                    return min(n, 24)
                _c.advance(0.1 * rt_)
                return max(1, -(-(_core.cur_len - 24) // 5))
            s.core.frag = qt
        dev.clock = s.clock
        rr.sess = s
        if spec.get('mangle'):
            # the n-th WRITE of the device is damaged on the wire: dict(nth=, kind='check0' | 'check+1' | 'flip')
            mg = spec['mangle']
            cnt = {'n': 0}

            def mangle(meta, mg=mg, cnt=cnt):
                b = bytearray(meta['bytes'])
                if meta['pk']['cmd'] == 'WRTE' and len(b) > 24:
                    cnt['n'] += 1
                    if cnt['n'] == mg['nth']:
                        if mg['kind'] == 'check0':
                            b[16:20] = b'\0\0\0\0'
                        elif mg['kind'] == 'check+1':
                            b[16:20] = wire.le32((sum(b[24:]) + 1) & 0xFFFFFFFF)
                        else:
                            b[24] ^= 0x01
                return bytes(b)
            s.core.mangle = mangle
        if spec.get('lid0') is not None:
            s.device._local_id = spec['lid0']
        if spec.get('connect', True):
            ckw = dict(spec.get('connect_kw', {}))
            if spec.get('auth'):
                ckw['rsa_keys'] = [_SpecSigner(k_, spec['auth']) for k_ in range(spec['auth'].get('nkeys', 1))]
            rr.outcomes.append(s.call('connect', **ckw))
        for i, (op, a) in enumerate(zip(spec['ops'], args)):
            dev.cur_op = i
            rr.outcomes.append(run_op(s, op, a, tmp, i, rr))
            if spec.get('stop_on_exc') and rr.outcomes[-1].kind == 'exc':
                break
            if spec.get('stop_after_fault') and s.core.fault.fired:
                break          # the operation during which the injected fault struck is the last one: its outcome and its bytes are judged
        dev.cur_op = None
        if spec.get('close', True) and not (spec.get('stop_on_exc') and rr.outcomes[-1].kind == 'exc'):
            rr.outcomes.append(s.call('close'))
        rr.events = dev.rec.events
        rr.dev = dev
        rr.args = args
    finally:
        if tmp:
            shutil.rmtree(tmp, ignore_errors=True)
        if rr.sess is not None and not keep_session:
            for h in list(rr.held.values()):
                # generators the caller never came back to: finalise them before the event loop goes away
                try:
                    if rr.sess.mode == 'sync':
                        h['gen'].close()
                    else:
                        rr.sess.loop.run_until_complete(h['gen'].aclose())
                except BaseException:  # noqa
                    pass
            rr.sess.close_loop()
    return rr


class _SpecSigner(object):
    """A signer as the session spec describes it: what it signs is visible in the signature, its public key is the given text in the
    given type (the library accepts str, bytes and bytearray)."""

    def __init__(self, k, au):
        self.k, self.au = k, au

    def Sign(self, data):
        return b'sig%d|' % self.k + bytes(data)

    def GetPublicKey(self):
        text = self.au.get('pub', 'QUJD user@host')
        t = self.au.get('pub_type', 'str')
        if t == 'str':
            return text
        b = text.encode('utf8')
        return bytearray(b) if t == 'bytearray' else b


class _FailingSink(io.BytesIO):
    def __init__(self, k):
        io.BytesIO.__init__(self)
        self.k = k
        self.n = 0

    def write(self, b):
        self.n += 1
        if self.n >= self.k:
            raise IOError('disk full (injected)')
        return io.BytesIO.write(self, b)


class CallbackAbort(BaseException):
    """A progress callback failing with something that is not an Exception subclass."""


class _Raiser(object):
    def __init__(self, log, fail, sess=None):
        self.log, self.fail, self.sess = log, fail, sess
        self.reentered = []

    def __call__(self, path, n, total):
        self.log.append((path, n, total))
        if self.fail in ('reenter', 'reenter_stat', 'reenter_pull'):
            # the callback uses the device itself (another operation on the same object, from inside the transfer)
            if self.fail == 'reenter':
                r = self.sess.device.shell('reenter', decode=False, read_timeout_s=2.0)
            elif self.fail == 'reenter_stat':
                r = self.sess.device.stat('/re.file', read_timeout_s=2.0)
            else:
                sink = io.BytesIO()
                r = self.sess.device.pull('/re.file', sink, read_timeout_s=2.0)
                if not hasattr(r, '__await__'):
                    r = sink.getvalue()
                else:
                    inner = r

                    async def pulled():
                        await inner
                        return sink.getvalue()
                    r = pulled()
            if hasattr(r, '__await__'):
                async def wait():
                    self.reentered.append(await r)
                return wait()
            self.reentered.append(r)
            return None
        if self.fail == 'base':
            raise CallbackAbort('callback failure (BaseException)')
        if self.fail:
            raise RuntimeError('callback failure')


def _as_async(cb, kind):
    """The progress callback as an async API user may legitimately write it."""
    if kind == 'obj':
        class Obj(object):
            async def __call__(self, path, n, total):
                v = cb(path, n, total)
                if hasattr(v, '__await__'):
                    v = await v
                return v
        return Obj()
    if kind == 'forward':
        async def inner(path, n, total):
            v = cb(path, n, total)
            if hasattr(v, '__await__'):
                v = await v
            return v
        return lambda path, n, total: inner(path, n, total)       # a plain function that returns an awaitable

    async def f(path, n, total):
        v = cb(path, n, total)
        if hasattr(v, '__await__'):
            v = await v
        return v
    return f


class _ShortReads(io.BytesIO):
    """A source whose read(n) returns at most k bytes at a time (a throttling / progress wrapper): still every byte, in order."""

    def __init__(self, data, k):
        io.BytesIO.__init__(self, data)
        self.k = k

    def read(self, n=-1):
        if n is None or n < 0:
            return io.BytesIO.read(self, n)
        return io.BytesIO.read(self, min(n, self.k))


def _local(path, how):
    """A local path in the form the caller chose: str, pathlib.Path or bytes."""
    if how == 'pathlib':
        import pathlib
        return pathlib.Path(path)
    if how == 'bytes':
        return os.fsencode(path)
    return path


_STOP = (StopIteration, StopAsyncIteration)


def _gen_step(s, g, send=None):
    """The next item of a streaming generator; with `send` the consumer uses send() / asend() (the value is of no use to the library,
    but the generator protocol allows it)."""
    if send is not None:
        return g.send(send) if s.mode == 'sync' else s.loop.run_until_complete(g.asend(send))
    return next(g) if s.mode == 'sync' else s.loop.run_until_complete(g.__anext__())


def _gen_op(s, op, a, i, rr, tkw):
    """streaming_shell consumed piecemeal: `take` items are requested, then the generator is either kept under the name `hold`
    (a later op `resume` goes on with it - cooperative concurrency in one thread / task) or closed by the caller (`abandon`).
    A kept generator is its own actor in the event log."""
    from . import sched
    name = op.get('hold')
    tok = sched.CUR.set(name) if name else None
    try:
        s.rebind_clock()
        s.rec.ev('call', api='streaming_shell', info=dict(i=i), clk=int(s.clock.time()))
        items = []
        out = env.Outcome('ret', value=items)
        try:
            g = s.device.streaming_shell(a['cmd'], decode=op.get('decode', True), **tkw)
            g = iter(g) if s.mode == 'sync' else g.__aiter__()
            finished = False
            for k_ in range(op.get('take', 0)):
                try:
                    items.append(_gen_step(s, g, op.get('send') if k_ else None))
                except _STOP:
                    finished = True
                    break
            if finished:
                s.rec.ev('ret', api='streaming_shell', avail=bool(s.device.available), clk=int(s.clock.time()))
            elif name:
                rr.held[name] = dict(gen=g, items=items, i=i, outcome=out, send=op.get('send'))
                if op.get('freeze'):
                    # the device says nothing more on this stream for the time being (released by a later op's `thaw_after`)
                    s.dev.frozen = set(s.dev.frozen) | {st_.lid for st_ in s.dev.all_streams if getattr(st_, 'op', None) == i}
            else:
                if s.mode == 'sync':
                    g.close()
                else:
                    s.loop.run_until_complete(g.aclose())
                s.rec.ev('abandon', api='streaming_shell', avail=bool(s.device.available))
        except transports.Watchdog:
            raise
        except Exception as e:  # noqa
            s.rec.ev('exc', api='streaming_shell', cls=type(e).__name__, avail=bool(s.device.available), clk=int(s.clock.time()))
            return env.Outcome('exc', exc=e)
        return out
    finally:
        if tok is not None:
            sched.CUR.reset(tok)


def _resume_op(s, op, rr):
    from . import sched
    h = rr.held.get(op['gen'])
    if h is None:
        return env.Outcome('ret', value=None)
    tok = sched.CUR.set(op['gen'])
    try:
        s.rebind_clock()
        n = op.get('take')
        try:
            while n is None or n > 0:
                h['items'].append(_gen_step(s, h['gen'], h.get('send')))
                if n is not None:
                    n -= 1
        except _STOP:
            rr.held.pop(op['gen'], None)
            s.rec.ev('ret', api='streaming_shell', avail=bool(s.device.available), clk=int(s.clock.time()))
        except transports.Watchdog:
            raise
        except Exception as e:  # noqa
            rr.held.pop(op['gen'], None)
            s.rec.ev('exc', api='streaming_shell', cls=type(e).__name__, avail=bool(s.device.available), clk=int(s.clock.time()))
            h['outcome'].kind, h['outcome'].exc = 'exc', e
            return env.Outcome('exc', exc=e)
        return env.Outcome('ret', value=None)
    finally:
        sched.CUR.reset(tok)


def run_op(s, op, a, tmp, i, rr):
    api = op['api']
    if api == 'resume':
        return _resume_op(s, op, rr)
    if api == 'drop':
        # the caller closes / drops a generator it had kept (sync: close(); async: aclose())
        h = rr.held.pop(op['gen'], None)
        if h is not None:
            from . import sched as _sched
            tok = _sched.CUR.set(op['gen'])
            try:
                if s.mode == 'sync':
                    h['gen'].close()
                else:
                    s.loop.run_until_complete(h['gen'].aclose())
                s.rec.ev('abandon', api='streaming_shell', avail=bool(s.device.available))
            except Exception as e:  # noqa
                s.rec.ev('exc', api='streaming_shell', cls=type(e).__name__, avail=bool(s.device.available), clk=int(s.clock.time()))
            finally:
                _sched.CUR.reset(tok)
        return env.Outcome('ret', value=None)
    if api == 'clock':
        s.clock.advance(op['advance'])        # wall-clock time passes between two operations
        return env.Outcome('ret', value=None)
    tkw = {k: op[k] for k in ('transport_timeout_s', 'read_timeout_s', 'timeout_s') if k in op}
    if api == 'reconnect':
        if 'maxdata' in op:
            s.dev.auth.maxdata = op['maxdata']
            s.dev.auth.final_maxdata = op['maxdata']
        if op.get('close_first', True):
            if op.get('close_raises'):
                # the connection is dead and closing the transport fails too (ENOTCONN on a dead socket): close() raises
                s.core.fault.at[s.core.ncalls] = op['close_raises']
            s.call('close')
        return s.call('connect')
    if op.get('refuse'):
        s.dev.refuse_open = lambda dest: True
        try:
            return run_op(s, {k: v for k, v in op.items() if k != 'refuse'}, a, tmp, i, rr)
        finally:
            s.dev.refuse_open = lambda dest: False
    if 'thaw_after' in op:
        s.dev.thaw_after = op['thaw_after']        # frozen streams speak again after this many data WRITEs of this operation
    if 'budget' in op:
        s.dev.budget = op['budget']
        try:
            return run_op(s, {k: v for k, v in op.items() if k != 'budget'}, a, tmp, i, rr)
        finally:
            s.dev.budget = None
    if op.get('late'):
        s.dev.hold_next_open = True     # the device withholds everything of this stream until the next OPEN arrives
    if op.get('positional') and api in ('shell', 'exec_out', 'streaming_shell') and 'take' not in op and 'hold' not in op:
        # every argument by position, in the documented order: (command, transport_timeout_s, read_timeout_s[, timeout_s], decode)
        pos = [a['cmd'], op.get('transport_timeout_s'), op.get('read_timeout_s', 10.0)] + ([op.get('timeout_s')] if api != 'streaming_shell' else []) + [op.get('decode', True)]
        return s.call(api, *pos, _info=dict(i=i))
    if api in ('shell', 'exec_out'):
        return s.call(api, a['cmd'], decode=op.get('decode', True), _info=dict(i=i), **tkw)
    if api == 'streaming_shell' and ('take' in op or 'hold' in op):
        return _gen_op(s, op, a, i, rr, tkw)
    if api == 'streaming_shell':
        return s.call(api, a['cmd'], decode=op.get('decode', True), _info=dict(i=i), **tkw)
    if api == 'root':
        return s.call('root', _info=dict(i=i), **tkw)
    if api == 'reboot':
        if op.get('fastboot'):
            return s.call('reboot', fastboot=True, _info=dict(i=i), **tkw)
        return s.call('reboot', _info=dict(i=i), **tkw)
    def P(x):
        if op.get('path_as') == 'purepath':
            import pathlib
            return pathlib.PurePosixPath(x)         # a device path object instead of str / bytes (not supported: both classes must refuse alike)
        return x.encode('utf8') if op.get('path_bytes') else x
    if api in ('stat', 'list'):
        return s.call(api, P(a['path']), _info=dict(i=i), **tkw)
    cb = op.get('cb')
    log = []
    rr.extra.setdefault('cb', {})[i] = log
    cbf = _Raiser(log, 'base' if cb == 'raise_base' else (cb if str(cb).startswith('reenter') else (cb == 'raise')), sess=s) if cb else None
    if str(cb).startswith('reenter'):
        s.dev.shell_scripts[b'shell:reenter'] = [b're-', b'entered']
        s.dev.fs.add('/re.file', b'nested-content')
        rr.extra.setdefault('reentered', {})[i] = cbf.reentered
    if cbf is not None and s.mode == 'async':
        cbf = _as_async(cbf, op.get('cb_kind', ('def', 'obj', 'forward')[(i + len(a.get('path', a.get('dpath', '')))) % 3]))
    if cbf is not None and op.get('cb_falsy'):
        inner_cb = cbf

        class FalsyLog(list):
            """A callable that is falsy when handed in (an empty list that collects the reports it is called with)."""

            def __call__(self, path, n, total):
                self.append(n)
                return inner_cb(path, n, total)          # (async: the coroutine of the wrapped callback)
        cbf = FalsyLog()
    if api == 'pull':
        if isinstance(op.get('dest'), list):      # ['raise', k]: a sink whose k-th write fails (local I/O error mid-transfer)
            dest = _FailingSink(op['dest'][1])
            o = s.call('pull', P(a['path']), dest, progress_callback=cbf, _info=dict(i=i), **tkw)
            rr.extra.setdefault('pulled', {})[i] = dest.getvalue()
        elif op.get('dest', 'bytesio') == 'bytesio':
            dest = io.BytesIO()
            o = s.call('pull', P(a['path']), dest, progress_callback=cbf, _info=dict(i=i), **tkw)
            rr.extra.setdefault('pulled', {})[i] = dest.getvalue()
        else:
            p = os.path.join(tmp, 'dst%d.bin' % i)
            how = op.get('local_as', 'str')
            if how == 'dollar':
                p = os.path.join(tmp, 'R$HOME$USER~%d.bin' % i)                 # a file name that merely looks like shell syntax
                how = 'str'
            if how == 'tilde':
                os.makedirs(os.path.join(tmp, '~'), exist_ok=True)
                p = os.path.join('~', 'dst%d.bin' % i)                          # relative to the working directory: a directory literally named "~"
                how = 'tilde_rel'
            if how == 'missing_dir':
                p = os.path.join(tmp, 'no-such-dir', 'dst%d.bin' % i)          # cannot be opened for writing
                how = 'str'
            if how == 'fd':
                target = os.open(p, os.O_WRONLY | os.O_CREAT | os.O_TRUNC, 0o600)      # open() accepts a file descriptor (and closes it)
            else:
                target = _local(p, how)
            cwd_ = os.getcwd()
            if how == 'tilde_rel':
                os.chdir(tmp)
                target = p
            try:
                o = s.call('pull', P(a['path']), target, progress_callback=cbf, _info=dict(i=i), **tkw)
            finally:
                os.chdir(cwd_)
                if how == 'tilde_rel':
                    p = os.path.join(tmp, p)
                if how == 'fd':
                    try:
                        os.close(target)
                    except OSError:
                        pass
            rr.extra.setdefault('pulled', {})[i] = open(p, 'rb').read() if os.path.exists(p) else None
        return o
    if api == 'push':
        src_kind = op.get('src', 'bytesio')
        if a.get('local'):
            local = _local(a['local'], op.get('local_as', 'str')) if src_kind in ('path', 'fifo') else a['local']
        elif op.get('src_short'):
            local = _ShortReads(a['data'], op['src_short'])
        else:
            local = io.BytesIO(a['data'])
        if op.get('src_offset') and not a.get('local'):
            # the caller has already consumed a header from the stream: what is pushed is the rest
            pre = bytes(op['src_offset'] % 251 for _ in range(op['src_offset']))
            local = (_ShortReads(pre + a['data'], op['src_short']) if op.get('src_short') else io.BytesIO(pre + a['data']))
            io.BytesIO.read(local, op['src_offset'])
        kw = dict(tkw)
        if 'st_mode' in op:
            kw['st_mode'] = op['st_mode']
        if 'mtime' in op:
            kw['mtime'] = op['mtime']
        feeder = None
        if a.get('fifo'):
            import threading

            def feed(path=a['local'], data=a['data']):
                try:
                    with open(path, 'wb') as f:          # blocks until the library opens the pipe for reading
                        for off in range(0, len(data), 30000):
                            f.write(data[off:off + 30000])
                except OSError:
                    pass
            feeder = threading.Thread(target=feed, daemon=True)
            feeder.start()
        cwd0 = os.getcwd()
        if op.get('cwd') == 'inside':
            os.chdir(a['local'])
        elif op.get('cwd') == 'decoy':
            os.chdir(a['decoy'])
        elif op.get('cwd') == 'elsewhere':
            os.chdir('/')
        try:
            return s.call('push', local, P(a['dpath']) if src_kind != 'dir' else a['dpath'], progress_callback=cbf, _info=dict(i=i), **kw)
        finally:
            os.chdir(cwd0)
            if feeder is not None:
                if feeder.is_alive():
                    # the library never opened (or stopped reading) the pipe: unblock the writer
                    try:
                        fd = os.open(a['local'], os.O_RDONLY | os.O_NONBLOCK)
                        try:
                            while os.read(fd, 65536):
                                pass
                        except OSError:
                            pass
                        os.close(fd)
                    except OSError:
                        pass
                feeder.join(timeout=2)
    raise ValueError(api)


# ------------------------------------------------------------------ projection of results to the monitor's vocabulary
SYM_BYTE = {1: 0x61, 2: 0xE2, 3: 0x82, 4: 0xAC, 5: 0xFF}
BYTE_SYM = {v: k for k, v in SYM_BYTE.items()}


def syms_to_bytes(syms):
    return bytes(SYM_BYTE[x] for x in syms)


def bytes_to_syms(b):
    return [BYTE_SYM.get(x, 99) for x in bytes(b)]


def outsyms_to_text(out):
    """Output symbols of AdbDecode -> the Python string they stand for."""
    t = []
    for x in out:
        if x == 1:
            t.append('a')
        elif 11 <= x <= 15:
            t.append('\\x%02x' % SYM_BYTE[x - 10])
        elif 20 <= x <= 23:
            b2 = 0xAC if (x - 20) & 2 else 0x82
            b3 = 0xAC if (x - 20) & 1 else 0x82
            t.append(bytes((0xE2, b2, b3)).decode('utf8'))
        else:
            raise ValueError(x)
    return ''.join(t)


def text_to_outsyms(text):
    """A decoded result -> output symbols (99 = something the alphabet cannot produce)."""
    out = []
    i = 0
    while i < len(text):
        c = text[i]
        if c == 'a':
            out.append(1)
            i += 1
        elif c == '\\' and text[i + 1:i + 2] == 'x' and len(text) >= i + 4:
            try:
                b = int(text[i + 2:i + 4], 16)
            except ValueError:
                b = -1
            out.append(10 + BYTE_SYM[b] if b in BYTE_SYM else 99)
            i += 4
        else:
            e = c.encode('utf8', 'surrogatepass')
            if len(e) == 3 and e[0] == 0xE2 and e[1] in (0x82, 0xAC) and e[2] in (0x82, 0xAC):
                out.append(20 + (2 if e[1] == 0xAC else 0) + (1 if e[2] == 0xAC else 0))
            else:
                out.append(99)
            i += 1
    return out


def shell_units(result_bytes, payloads, lid):
    """Name the result of a shell-like call as a sequence of [[lid_hi, lid_lo], index] of the device's payloads
    (in order; a residue that is not the next payload is named [[0,0],0] = alien).  A trailing run of payloads that
    are absent from the result is simply not named (the monitor then sees too few units)."""
    units = []
    pos = 0
    w = wire.limbs(lid)
    n = len(result_bytes)
    for i, p in enumerate(payloads):
        if result_bytes.startswith(p, pos):
            units.append([w, i + 1])
            pos += len(p)
        else:
            break
    if pos < n:
        units.append([[0, 0], 0])
    return units


SHELLISH = ('shell', 'exec_out', 'streaming_shell')


def project_events(rr, spec, syms=False):
    """Events of a run -> trace for TraceEnv: adds decode to calls and the named content to shell results.
    The operation in progress is tracked per actor (the main thread; every generator kept by the caller is an actor of its own)."""
    out = []
    outcomes = list(rr.outcomes)
    base = 1 if spec.get('connect', True) else 0
    streams = {}
    for st in rr.dev.every_stream if rr.dev else []:
        streams.setdefault(st.lid, []).append(st)
    seen_lid = {}
    actors = {}         # t -> dict(cur=(op index, op dict), lid, stream)
    for e in rr.events:
        ev = e['ev']
        f = {kk: v for kk, v in e.items() if not kk.startswith('_')}
        A = actors.setdefault(f.get('t', 'main'), dict(cur=None, lid=None, stream=None))
        cur = A['cur']
        if ev == 'call':
            info = f.pop('info', None) or {}
            i = info.get('i')
            A['cur'] = cur = (i, spec['ops'][i]) if i is not None else None
            f['decode'] = bool(cur[1].get('decode', True)) if cur and cur[1]['api'] in SHELLISH else False
            A['lid'] = None
        elif ev == 'tx' and f['cmd'] == 'OPEN' and cur is not None and A['lid'] is None:
            lid = A['lid'] = wire.unlimbs(f['a0'])
            n = seen_lid.get(lid, 0)
            seen_lid[lid] = n + 1
            A['stream'] = streams.get(lid, [None] * (n + 1))[n] if len(streams.get(lid, [])) > n else None
        elif ev == 'ret' and cur is not None and cur[1]['api'] in SHELLISH:
            o = outcomes[base + cur[0]]
            lid, cur_stream = A['lid'], A['stream']
            api, dec = cur[1]['api'], bool(cur[1].get('decode', True))
            payloads = cur_stream.sent if lid is not None and cur_stream is not None else []
            if syms:
                f['mode'] = 'syms'
                f['units'] = []
                if api == 'streaming_shell':
                    f['syms'] = [text_to_outsyms(x) if dec else bytes_to_syms(x) for x in o.value]
                else:
                    f['syms'] = text_to_outsyms(o.value) if dec else bytes_to_syms(o.value)
            else:
                f['mode'] = 'units'
                f['syms'] = []
                v = o.value
                if api == 'streaming_shell':
                    v = b''.join(x.encode('utf8', 'surrogatepass') if isinstance(x, str) else x for x in v)
                elif isinstance(v, str):
                    v = v.encode('utf8', 'surrogatepass')
                f['units'] = shell_units(v, payloads, lid or 0)
                if api == 'streaming_shell' and f['units'] == [[wire.limbs(lid or 0), j + 1] for j in range(len(payloads))]:
                    # item boundaries must be the payload boundaries
                    items = [x.encode('utf8', 'surrogatepass') if isinstance(x, str) else bytes(x) for x in o.value]
                    if items != [bytes(p) for p in payloads]:
                        f['units'] = f['units'] + [[[0, 0], 0]]
        out.append(f)
    return out


# ------------------------------------------------------------------ random session specs
BOUNDARY32 = [0, 1, 0x7FFF, 0x8000, 0xFFFF, 0x10000, 0x7FFFFFFF, 0x80000000, 0xFFFFFFFF]
# 32-bit field values whose little-endian bytes spell a word of the protocol family (a mode / size / time that reads b'FAIL', ...)
KEYWORD32 = [int.from_bytes(w, 'little') for w in (b'FAIL', b'DONE', b'DENT', b'STAT', b'DATA', b'OKAY', b'QUIT', b'CLSE', b'WRTE', b'RECV', b'SEND', b'LIST', b'OPEN', b'SYNC')]


def gen_session(rng, idx, big=False, adversarial=False, ops_max=6, allow=('shell', 'exec_out', 'streaming_shell', 'root', 'reboot', 'stat', 'list', 'pull', 'push'),
                maxdatas=(4096, 65536, 256 * 1024, 1024 * 1024)):
    """A random, well-formed session spec (device behaves; all ops should succeed)."""
    maxdata = rng.choice(list(maxdatas) + [rng.randint(4096, 1024 * 1024)])
    ops = []
    for j in range(rng.randint(1, ops_max)):
        api = rng.choice(allow)
        if api in ('shell', 'exec_out', 'streaming_shell'):
            k = rng.choice([0, 1, 1, 2, 3, 5])
            chunks = []
            for c in range(k):
                size = rng.choice([1, 2, 16, 100, 4095, 4096, rng.randint(1, 4096)] + ([rng.randint(4097, min(maxdata, 200000))] if big and maxdata > 4097 else []))
                chunks.append((b'[%d.%d.%d]' % (idx, j, c) + fast_pattern(idx * 100 + j * 10 + c, size))[:max(size, 14)].hex())
            ops.append(dict(api=api, decode=False, cmd=rng.choice(['x', 'ls -l /sdcard', 'echo €', 'q' * 300]), chunks=chunks, positional=rng.random() < 0.3))
        elif api in ('root', 'reboot'):
            ops.append(dict(api=api))
        elif api == 'stat':
            ops.append(dict(api='stat', path=rng.choice(['/a', '/sdcard/é', '/' + 'p' * 200, '/фото/\u20ac.jpg']), path_bytes=rng.random() < 0.3, st=[rng.choice(BOUNDARY32 + KEYWORD32[:4] + [rng.randrange(2 ** 32)]) for _ in range(3)],
                            cuts=rng.choice(['whole', 'random', 'small', 'bytes1'])))
        elif api == 'list':
            ents = []
            for e in range(rng.choice([0, 1, 2, 5, 40])):
                name = bytes(rng.randrange(1, 256) for _ in range(rng.choice([1, 2, 8, 255])))
                ents.append([name.hex(), rng.choice(BOUNDARY32 + KEYWORD32[:4]), rng.choice([rng.randrange(2 ** 32)] + KEYWORD32[:2]), rng.choice(BOUNDARY32 + KEYWORD32[:4])])
            ops.append(dict(api='list', path=rng.choice(['/d%d' % j, '/d%d/é€' % j, '/каталог%d' % j]), path_bytes=rng.random() < 0.3, entries=ents, cuts=rng.choice(['whole', 'random', 'small'])))
        elif api == 'pull':
            size = rng.choice([0, 1, 7, 8, 9, 4096, 65535, 65536, 65537, rng.randint(0, 200000)] + ([rng.randint(200000, 3000000)] if big else []))
            ops.append(dict(api='pull', path=rng.choice(['/p%d' % j, '/sdcard/é%da' % j, '/фото%d.jpg' % j]), path_bytes=rng.random() < 0.3, size=size, data_sizes=rng.choice([None, 'random']), cuts=rng.choice(['whole', 'random']) if size < 50000 else 'whole',
                            dest=rng.choice(['bytesio', 'path']), cb=rng.choice([None, None, 'ok', 'raise']), local_as=rng.choice(['str', 'str', 'pathlib', 'bytes', 'fd', 'dollar', 'tilde']),
                            stat_size=rng.choice([None, None, None, 0, 1, size + 1])))
        elif api == 'push':
            chunk = min(65536, maxdata // 2)
            size = rng.choice([0, 1, chunk - 1, chunk, chunk + 1, maxdata - 9, maxdata, maxdata + 9, 2 * chunk + 1, rng.randint(0, 300000)] + ([rng.randint(300000, 3000000)] if big else []))
            ops.append(dict(api='push', path=rng.choice(['/q', '/sdcard/' + 'n' * rng.randint(1, 900), '/sdcard/résumé€.bin']), size=size, src=rng.choice(['bytesio', 'path']),
                            st_mode=rng.choice([0o100644, 33272, 0xFFFFFFFF, 0]), mtime=rng.choice([1, 1500000000, 0xFFFFFFFF, 0]), cb=rng.choice([None, None, 'ok']),
                            local_as=rng.choice(['str', 'pathlib']), src_short=rng.choice([None, None, 1, 1000, 70000]), src_offset=rng.choice([0, 0, 0, 5])))
    spec = dict(seed=rng.randrange(1 << 30), maxdata=maxdata, rid=rng.choice(['plus', 'random', 'high', 'same', 'mirror']), frag=rng.choice(['whole', 'whole', 'random', 'empty']),
                lid0=rng.choice([None, None, 2 ** 32 - 3, 2 ** 31 - 2, 65534]), ops=ops)
    if adversarial:
        # legal but unusual device behaviour, and local failures in the middle of a transfer
        spec['version'] = rng.choice([0x01000000, 0x01000001, 0x01000000, 0xFFFFFFFF, 0])
        spec['eager'] = rng.random() < 0.5
        if ops and rng.random() < 0.2:
            j_ = rng.randrange(len(ops))
            ops[j_]['refuse'] = True                 # the device refuses this OPEN with CLSE(0, id)
            ops[j_]['read_timeout_s'] = 1.0
        spec['reorder'] = rng.random() < 0.5
        spec['rtype'] = rng.choice([None, None, 'bytearray', 'memoryview', 'array'])     # container type of what bulk_read returns
        spec['debug_log'] = rng.random() < 0.3                                           # the application runs the library's loggers at DEBUG
        for op in ops:
            if op['api'] in ('shell', 'exec_out', 'streaming_shell') and rng.random() < 0.3 and op['chunks']:
                op['chunks'].insert(rng.randrange(len(op['chunks']) + 1), '')          # a zero-length WRITE
            if op['api'] not in ('root', 'reboot') and rng.random() < 0.15:
                op['zero_ids'] = rng.choice(['a0', 'a1', 'both'])                      # a legacy adbd: data packets with zero ids
            if op['api'] == 'reboot':
                op['fastboot'] = rng.random() < 0.5
        # cooperative concurrency in one thread / task: a streaming generator is kept open across other operations; one is abandoned
        if ops and rng.random() < 0.35:
            a_ = rng.randrange(len(ops) + 1)
            chunks = [(b'<held %d.%d>' % (idx, c) + fast_pattern(idx + c, rng.choice([1, 30, 4000]))).hex() for c in range(rng.randint(1, 5))]
            ops.insert(a_, dict(api='streaming_shell', decode=False, cmd='held%d' % idx, chunks=chunks, take=rng.randint(0, 2), hold='g%d' % idx))
            if rng.random() < 0.8:
                ops.insert(rng.randint(a_ + 1, len(ops)), dict(api='resume', gen='g%d' % idx, take=rng.choice([None, None, 1])))
            for op in ops:
                if op.get('zero_ids') == 'both':
                    op['zero_ids'] = 'a1'          # (0, 0) packets are anybody's: with two live streams their owner is not defined
        if rng.random() < 0.2:
            ops.insert(rng.randrange(len(ops) + 1), dict(api='streaming_shell', decode=False, cmd='left%d' % idx, chunks=[b'<l1>'.hex(), b'<l2>'.hex(), b'<l3>'.hex()], take=rng.randint(0, 2)))
        if rng.random() < 0.2:
            ops.insert(rng.randrange(len(ops) + 1), dict(api='clock', advance=rng.choice([61.0, 3600.0])))
            if op['api'] == 'pull' and rng.random() < 0.4:
                op['dest'] = ['raise', rng.randint(1, 3)]
                op['data_sizes'] = [rng.choice([1, 50, 4096]) for _ in range(6)] + [65536] * 64
                op['size'] = max(op['size'], 20000)
                op['cb'] = None
            if op['api'] == 'push' and rng.random() < 0.4:
                op['plan'] = dict(where=rng.choice(['SEND', 'DATA', 'DONE']), k=rng.randint(0, 2), reason='no space')
                op['size'] = max(op['size'], 3 * maxdata if maxdata <= 65536 else op['size'])
    return spec


def run_corpus(specs, modes=('sync', 'async'), syms=False):
    """Run specs (alternating modes); returns list of (mode, spec, RunResult, trace)."""
    out = []
    for i, spec in enumerate(specs):
        mode = modes[(i * 7 + i // 2) % len(modes)]      # decorrelated from every other alternation in the generators
        rr = run(spec, mode)
        out.append((mode, spec, rr, project_events(rr, spec, syms=syms)))
    return out


# ------------------------------------------------------------------ FileSync traces for TraceSync (C07-C10)
def limbs_strict(v):
    """A value the API returned as a 32-bit field: out-of-range values (negative, >= 2^32, not an int) are named [99999, 99999]."""
    if not isinstance(v, int) or isinstance(v, bool) or v < 0 or v >= 2 ** 32:
        return [99999, 99999]
    return wire.limbs(v)


def sync_traces(rr, spec, inert=None, only=None):
    """One trace per FileSync op of the session (events call / prx / ptx / cbk / ret|exc)."""
    out = []
    base = 1 if spec.get('connect', True) else 0
    clks = {}
    cur_i = None
    for e in rr.events:
        if e['ev'] == 'call':
            cur_i = (e.get('info') or {}).get('i')
            clks[cur_i] = [e.get('clk', 0), None]
        elif e['ev'] in ('ret', 'exc') and cur_i in clks:
            clks[cur_i][1] = e.get('clk', 0)
    for i, op in enumerate(spec['ops']):
        api = op['api']
        if api not in ('push', 'pull', 'list', 'stat') or (only and api not in only):
            continue
        o = rr.outcomes[base + i]
        a = rr.args[i]
        streams = [st for st in rr.dev.every_stream if getattr(st, 'op', None) == i and st.dest.rstrip(b'\0') == b'sync:']
        if str(op.get('cb')).startswith('reenter'):
            # a callback that runs other operations opens streams of its own during this one: only the operation's own are its trace
            first = {'push': 'SEND', 'pull': 'RECV'}.get(api)

            def first_id(st_):
                recs = getattr(st_.service, 'records', None)
                return recs[0]['id'] if recs else None
            own = [st for st in streams if first_id(st) in (first, None)][:1]
            if api == 'pull':
                own += [st for st in streams if first_id(st) == 'STAT'][:1]       # the stat() the pull itself issues for its callback
            streams = [st for st in streams if st in own]
        size = len(a['data']) if api == 'push' else (op.get('size') or 0) if api == 'pull' else 0
        files = a.get('files') if api == 'push' else None
        tr = [dict(ev='call', api=api, size=size, cb=bool(op.get('cb')), nfiles=len(files) if files is not None else 1)]
        cur_src = a.get('data', b'')
        send_clk = prev_send_clk = None
        for st in streams:
            svc = st.service
            off = 0
            for r in svc.records:
                if api != 'push':
                    if r['id'] in ('RECV', 'LIST', 'STAT'):
                        tr.append(dict(ev='prx', id=r['id'], specOk=(r['data'] == a['path'].encode('utf8') and r['arg'] == len(r['data']))))
                    continue
                if r['id'] == 'SEND':
                    prev_send_clk, send_clk = send_clk, r.get('clk')
                    if files is not None:
                        pth, _, md_ = r['data'].rpartition(b',')
                        name = pth.decode('utf8', 'replace')[len(a['dpath']) + 1:]
                        ok = pth.decode('utf8', 'replace').startswith(a['dpath'] + '/') and name in files and md_ == str(op.get('st_mode', 33272)).encode()
                        cur_src = files.get(name, b'')
                        tr.append(dict(ev='prx', id='SEND', specOk=bool(ok)))
                    else:
                        want = ('%s,%d' % (a['dpath'], op.get('st_mode', 33272))).encode('utf8')
                        tr.append(dict(ev='prx', id='SEND', specOk=(r['data'] == want)))
                    off = 0
                elif r['id'] == 'DATA':
                    n = len(r['data'])
                    tr.append(dict(ev='prx', id='DATA', n=n, off=off, match=(r['data'] == cur_src[off:off + n] and r['arg'] == n)))
                    off += n
                elif r['id'] == 'DONE':
                    mt = op.get('mtime', 0)
                    c0, c1 = clks.get(i, [0, 0])
                    # mtime 0 means "now", taken while this file is being pushed: not before the previous file's SEND had reached the device
                    # (this file was begun after that), not after the call ended
                    lo = prev_send_clk if prev_send_clk is not None else c0
                    ok = (r['arg'] == mt) if mt else (lo <= r['arg'] <= (c1 if c1 is not None else c0))
                    tr.append(dict(ev='prx', id='DONE', fsize=len(cur_src), mtimeOk=bool(ok)))
                else:
                    tr.append(dict(ev='prx', id=r['id']))
            for w in svc.out:
                tr.append(dict(ev='ptx', id=w['id'], bad=(w['id'] not in ('OKAY', 'FAIL', 'DATA', 'DONE', 'DENT', 'STAT'))))
        # the total a callback is told: the size of the source (push) resp. what the device's STAT reported (pull)
        told = op['stat_size'] if (api == 'pull' and op.get('stat_size') is not None) else (0 if (api == 'push' and op.get('src') == 'fifo') else size)
        for (path, n, total) in rr.extra.get('cb', {}).get(i, []):
            # for a stream the caller has already read from, "the size" may be what is left or the whole buffer: both are accepted
            ok_tot = (total == told) or (api == 'push' and op.get('src_offset') and total == told + op['src_offset'])
            tr.append(dict(ev='cbk', n=n, total=min(total, 2 ** 30) if isinstance(total, int) and total >= 0 else -1, totalOk=bool(ok_tot)))
        # bad ids are those not valid at that point of the exchange: mark via the plan
        plan = op.get('plan') or {}
        if plan.get('bad_id'):
            for e in tr:
                if e['ev'] == 'ptx' and e['id'] == plan['bad_id']:
                    e['bad'] = True
        ok_inert = True if inert is None else bool(inert.get(i, True))
        if o.kind == 'ret':
            f = dict(ev='ret', api=api, inert=ok_inert)
            if api == 'pull':
                got = rr.extra.get('pulled', {}).get(i)
                want = rr.dev.fs.files.get(a['path'], {}).get('data', b'')
                f.update(wrote=len(got) if got is not None else -1, match=(got == want))
            elif api == 'list':
                f.update(entries=[[bytes(x[0]).hex(), limbs_strict(x[1]), limbs_strict(x[2]), limbs_strict(x[3])] for x in o.value],
                         expected=[[bytes.fromhex(n).hex() if isinstance(n, str) else bytes(n).hex(), wire.limbs(m), wire.limbs(sz), wire.limbs(t)] for (n, m, sz, t) in op.get('entries', [])])
            elif api == 'stat':
                f.update(entries=[limbs_strict(x) for x in o.value], expected=[wire.limbs(x) for x in op.get('st', [0, 0, 0])])
            tr.append(f)
        else:
            reason = plan.get('reason', '')
            rb = reason.encode('latin1')
            forms = [reason, rb.decode('utf8', 'backslashreplace'), repr(rb)[2:-1], rb.decode('utf8', 'replace'),
                     repr(bytearray(rb))[12:-2], repr(reason)[1:-1], repr(rb.decode('utf8', 'replace'))[1:-1]]       # whatever quoting repr() chose
            tr.append(dict(ev='exc', api=api, cls=o.exc_name, reasonIn=any(f in str(o.exc) for f in forms) if reason else True,
                           healthy=not plan and not spec.get('faulty') and not isinstance(op.get('dest'), list) and 'budget' not in op and not any(str(n_).endswith('/') for n_, _ in op.get('files', [])),
                           inert=ok_inert, dir=files is not None))
        out.append((i, tr))
    return out
