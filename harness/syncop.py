"""spec->code for the reading FileSync operations: every row enumerated by TLC from tla/AdbSyncOp.tla - an operation (stat, list,
pull, pull with a callback), ANY sequence of reply records up to the bound (valid at that point or not), a device that falls silent
afterwards, a local sink whose k-th write fails - is executed on the real code (sync and async) and the observables are compared
with the row: how the call ends (return / exception class), which records were handed over and in which order, how many CLSEs the
host sent on the operation's stream.
"""
import io

from . import env, simdev, tlc, wire

PAY = {i: (b'<rec%d\xff\xc3>' % i) * (i + 1) for i in range(1, 9)}          # payload / file name of the record at position i (not valid UTF-8: the library treats these bytes as opaque)


def rows(ctx, maxrec):
    cfg = tlc.cfg_text(constants={'MaxRec': str(maxrec)}, invariants=['FailSurfaces', 'InvalidStatus', 'ExactOnReturn', 'StatRule', 'ClosesOnce', 'Row'], deadlock=False)
    r = tlc.cached_run('AdbSyncOp', cfg, tags=('ROW',), depends=('AdbSyncOp',), workers=1)
    if r.violations:
        raise tlc.TlcError('the design spec AdbSyncOp violates %s: %s' % (r.violations[0]['name'], r.violations[0]['trace'][-1][:400]))
    ctx.add_tlc(r, 'AdbSyncOp: every (operation, reply script <= %d records, sink failure)' % maxrec)
    return tlc.printed(r, 'ROW')


def render(op, script):
    """The reply bytes in the record layout of the operation's own reply format."""
    out = b''
    for i, sid in enumerate(script, 1):
        if sid == 'CLSE':
            break                      # the device closes the stream here: nothing of the rest is ever sent
        p = PAY[i]
        if op == 'stat':
            # (id, mode, size, mtime); a FAIL carries its reason after a length in the last field
            out += wire.le32(wire.SYNC_WORD[sid]) + wire.le32(0o100644 + i) + wire.le32(100 + i) + wire.le32(len(p) if sid != 'STAT' else 1000 + i) + (p if sid != 'STAT' else b'')
        elif op == 'list':
            # (id, mode, size, mtime, name length) + name; the host reads no data after a STAT id
            out += wire.le32(wire.SYNC_WORD[sid]) + wire.le32(0o100644 + i) + wire.le32(100 + i) + wire.le32(1000 + i)
            out += (wire.le32(len(p)) + p) if sid != 'STAT' else wire.le32(0)
        else:
            # (id, length) + data; the host reads no data after a STAT id
            out += wire.le32(wire.SYNC_WORD[sid]) + (wire.le32(len(p)) + p if sid != 'STAT' else wire.le32(0))
    return out


class Sink(io.BytesIO):
    def __init__(self, fail_at):
        io.BytesIO.__init__(self)
        self.fail_at, self.n = fail_at, 0

    def write(self, b):
        self.n += 1
        if self.n == self.fail_at:
            raise OSError('disk full (injected)')
        return io.BytesIO.write(self, b)


def run_row(mode, row, cuts=None, close_unacked=False, stall='raise'):
    op, script, fail_at = row['op'], row['script'], row['failAt']
    dev = simdev.SimDevice(seed=len(script))
    reply = render('pull' if op in ('pullcb', 'push') else op, script)
    state = {'n': 0}

    def service_for(dest, d):
        if dest.rstrip(b'\0') != b'sync:':
            return None
        state['n'] += 1
        if op == 'pullcb' and state['n'] == 2:
            return None                       # the stat() a pull with a callback issues on a stream of its own (opened after the pull's): the ordinary service answers it
        return simdev.RawSyncService(reply, cuts, then_close='CLSE' in script, close_unacked=close_unacked)
    dev.service_for = service_for
    dev.fs.add('/f', b'x' * 17)
    sess = env.Session(mode, dev, tick=0.001, stall=stall)          # stall: what the transport does when nothing arrives (its own timeout error / empty reads)
    sess.core.max_calls = 40000
    sess.call('connect')
    n0 = len(dev.rec.events)
    sink = Sink(fail_at)
    cblog = []
    if op == 'stat':
        o = sess.call('stat', '/f', read_timeout_s=1.0)
    elif op == 'list':
        o = sess.call('list', '/f', read_timeout_s=1.0)
    elif op == 'push':
        o = sess.call('push', io.BytesIO(b'abc' * 10), '/new', mtime=5, read_timeout_s=1.0)
    else:
        cb = None
        if op == 'pullcb':
            if mode == 'sync':
                cb = lambda p, n, t: cblog.append((n, t))  # noqa
            else:
                async def cb(p, n, t):
                    cblog.append((n, t))
        o = sess.call('pull', '/f', sink, progress_callback=cb, read_timeout_s=1.0)
    sess.close_loop()
    # the operation's own stream: the last sync: stream opened
    st = [s_ for s_ in dev.all_streams if isinstance(s_.service, simdev.RawSyncService)][-1]
    nclse = sum(1 for e in dev.rec.events[n0:] if e['ev'] == 'tx' and e['cmd'] == 'CLSE' and wire.unlimbs(e['a0']) == st.lid)
    if o.kind == 'ret':
        outcome = 'ret'
    elif o.exc_name in ('AdbTimeoutError', 'SimTimeout', 'TcpTimeoutException'):
        outcome = 'timeout'
    else:
        outcome = o.exc_name
    # which records were handed over
    if op == 'stat':
        items = [i for i in range(1, len(script) + 1) if o.kind == 'ret' and tuple(o.value) == (0o100644 + i, 100 + i, 1000 + i)]
        if o.kind == 'ret' and not items:
            items = [-1]
    elif op == 'push':
        items = []
    elif op == 'list':
        items = []
        if o.kind == 'ret':
            for f in o.value:
                k = next((i for i, p in PAY.items() if bytes(f[0]) == p and tuple(f[1:]) == (0o100644 + i, 100 + i, 1000 + i)), -1)
                items.append(k)
    else:
        data = sink.getvalue()
        items, pos = [], 0
        while pos < len(data):
            k = next((i for i, p in PAY.items() if data.startswith(p, pos) and i == (items[-1] + 1 if items else 1)), None)
            if k is None:
                k = next((i for i, p in sorted(PAY.items(), key=lambda x: -len(x[1])) if data.startswith(p, pos)), None)
            if k is None:
                items.append(-1)
                break
            items.append(k)
            pos += len(PAY[k])
    return dict(outcome=outcome, items=items, nclse=nclse, cb=[n for n, _ in cblog])


def compare(row, obs):
    """Clause name of the first disagreement, or None."""
    if obs['outcome'] != row['outcome']:
        if row['outcome'] in ('AdbCommandFailureException', 'PushFailedError', 'InvalidResponseError') or obs['outcome'] == 'ret':
            return 'C10.NeverSucceeds' if obs['outcome'] == 'ret' else ('C10.FailSurfaces' if row['outcome'] in ('AdbCommandFailureException', 'PushFailedError') else 'C10.InvalidStatus')
        return 'C10.Outcome'
    want_items = row['items']
    if row['outcome'] == 'ret' or row['op'] in ('pull', 'pullcb'):
        if obs['items'] != want_items:
            return {'stat': 'C09.StatExact', 'list': 'C09.ListExact', 'push': 'C07.ExactBytes'}.get(row['op'], 'C08.PullExact')
    if obs['nclse'] != row['nclse']:
        return 'C04.CloseOnce'
    if row['op'] == 'pullcb' and obs['cb'] != [len(PAY[i]) for i in obs['items']]:
        return 'C08.CallbackSum'
    return None
