"""Confirm and file seeded changes produced by independent sub-agents.

  python -m harness.seedtool <outdir with m1..mN> <property> [--checks C19,C06] [--tier quick]

For each mutant: apply the patch in a scratch worktree of /repo (outside /repo and /verif), confirm the
repository's suite still passes, the demonstration fails with the change and passes without it, then run the
registered check(s) against the scratch tree.  Confirmed mutants are kept as /verif/seeded/<id>/.
"""
import json
import os
import shutil
import subprocess
import sys
import time

ROOT = os.path.dirname(os.path.dirname(os.path.abspath(__file__)))


def sh(cmd, **kw):
    p = subprocess.run(cmd, shell=isinstance(cmd, str), stdout=subprocess.PIPE, stderr=subprocess.STDOUT, **kw)
    return p.returncode, p.stdout.decode('utf8', 'replace')


def refresh(ids, tier='quick'):
    """Re-run the checks recorded for the kept mutants against the current /repo HEAD + patch, update meta.json."""
    seeded = os.path.join(ROOT, 'seeded')
    for sid in sorted(os.listdir(seeded)):
        if ids and sid not in ids:
            continue
        d = os.path.join(seeded, sid)
        mp = os.path.join(d, 'meta.json')
        if not os.path.exists(mp):
            continue
        meta = json.load(open(mp))
        wt = '/tmp/seedwt-r-%s-%d' % (sid.lower(), os.getpid())
        sh(['git', '-C', '/repo', 'worktree', 'add', '-q', '--detach', wt, 'HEAD'])
        try:
            rc, o = sh(['git', '-C', wt, 'apply', os.path.join(d, 'patch.diff')])
            if rc != 0:
                meta['refresh_error'] = 'patch does not apply to HEAD'
            else:
                env = dict(os.environ, PYTHONPATH=wt, PYTHONDONTWRITEBYTECODE='1')
                env.pop('ADB_SHELL_VERIF', None)
                rc, o = sh('cd %s && /venv/bin/python -m pytest -q -p no:cacheprovider --timeout=900 tests 2>&1 | tail -3' % wt, env=env)
                meta['suite_tail'] = o.strip().splitlines()[-1] if o.strip() else ''
                meta['suite_passes'] = ' passed' in o and ' failed' not in o
                demo = os.path.join(d, 'demo.py')
                rc1, _ = sh(['/venv/bin/python', demo], env=env, cwd='/tmp', timeout=600)
                rc0, _ = sh(['/venv/bin/python', demo], env=dict(env, PYTHONPATH='/repo'), cwd='/tmp', timeout=600)
                meta['demo_with_change'], meta['demo_without_change'] = rc1, rc0
                meta['confirmed'] = bool(meta['suite_passes'] and rc1 != 0 and rc0 == 0)
                for c in list(meta['checks']) + [x for x in meta.get('also', []) if x not in meta['checks']]:
                    t0 = time.time()
                    rc, o = sh([os.path.join(ROOT, 'check'), c, '--tier', tier, '--repo', wt, '--no-evidence'], cwd=ROOT, timeout=3600)
                    lines = [l for l in o.splitlines() if l.startswith(('VIOLATION', 'DESIGN-DRIFT', 'MACHINERY'))]
                    meta['checks'][c] = dict(exit=rc, tier=tier, wall_s=round(time.time() - t0, 1), lines=[l[:300] for l in lines[:3]])
                meta['refreshed_at_repo_head'] = sh(['git', '-C', '/repo', 'log', '-1', '--format=%h'])[1].strip()
        finally:
            sh(['git', '-C', '/repo', 'worktree', 'remove', '--force', wt])
            shutil.rmtree(wt, ignore_errors=True)
        with open(mp, 'w') as f:
            json.dump(meta, f, indent=1)
        print(sid, meta.get('confirmed'), {c: v['exit'] for c, v in meta['checks'].items()}, meta.get('refresh_error', ''))


def main():
    if sys.argv[1] == '--refresh':
        return refresh(sys.argv[2:])
    out, prop = sys.argv[1], sys.argv[2]
    checks = [prop]
    tier = 'quick'
    skip_suite = '--skip-suite' in sys.argv
    for i, a in enumerate(sys.argv):
        if a == '--checks':
            checks = sys.argv[i + 1].split(',')
        if a == '--tier':
            tier = sys.argv[i + 1]
    results = []
    for m in sorted(os.listdir(out)):
        d = os.path.join(out, m)
        patch = os.path.join(d, 'patch.diff')
        if not os.path.isfile(patch):
            continue
        wt = '/tmp/seedwt-%s-%s-%d' % (prop.lower(), m, os.getpid())
        sh(['git', '-C', '/repo', 'worktree', 'add', '-q', '--detach', wt, 'HEAD'])
        meta = dict(property=prop, mutant=m, source=out, confirmed=False, checks={})
        try:
            rc, o = sh(['git', '-C', wt, 'apply', patch])
            if rc != 0:
                meta['error'] = 'patch does not apply: ' + o[-300:]
                results.append(meta)
                continue
            env = dict(os.environ, PYTHONPATH=wt, PYTHONDONTWRITEBYTECODE='1')
            env.pop('ADB_SHELL_VERIF', None)
            if not skip_suite:
                rc, o = sh('cd %s && /venv/bin/python -m pytest -q -p no:cacheprovider --timeout=900 tests 2>&1 | tail -3' % wt, env=env)
                meta['suite_tail'] = o.strip().splitlines()[-1] if o.strip() else ''
                meta['suite_passes'] = ' passed' in o and ' failed' not in o and 'error' not in o.lower()
            else:
                meta['suite_passes'] = None
            demo = os.path.join(d, 'demo.py')
            rc1, o1 = sh(['/venv/bin/python', demo], env=env, cwd='/tmp', timeout=600)
            rc0, o0 = sh(['/venv/bin/python', demo], env=dict(env, PYTHONPATH='/repo'), cwd='/tmp', timeout=600)
            meta['demo_with_change'] = rc1
            meta['demo_without_change'] = rc0
            meta['demo_output'] = o1[-400:]
            meta['confirmed'] = bool(meta['suite_passes'] is not False and rc1 != 0 and rc0 == 0)
            for c in checks:
                t0 = time.time()
                rc, o = sh([os.path.join(ROOT, 'check'), c, '--tier', tier, '--repo', wt, '--no-evidence'], cwd=ROOT, timeout=3600)
                lines = [l for l in o.splitlines() if l.startswith(('VIOLATION', 'KNOWN-FINDING', 'DESIGN-DRIFT', 'MACHINERY'))]
                meta['checks'][c] = dict(exit=rc, tier=tier, wall_s=round(time.time() - t0, 1), lines=[l[:300] for l in lines[:4]])
            note = os.path.join(d, 'note.txt')
            meta['needs'] = open(note).read().strip() if os.path.exists(note) else ''
            meta['ran'] = ['pytest tests (guard off) in scratch worktree', 'demo.py with and without the change'] + ['./check %s --tier %s --repo <scratch>' % (c, tier) for c in checks]
        finally:
            sh(['git', '-C', '/repo', 'worktree', 'remove', '--force', wt])
            shutil.rmtree(wt, ignore_errors=True)
        results.append(meta)
        if meta['confirmed']:
            sid = '%s-%s-%s' % (prop, os.path.basename(out.rstrip('/')).replace('wt-', '').replace('-out', ''), m)
            dst = os.path.join(ROOT, 'seeded', sid)
            os.makedirs(dst, exist_ok=True)
            for f in ('patch.diff', 'demo.py', 'note.txt'):
                if os.path.exists(os.path.join(d, f)):
                    shutil.copy(os.path.join(d, f), os.path.join(dst, f))
            with open(os.path.join(dst, 'meta.json'), 'w') as f:
                json.dump(meta, f, indent=1)
        print(json.dumps({k: meta[k] for k in meta if k not in ('needs', 'demo_output')}, indent=None)[:900])
    caught = sum(1 for r in results if r.get('confirmed') and any(c['exit'] == 1 for c in r['checks'].values()))
    print('confirmed %d / %d, caught %d' % (sum(1 for r in results if r.get('confirmed')), len(results), caught))


if __name__ == '__main__':
    main()
