"""Pre-compute the TLC results that depend only on the specifications (edge streams)."""
import time


def main():
    t0 = time.time()
    from .checks import c19
    c19.warm()
    print('caches warm in %.0fs' % (time.time() - t0))
