"""Common frame of every check: tiers, seeds, verdict bookkeeping, known findings, evidence, exit codes."""
import argparse
import json
import os
import re
import sys
import time
import traceback

ROOT = os.path.dirname(os.path.dirname(os.path.abspath(__file__)))
EVID = os.path.join(ROOT, 'evidence')
REPLAYS = os.path.join(ROOT, 'replays')
FINDINGS = os.path.join(ROOT, 'KNOWN_FINDINGS.txt')


class Finding(object):
    def __init__(self, status, prop, fid, text, fields):
        self.status, self.prop, self.fid, self.text, self.fields = status, prop, fid, text, fields


def load_findings():
    out = []
    if not os.path.exists(FINDINGS):
        return out
    for line in open(FINDINGS):
        line = line.strip()
        if not line or line.startswith('#'):
            continue
        m = re.match(r'^(open|fixed):\s+property=(\S+)\s+(.*)$', line)
        if not m:
            continue
        fields = dict(re.findall(r'(\w+)=(\S+)', m.group(3)))
        out.append(Finding(m.group(1), m.group(2), fields.get('finding', ''), m.group(3), fields))
    return out


class Ctx(object):
    def __init__(self, prop, level, argv=None):
        ap = argparse.ArgumentParser()
        ap.add_argument('--tier', default=os.environ.get('VERIF_TIER', 'quick'), choices=['quick', 'thorough'])
        ap.add_argument('--seed', type=int, default=int(os.environ.get('VERIF_SEED', '0') or 0))
        ap.add_argument('--repo', default=os.environ.get('VERIF_REPO', '/repo'))
        ap.add_argument('--replay', default=None)
        ap.add_argument('--no-evidence', action='store_true')
        a = ap.parse_args(argv)
        self.prop, self.level = prop, level
        self.tier, self.seed, self.repo, self.replay, self.no_evidence = a.tier, a.seed, a.repo, a.replay, a.no_evidence
        self.quick = self.tier == 'quick'
        self.t0 = time.time()
        self.violations = []
        self.known_hits = {}
        self.cov = dict(states=0, transitions=0, traces_validated_against_impl=0, samples=[], evaluations=0, distinct_nontrivial=0)
        self.extra = {}
        self.assumptions = []
        self.findings = [f for f in load_findings() if f.prop == prop]
        self.drift = []
        from . import env
        env.setup_repo(self.repo)

    # ---- coverage accounting
    def add_tlc(self, r, label=None):
        self.cov['states'] += r.distinct
        self.cov['transitions'] += r.generated
        self.extra.setdefault('tlc_runs', []).append(dict(label=label, distinct=r.distinct, generated=r.generated, wall_s=round(r.wall, 2),
                                                           cmd=re.sub(r'\S*/\.work/\S*?/', '', r.cmd)))

    def sample(self, s, cap=6):
        if len(self.cov['samples']) < cap:
            self.cov['samples'].append(s)

    def count(self, evaluations=0, distinct=0, traces=0):
        self.cov['evaluations'] += evaluations
        self.cov['distinct_nontrivial'] += distinct
        self.cov['traces_validated_against_impl'] += traces

    # ---- verdicts
    def open_finding(self, fid):
        for f in self.findings:
            if f.status == 'open' and f.fid == fid:
                return f
        return None

    def violation(self, clause, replay, finding=None):
        """Report a Layer-A clause failure.  `finding`: id of the known finding whose signature this failure matches, if any."""
        if finding and self.open_finding(finding):
            k = self.known_hits.setdefault(finding, dict(n=0, clause=clause, sample=replay))
            k['n'] += 1
            return False
        self.violations.append((clause, replay))
        return True

    def design_drift(self, what):
        if len(self.drift) < 20:
            self.drift.append(what)

    def finish(self):
        wall = time.time() - self.t0
        for fid, k in self.known_hits.items():
            f = self.open_finding(fid)
            print('KNOWN-FINDING: property=%s %s (%d occurrences this run, clause %s)' % (self.prop, f.text, k['n'], k['clause']))
        for d in self.drift[:5]:
            print('DESIGN-DRIFT property=%s %s' % (self.prop, d))
        os.makedirs(REPLAYS, exist_ok=True)
        for i, (clause, replay) in enumerate(self.violations[:5]):
            path = os.path.join(REPLAYS, '%s-%s-%d.json' % (self.prop, self.tier, i))
            with open(path, 'w') as f:
                json.dump(dict(property=self.prop, clause=clause, seed=self.seed, tier=self.tier, replay=replay), f, indent=1, default=repr)
            print('VIOLATION property=%s replay=%s clause=%s' % (self.prop, path, clause))
        if not self.no_evidence:
            cov = dict(self.cov)
            cov.update(self.extra)
            cov['known_findings_hit'] = {k: v['n'] for k, v in self.known_hits.items()}
            cov['design_drift'] = self.drift
            if not cov['samples']:
                cov['samples'] = ['(none recorded)']
            ev = dict(property_id=self.prop, tier=self.tier, seed=self.seed, level=self.level, coverage=cov, assumptions=self.assumptions,
                      wall_s=round(wall, 2), violations=len(self.violations))
            os.makedirs(EVID, exist_ok=True)
            with open(os.path.join(EVID, self.prop + '.json'), 'w') as f:
                json.dump(ev, f, indent=1, default=repr)
        print('%s %s: %s in %.1fs (states=%d transitions=%d traces=%d evaluations=%d)' % (
            self.prop, self.tier, 'VIOLATED' if self.violations else 'held', wall, self.cov['states'], self.cov['transitions'],
            self.cov['traces_validated_against_impl'], self.cov['evaluations']))
        return 1 if self.violations else 0


def main(prop, level, body, argv=None):
    """Run a check body(ctx); exit 0 held / 1 violation / 2 machinery failure."""
    try:
        ctx = Ctx(prop, level, argv)
        try:
            body(ctx)
        except Exception as e:  # noqa
            from . import env as _env
            if not isinstance(e, _env.HarnessDrift):
                raise
            # the private layout the harness instruments is gone (a rename): what was judged so far stands, the rest is reported as a notice
            ctx.design_drift('%s - the parts of this check that need it were not run' % e)
        rc = ctx.finish()
    except SystemExit:
        raise
    except BaseException:  # noqa
        traceback.print_exc()
        print('MACHINERY-FAILURE property=%s' % prop)
        sys.exit(2)
    sys.exit(rc)


def as_built():
    """Deviation constants of the as-built design: (DEV_K1, DEV_F5, REGISTRY).
    put() drops a CLSE for an unknown pair (as built, pinned by the suite); the registry exists once K1 is repaired;
    DEV_F5 only while F5 is an open finding."""
    fs = load_findings()
    k1_open = any(f.status == 'open' and f.fid == 'K1' for f in fs)
    f5_open = any(f.status == 'open' and f.fid == 'F5' for f in fs)
    return True, f5_open, (not k1_open)
