"""Independent ADB / FileSync codec used as the projection of every check.

Never imports adb_shell and never uses struct: headers are built and parsed with explicit
shifts so that a systematic framing error in adb_shell.adb_message cannot be mirrored here.
"""

CMDS = ('SYNC', 'CNXN', 'AUTH', 'OPEN', 'OKAY', 'CLSE', 'WRTE')
SYNC_IDS = ('DATA', 'DENT', 'DONE', 'FAIL', 'LIST', 'OKAY', 'QUIT', 'RECV', 'SEND', 'STAT')

M32 = 0xFFFFFFFF


def word_of(name):
    """4 ASCII characters -> little-endian 32-bit word."""
    b = name.encode('ascii') if isinstance(name, str) else bytes(name)
    return b[0] | (b[1] << 8) | (b[2] << 16) | (b[3] << 24)


CMD_WORD = {c: word_of(c) for c in CMDS}
WORD_CMD = {w: c for c, w in CMD_WORD.items()}
SYNC_WORD = {c: word_of(c) for c in SYNC_IDS}
WORD_SYNC = {w: c for c, w in SYNC_WORD.items()}


def le32(v):
    v &= M32
    return bytes((v & 0xFF, (v >> 8) & 0xFF, (v >> 16) & 0xFF, (v >> 24) & 0xFF))


def rd32(b, off=0):
    return b[off] | (b[off + 1] << 8) | (b[off + 2] << 16) | (b[off + 3] << 24)


def bytesum(data):
    return sum(bytes(data))


def limbs(v):
    """32-bit value as [hi16, lo16] (TLC integers are 32-bit signed)."""
    return [(v >> 16) & 0xFFFF, v & 0xFFFF]


def unlimbs(l):
    return (l[0] << 16) | l[1]


def frame(cmd, a0, a1, payload=b'', check=None, magic=None, length=None):
    payload = bytes(payload)
    w = CMD_WORD[cmd] if isinstance(cmd, str) else cmd
    return (le32(w) + le32(a0) + le32(a1) + le32(len(payload) if length is None else length) +
            le32(bytesum(payload) if check is None else check) + le32((w ^ M32) if magic is None else magic) + payload)


def parse_header(h):
    assert len(h) == 24
    return dict(cmdw=rd32(h, 0), a0=rd32(h, 4), a1=rd32(h, 8), len=rd32(h, 12), check=rd32(h, 16), magic=rd32(h, 20))


class FrameParser(object):
    """Incremental parser of a byte stream into ADB frames."""

    def __init__(self):
        self.buf = bytearray()

    def feed(self, data):
        self.buf += data
        out = []
        while len(self.buf) >= 24:
            h = parse_header(self.buf[:24])
            if len(self.buf) < 24 + h['len']:
                break
            h['payload'] = bytes(self.buf[24:24 + h['len']])
            del self.buf[:24 + h['len']]
            h['cmd'] = WORD_CMD.get(h['cmdw'], '?')
            out.append(h)
        return out


def sync_record(sid, arg, data=b''):
    """8-byte sync header + data (DATA, SEND, RECV, LIST, STAT request, DONE, OKAY, FAIL, QUIT)."""
    return le32(SYNC_WORD[sid]) + le32(arg) + bytes(data)


def sync_stat(mode, size, mtime):
    return le32(SYNC_WORD['STAT']) + le32(mode) + le32(size) + le32(mtime)


def sync_dent(mode, size, mtime, name):
    return le32(SYNC_WORD['DENT']) + le32(mode) + le32(size) + le32(mtime) + le32(len(name)) + bytes(name)


def sync_done_list():
    return le32(SYNC_WORD['DONE']) + le32(0) * 4


class SyncParser(object):
    """Incremental parser of the host->device sync byte stream (all requests have 8-byte headers)."""

    def __init__(self):
        self.buf = bytearray()

    def feed(self, data):
        self.buf += data
        out = []
        while len(self.buf) >= 8:
            w = rd32(self.buf, 0)
            arg = rd32(self.buf, 4)
            sid = WORD_SYNC.get(w, '?')
            if sid in ('DONE', 'QUIT', '?'):
                n = 0
            else:
                n = arg
            if len(self.buf) < 8 + n:
                break
            out.append(dict(id=sid, arg=arg, data=bytes(self.buf[8:8 + n]), word=w))
            del self.buf[:8 + n]
        return out
