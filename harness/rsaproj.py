"""Independent projection of key material (C17): pure-integer RSA verification and Android RSAPublicKey decoding.
Uses only the standard library (and `cryptography` to read the PEM private key's public numbers); no adb_shell code."""
import base64

SHA1_DIGESTINFO = bytes.fromhex('3021300906052b0e03021a05000414')


def public_numbers_of_pem(path):
    from cryptography.hazmat.primitives import serialization
    with open(path, 'rb') as f:
        key = serialization.load_pem_private_key(f.read(), password=None)
    pn = key.public_key().public_numbers()
    return pn.n, pn.e


def recover_token(sig, n, e):
    """If sig is an RSASSA-PKCS1-v1_5 signature under (n, e) over a 20-byte value taken as a SHA-1 digest, return that value."""
    k = (n.bit_length() + 7) // 8
    if len(sig) != k:
        return None
    s = int.from_bytes(bytes(sig), 'big')
    if s >= n:
        return None
    em = pow(s, e, n).to_bytes(k, 'big')
    t = SHA1_DIGESTINFO
    want_prefix = b'\x00\x01' + b'\xff' * (k - 3 - len(t) - 20) + b'\x00' + t
    if em[:len(want_prefix)] != want_prefix:
        return None
    return em[len(want_prefix):]


def decode_blob(payload):
    """payload: what the host offers in AUTH(RSAPUBLICKEY) or the .pub file content.  Returns dict(ok, n, e, comment, why)."""
    b = bytes(payload).rstrip(b'\x00')
    head, sep, comment = b.partition(b' ')
    try:
        raw = base64.b64decode(head, validate=True)
    except Exception as x:  # noqa
        return dict(ok=False, why='base64: %r' % x)
    if len(raw) != 524:
        return dict(ok=False, why='struct length %d' % len(raw))
    words = int.from_bytes(raw[0:4], 'little')
    n0inv = int.from_bytes(raw[4:8], 'little')
    n = int.from_bytes(raw[8:264], 'little')
    rr = int.from_bytes(raw[264:520], 'little')
    e = int.from_bytes(raw[520:524], 'little')
    why = []
    if words != 64:
        why.append('len words %d' % words)
    if (n * n0inv) % (2 ** 32) != 2 ** 32 - 1:
        why.append('n0inv')
    if n and rr != pow(2, 4096, n):
        why.append('rr')
    if not sep or b'@' not in comment:
        why.append('comment %r' % comment[:30])
    return dict(ok=not why, n=n, e=e, comment=comment, why=', '.join(why))


def private_numbers_of_pem(path):
    from cryptography.hazmat.primitives import serialization
    with open(path, 'rb') as f:
        key = serialization.load_pem_private_key(f.read(), password=None)
    pn = key.private_numbers()
    return pn.public_numbers.n, pn.public_numbers.e, pn.d


def reference_signature(token, n, d):
    """EMSA-PKCS1-v1_5(SHA-1 DigestInfo || token) ^ d mod n, as k bytes (reference for boundary searches)."""
    k = (n.bit_length() + 7) // 8
    t = SHA1_DIGESTINFO + bytes(token)
    em = b'\x00\x01' + b'\xff' * (k - 3 - len(t)) + b'\x00' + t
    return pow(int.from_bytes(em, 'big'), d, n).to_bytes(k, 'big')
