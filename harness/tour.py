"""spec->code for the concurrent design spec AdbHost: edge stream -> transition tour -> replay into real
threads (AdbDevice) or asyncio tasks (AdbDeviceAsync) under the deterministic scheduler, comparing the
projected real state with the model state after every step."""
import asyncio
import collections
import json
import os

from . import env, sched, simdev, tlc, transports, wire

PCCLASS = {'alloc': 'acq_id', 'sendOpen': 'acq_t', 'sendWrte': 'acq_t', 'sendClse': 'acq_t', 'sendClseFinal': 'acq_t', 'ack': 'acq_t',
           'rd23': 'acq_t', 'rd1': 'acq_s', 'rd4': 'read', 'ret': 'done', 'done': 'done', 'raise': 'done'}


# ------------------------------------------------------------------ TLC side
def host_cfg(prog, dev_k1, dev_f5, ridbase=10, invariants=(), view=True, emit=False, deadlock=True, properties=(), spec='Spec', constraints=(), registry=False, giveup=()):
    threads = sorted(prog)
    return tlc.cfg_text(constants={'Threads': '{' + ','.join('"%s"' % t for t in threads) + '}', 'Prog': '<- MC_Prog', 'Replies': '<- MC_Replies',
                                   'DEV_K1': 'TRUE' if dev_k1 else 'FALSE', 'DEV_F5': 'TRUE' if dev_f5 else 'FALSE', 'REGISTRY': 'TRUE' if registry else 'FALSE', 'RidBase': str(ridbase),
                                   'GIVEUP': '{' + ','.join('"%s"' % t for t in sorted(giveup)) + '}'},
                        spec=spec, invariants=list(invariants), properties=list(properties), view='View' if view else None,
                        action_constraints=['EmitEdge'] if emit else [], deadlock=deadlock, constraints=list(constraints))


def host_run(prog, replies, dev_k1, dev_f5, invariants=('MonitorOK', 'Complete', 'NoCrossTalk', 'NoStuck', 'LockDiscipline'), emit=False, workers=16,
             ridbase=10, cached=False, properties=(), spec='Spec', timeout=1800, deadlock=True, registry=False, giveup=()):
    """Model-check AdbHost for the given thread programs (prog/replies: dict thread -> list)."""
    import hashlib
    mod = tlc.mc_module('MCHost', 'AdbHost', dict(MC_Prog=prog, MC_Replies=replies))
    cfg = host_cfg(prog, dev_k1, dev_f5, ridbase, invariants, emit=emit, properties=properties, spec=spec, deadlock=deadlock, registry=registry, giveup=giveup)
    tag = hashlib.sha256((mod + cfg).encode()).hexdigest()[:12]
    d = os.path.join(tlc.WORK, 'mch-' + tag + ('-%d' % os.getpid()))
    os.makedirs(d, exist_ok=True)
    with open(os.path.join(d, 'MCHost.tla'), 'w') as f:
        f.write(mod)
    try:
        if cached:
            return tlc.cached_run('MCHost', cfg, workers=1, module_dir=d, depends=('AdbHost', 'AdbMon', 'AdbWords', 'AdbDecode'), extra_key=mod)
        return tlc.run('MCHost', cfg, wd=d, workers=1 if emit else workers, module_dir=d, timeout=timeout)
    finally:
        import shutil
        shutil.rmtree(d, ignore_errors=True)


def canon(o):
    if isinstance(o, dict):
        return {k: canon(v) for k, v in sorted(o.items())}
    if isinstance(o, list):
        return [canon(x) for x in o]
    return o


def state_key(st):
    st = canon(st)
    for k in ('store', 'dev', 'live'):
        if k in st:
            st[k] = sorted(st[k], key=json.dumps)
    return json.dumps(st, sort_keys=True)


class Graph(object):
    def __init__(self, edges, keep_loops=False):
        self.edges = []
        for e in edges:
            e['fs'] = state_key(e['from'])
            e['ts'] = state_key(e['to'])
            if e['fs'] == e['ts'] and not keep_loops:
                continue        # the terminal stutter step
            self.edges.append(e)
        self.succ = collections.defaultdict(list)
        for e in self.edges:
            self.succ[e['fs']].append(e)
        ts = {e['ts'] for e in self.edges}
        inits = {e['fs'] for e in self.edges if e['fs'] not in ts}
        if len(inits) == 1:
            self.init = inits.pop()
        elif not inits and self.edges:
            self.init = self.edges[0]['fs']        # breadth-first search: the first edge printed leaves the initial state
        else:
            raise tlc.TlcError('edge stream has %d initial states' % len(inits))
        self.states = ts | {self.init}

    def tour(self):
        """Root paths covering every edge (shortest prefix to an uncovered edge, then greedy extension)."""
        parent = {self.init: None}
        dq = collections.deque([self.init])
        while dq:
            u = dq.popleft()
            for e in self.succ[u]:
                if e['ts'] not in parent:
                    parent[e['ts']] = e
                    dq.append(e['ts'])

        def path_to(u):
            p = []
            while parent[u] is not None:
                p.append(parent[u])
                u = parent[u]['fs']
            return p[::-1]
        covered = set()
        paths = []
        for e in self.edges:
            if id(e) in covered or e['fs'] not in parent:
                continue
            p = path_to(e['fs']) + [e]
            covered.add(id(e))
            v = e['ts']
            while True:
                nxt = next((x for x in self.succ[v] if id(x) not in covered), None)
                if nxt is None:
                    break
                p.append(nxt)
                covered.add(id(nxt))
                v = nxt['ts']
            for x in p:
                covered.add(id(x))
            paths.append(p)
        return paths


# ------------------------------------------------------------------ real side
_holder = {'sched': None}
_locks = sched.Locks()
_SLock, _ALock = sched.make_lock_classes(lambda: _holder['sched'], _locks)


def payload_of(t, i):
    return ('%s#%d;' % (t, i)).encode()


LIST2 = ['flush', 'readw', 'readw', 'clse']          # list whose reply arrives in two WRITEs
PUSH2 = ['flush', 'flush', 'readw', 'clse']          # push that needs two WRITEs (maxdata 64, 40 bytes)
PUSH2FAIL = ['flush', 'flush', 'readw', 'raise']     # the same push rejected by the device right after SEND
REFUSED = ['refused']                                 # exploration only: a command whose OPEN the device refuses (CLSE with remote id 0)
PULLFAIL = ['pullfail']                               # exploration only: a pull whose local sink raises at its first write, while the device
                                                      # still has a WRITE (the DONE record) in flight; the stream is then closed by the host


class World(object):
    """One real device object with concurrent operations under the deterministic scheduler."""

    def __init__(self, mode, prog, replies, ridbase=10, rec=None, lid0=None):
        m = env.mods()
        self.mode = mode
        self.prog, self.replies = prog, replies
        self.threads = sorted(prog)
        self.rec = rec or simdev.Recorder()
        self.rec.who = sched.current_name
        md = 64 if any(p in (PUSH2, PUSH2FAIL) for p in prog.values()) else 4096
        self.dev = simdev.SimDevice(rec=self.rec, lazy=False, rid_of=lambda lid, dev: ridbase + lid, auth=simdev.AuthPolicy(maxdata=md))
        self.dev.reorder = True
        for i, t in enumerate(self.threads):
            self.dev.fs.add('/' + t, b'x' * (11 * (i + 1)), mode=0o100000 + i + 1, mtime=1000 + i)
            self.dev.fs.dirs['/' + t] = [(('e-' + t).encode(), i + 1, 10 + i, 100 + i)]
        self.dev.service_for = self.service_for
        self.dev.refuse_open = lambda dest: (lambda d_: d_.startswith(b'shell:') and prog.get(d_[6:].decode('utf8', 'replace')) == REFUSED)(dest.rstrip(b'\0'))
        self.clock = simdev.VClock()
        self.core = transports.PipeCore(self.dev, rec=self.rec, clock=self.clock)
        self.core.defer = True
        self.gate = sched.Gate(lambda: _holder['sched'])
        MemT, MemTA = env.tclasses()
        _holder['sched'] = None
        if mode == 'sync':
            self.module = m['sync']
            self.module.Lock = _SLock
            env.bind_time(self.clock, self.module)
            self.device = self.module.AdbDevice(MemT(self.core, self.gate), banner=b'verif')
            self.sched = sched.ThreadSched()
        else:
            self.module = m['asyn']
            self.module.Lock = _ALock
            env.bind_time(self.clock, self.module)
            self.device = self.module.AdbDeviceAsync(MemTA(self.core, self.gate), banner=b'verif')
            self.sched = sched.TaskSched()
        io = self.device._io_manager
        idl, tl, sl = env.locks_of(self.device)
        sl.name, tl.name, idl.name = 's', 't', 'id'
        _locks.by_name = {'s': sl, 't': tl, 'id': idl}
        self.tlock = tl
        self.io = io
        self.lid0 = lid0
        self.io_yield = False
        self.line_yield = False      # exploration only: preempt before every line of the packet store methods and of read()
        self.lids = {t: 0 for t in self.threads}
        self.results = {}

    def line_tracer(self):
        import os as _os
        hh = _os.path.join('adb_shell', 'hidden_helpers.py')
        dv = _os.path.join('adb_shell', 'adb_device.py')
        store_methods = ('put', 'get', 'find', 'find_allow_zeros', 'clear', 'clear_all', 'mark_live', '__len__', '__contains__', '<genexpr>')
        sch = self.sched

        def tracer(frame, event, arg):
            co = frame.f_code
            if (co.co_filename.endswith(hh) and co.co_name in store_methods) or (co.co_filename.endswith(dv) and co.co_name == 'read'):
                def local(fr, ev, a):
                    if ev == 'line' and _holder['sched'] is sch:
                        sch.boundary('line', lambda: True)
                    return local
                return local
            return None
        return tracer

    def service_for(self, dest, dev):
        d = dest.rstrip(b'\0')
        if d.startswith(b'shell:'):
            t = d[6:].decode('utf8', 'replace')
            if t not in self.replies:
                return simdev.ShellService([])       # not a command of this world (e.g. a destination garbled by interleaved writes): runs, says nothing
            return simdev.ShellService([payload_of(t, i) for i in self.replies[t][0]])
        if d == b'reboot:':
            return simdev.ShellService([], close=False)
        if d == b'sync:':
            t = getattr(dev, 'cur_writer', None)
            p = self.prog.get(t)
            plan = simdev.SyncFailPlan('SEND', reason=b'denied') if p and p[-1] == 'raise' else None
            cut = None
            if p == LIST2:
                cut = lambda b: [b[:7], b[7:]]  # noqa
            if p == PULLFAIL:
                cut = lambda b: [b] if len(b) < 20 else [b[:9], b[9:-8], b[-8:]]  # noqa  (the DATA record in two WRITEs, the DONE record in a third)
            return simdev.SyncService(dev, plan=plan, cutter=cut)
        return None

    def op(self, t):
        """The public call that has the stream shape Prog[t]."""
        d = self.device
        p = self.prog[t]
        if p == ['shell']:
            return lambda: d.shell(t, decode=False)
        if p == ['close']:
            return lambda: d.close()
        if p == REFUSED:
            return lambda: d.shell(t, decode=False)
        if p == PULLFAIL:
            import io as _io

            class FullDisk(_io.BytesIO):
                def write(self, b):
                    raise OSError(28, 'No space left on device (injected)')
            return lambda: d.pull('/' + t, FullDisk())
        if p == []:
            return lambda: d.reboot()
        if p == ['flush', 'readw', 'clse']:
            return lambda: d.stat('/' + t)
        if p == LIST2:
            return lambda: d.list('/' + t)
        if p in (PUSH2, PUSH2FAIL):
            import io
            world = self

            class YieldIO(io.BytesIO):
                # reading the local source is I/O: a real thread can be preempted there (exploration only)
                def read(self, n=-1):
                    s_ = _holder['sched']
                    if world.io_yield and s_ is not None and not s_.is_async and sched.current_name() in s_.th:
                        s_.boundary('io', lambda: True)
                    return io.BytesIO.read(self, n)
            ti = self.threads.index(t)
            return lambda: d.push(YieldIO(bytes((x * (ti + 3) + ti) % 251 for x in range(40))), '/p', mtime=5)
        raise AssertionError('no public operation has the shape %r' % (p,))

    async def start(self):
        # connect outside the schedule: the device answers CNXN at once
        self.core.defer = False
        self.dev.lazy = True
        if self.mode == 'sync':
            ok = self.device.connect()
        else:
            ok = await self.device.connect()
        assert ok
        self.core.defer = True
        self.dev.lazy = False
        self.core.h2d_q = []
        if self.lid0 is not None:
            self.device._local_id = self.lid0
        _holder['sched'] = self.sched
        for t in self.threads:
            await self.sched.aspawn(t, self.op(t))
        for t in self.threads:
            await self.sched.astep(t)          # to the first boundary (acq_id)

    async def apply(self, act):
        who, what = act['who'], act['what']
        if who == 'dev':
            if what == 'recv':
                self.core.dev_recv()
            else:
                kind = 'ack' if what == 'okay' else 'data'
                r = [x for x in self.dev.ready() if x[0] == act['l'] and x[1] == kind]
                if not r:
                    raise sched.SchedError('device action %r not enabled (ready: %r)' % (act, self.dev.ready()))
                self.dev.emit(r[0])
        elif what == 'Return':
            pass
        else:
            await self.sched.astep(who)
            if what == 'Alloc':
                self.lids[who] = self.device._local_id

    async def stop(self):
        await self.sched.akill()
        _holder['sched'] = None
        for t, r in self.sched.th.items():
            self.results[t] = r.res

    def project(self):
        st = self.io._packet_store._dict
        devs = {}
        for s in self.dev.all_streams:
            devs[s.lid] = dict(acks=len(s.acks), wait=s.await_ack, outq=sum(1 for x in s.data if x[0] == 'WRTE'))
        return dict(
            pc={t: self.sched.th[t].at for t in self.threads}, lid=dict(self.lids), nid=self.device._local_id,
            tlock=self.tlock.holder or 'free',
            store=sorted([a0, a1, [c.decode() for c, _ in env.queue_items(q)]] for a1, m in st.items() for a0, q in m.items()),
            live=sorted([a0, a1] for (a0, a1) in getattr(self.io._packet_store, '_live', ())),
            d2h=[[f['pk']['cmd'], wire.unlimbs(f['pk']['a0']), wire.unlimbs(f['pk']['a1'])] for f in self.dev.wire],
            h2d=[[h['cmd'], h['a0'], h['a1']] for h in self.core.h2d_q],
            dev=devs)


def reduce_model(st):
    devs = {}
    for d in st['dev']:
        devs[d['l']] = dict(acks=d['okq'] + (1 if d['st'] in ('sendOkay', 'sendClse') else 0), wait=d['wait'], outq=d['outq'])
    return dict(
        pc={t: PCCLASS[v['pc']] for t, v in st['th'].items()}, lid={t: v['lid'] for t, v in st['th'].items()}, nid=st['nid'], tlock=st['tlock'],
        store=sorted([x['a0'], x['a1'], [y['cmd'] for y in x['q']]] for x in st['store']),
        live=sorted([x['a0'], x['a1']] for x in st.get('live', [])),
        d2h=[[x['cmd'], x['a0'], x['a1']] for x in st['d2h']], h2d=[[x['cmd'], x['a0'], x['a1']] for x in st['h2d']], dev=devs)


def norm(o):
    return json.dumps(o, sort_keys=True)


async def replay_path(mode, prog, replies, path, ridbase=10):
    """Returns None if every step conformed, else dict(step, real, model, act)."""
    w = World(mode, prog, replies, ridbase)
    await w.start()
    try:
        for i, e in enumerate(path):
            try:
                await w.apply(e['act'])
            except sched.SchedError as x:
                return dict(step=i, act=e['act'], error=str(x), real=w.project(), model=reduce_model(e['from'])), w
            real, model = w.project(), reduce_model(e['to'])
            if norm(real) != norm(model):
                return dict(step=i, act=e['act'], real=real, model=model), w
    finally:
        await w.stop()
    return None, w


def replay_tour(mode, prog, replies, paths, ridbase=10, stop_after=1, progress=None):
    """Replay all paths; returns (paths_replayed, steps, mismatches list)."""
    async def main():
        bad = []
        steps = 0
        n = 0
        for p in paths:
            r, w = await replay_path(mode, prog, replies, p, ridbase)
            n += 1
            steps += len(p)
            if r:
                r['path'] = [x['act'] for x in p[:r['step'] + 1]]
                bad.append(r)
                if len(bad) >= stop_after:
                    break
        return n, steps, bad
    loop = asyncio.new_event_loop()
    try:
        return loop.run_until_complete(main())
    finally:
        loop.close()


def _replay_chunk(args):
    mode, prog, replies, chunk, ridbase = args
    return replay_tour(mode, prog, replies, chunk, ridbase)


def replay_tour_parallel(jobs, procs=8):
    """jobs: list of (mode, prog, replies, paths).  The paths of every job are dealt to `procs` forked workers (each has its own
    interpreter state, schedulers and simulator); returns one (paths_replayed, steps, mismatches) per job."""
    import multiprocessing as mp
    tasks, owner = [], []
    for j, (mode, prog, replies, paths) in enumerate(jobs):
        per = max(1, procs // len(jobs))
        for c in range(per):
            chunk = paths[c::per]
            if chunk:
                tasks.append((mode, prog, replies, chunk, 10))
                owner.append(j)
    ctx_ = mp.get_context('fork')
    with ctx_.Pool(min(procs, len(tasks))) as pool:
        res = pool.map(_replay_chunk, tasks)
    out = [[0, 0, []] for _ in jobs]
    for j, (n, steps, bad) in zip(owner, res):
        out[j][0] += n
        out[j][1] += steps
        out[j][2] += bad
    return [tuple(x) for x in out]


# ------------------------------------------------------------------ code->spec: schedule exploration on the real code
def _wrap_op(world, t, fn, api):
    """Record call/ret/exc events around the public call, in the thread's own context."""
    rec = world.rec
    if world.mode == 'sync':
        def run():
            rec.ev('call', api=api, decode=False)
            if world.line_yield:
                import sys as _sys
                _sys.settrace(world.line_tracer())
            try:
                v = fn()
            except sched.Abort:
                raise
            except Exception as e:  # noqa
                rec.ev('exc', api=api, cls=type(e).__name__)
                raise
            rec.ev('ret', api=api, _value=v)
            return v
        return run

    async def arun():
        rec.ev('call', api=api, decode=False)
        try:
            v = await fn()
        except sched.Abort:
            raise
        except Exception as e:  # noqa
            rec.ev('exc', api=api, cls=type(e).__name__)
            raise
        rec.ev('ret', api=api, _value=v)
        return v
    return arun


API_OF = {'shell': 'shell', 'stat': 'stat', 'list': 'list', 'push': 'push', 'reboot': 'reboot'}


def api_name(p):
    if p == ['shell']:
        return 'shell'
    if p == ['close']:
        return 'close'
    if p == REFUSED:
        return 'shell'
    if p == PULLFAIL:
        return 'pull'
    if p == []:
        return 'reboot'
    if p == LIST2:
        return 'list'
    if p in (PUSH2, PUSH2FAIL):
        return 'push'
    return 'stat'


async def run_schedule(mode, prog, replies, pick, ridbase=10, max_steps=4000, lid0=None, write_yield=False, line_yield=False, reps=None, write_fault=None, wcap=None):
    """One execution of the real code under a schedule chosen by pick(enabled) -> (trace, info)."""
    w = World(mode, prog, replies, ridbase, lid0=lid0)
    w.gate.write_yield = write_yield
    w.io_yield = write_yield
    if write_yield and mode == 'async' and hasattr(w.module, '_AsyncBytesIO'):
        # reading the local source is an await point of the async class whenever the source is a real file (aiofiles):
        # give the in-memory source the same suspension point during exploration
        orig_read = w.module._AsyncBytesIO.read

        async def read(self_, size=-1, _orig=orig_read):
            s_ = _holder['sched']
            if s_ is not None and s_.is_async and sched.current_name() in s_.th:
                await s_.aboundary('io', lambda: True)
            return await _orig(self_, size)
        w.module._AsyncBytesIO.read = read
        w._restore_read = orig_read
    w.line_yield = line_yield and mode == 'sync'
    w.op_plain = w.op
    w.op = lambda t: _wrap_op(w, t, w.op_plain(t), api_name(prog[t]))
    if reps:
        # a thread runs its operation several times in a row; a failed one does not stop it
        one = w.op

        def seq(t):
            n = reps.get(t, 1)
            if mode == 'sync':
                def run():
                    v = None
                    for _i in range(n):
                        try:
                            v = one(t)()
                        except sched.Abort:
                            raise
                        except Exception:  # noqa
                            pass
                    return v
                return run

            async def arun():
                v = None
                for _i in range(n):
                    try:
                        v = await one(t)()
                    except sched.Abort:
                        raise
                    except Exception:  # noqa
                        pass
                return v
            return arun
        w.op = seq
    if wcap:
        w.core.wcap = wcap          # the transport accepts only part of what it is offered
    if write_fault:
        w.gate.write_fault = write_fault
        w.gate.write_exc = w.core.exc_timeout
    await w.start()
    sched_log = []
    try:
        for _ in range(max_steps):
            en = []
            for t in w.threads:
                r = w.sched.th[t]
                if not r.done and r.runnable():
                    en.append(('t', t, 0))
            if w.core.h2d_q:
                en.append(('dev', 'recv', 0))
            for x in w.dev.ready():
                en.append(('dev', 'okay' if x[1] == 'ack' else 'data', x[0]))
            if not en:
                readers = [t for t in w.threads if not w.sched.th[t].done and w.sched.th[t].at == 'read']
                if not readers:
                    break
                # nothing can move and the device owes nothing: real time would now pass and the reader times out
                w.rec.ev('stuck', t=readers[0])
                w.core.force_timeout = True
                sched_log.append(('timeout', readers[0], 0))
                await w.sched.astep(readers[0])
                continue
            c = pick(en)
            sched_log.append(c)
            if c[0] == 't':
                await w.sched.astep(c[1])
            else:
                await w.apply(dict(who='dev', what=c[1], l=c[2]))
        stuck = [t for t in w.threads if not w.sched.th[t].done]
    finally:
        await w.stop()
        if getattr(w, '_restore_read', None) is not None:
            w.module._AsyncBytesIO.read = w._restore_read
    # finish the trace: name shell results as payload units, mark stuck operations
    lid_of = {}
    tr = []
    for e in w.rec.events:
        f = {k: v for k, v in e.items() if not k.startswith('_')}
        if e['ev'] == 'tx' and e['cmd'] == 'OPEN':
            lid_of[e['t']] = wire.unlimbs(e['a0'])        # the stream of the thread's operation in progress
        if e['ev'] == 'ret':
            t = e['t']
            f['mode'], f['syms'], f['avail'] = 'units', [], True
            if e['api'] == 'shell':
                pay = [payload_of(t, i) for i in replies[t][0]]
                from . import scen
                f['units'] = scen.shell_units(e['_value'], pay, lid_of.get(t, 0))
                # name payloads of other streams, should they appear
                if f['units'] and f['units'][-1] == [[0, 0], 0]:
                    for t2 in w.threads:
                        if t2 != t and prog[t2] == ['shell'] and any(payload_of(t2, i) in e['_value'] for i in replies[t2][0]):
                            f['units'][-1] = [wire.limbs(lid_of.get(t2, 0)), 1]
            else:
                f['units'] = []
        tr.append(f)
    for t in stuck:
        tr.append(dict(ev='stuck', t=t))
    pushed = {}
    for rec_ in w.dev.fs.pushed:
        pushed.setdefault(rec_.get('lid'), []).append((bytes(rec_['spec']), b''.join(rec_['chunks']), bool(rec_.get('failed'))))
    return tr, dict(stuck=stuck, schedule=sched_log, results={t: w.results.get(t) for t in w.threads}, lids=dict(lid_of), pushed=pushed)


def explore(mode, prog, replies, n, rng, ridbase=10, lid0=None, write_yield=False, line_yield=False, reps=None, write_fault=None, wcap=None):
    """n random schedules (uniform and sticky mixes)."""
    async def main():
        out = []
        for i in range(n):
            sticky = rng.choice([0.0, 0.5, 0.8, 0.95])
            last = [None]
            use_pct = rng.random() < 0.5
            actors = sorted(prog) + ['dev']
            prio = {a: p_ for p_, a in enumerate(rng.sample(actors, len(actors)))}
            change = set(rng.sample(range(1, 120), rng.randint(0, 3)))
            stepno = [0]

            def pick(en):
                stepno[0] += 1
                if use_pct:
                    # PCT-style: run the enabled actor of highest priority; at a few random points the running actor drops to the bottom
                    def actor(c):
                        return c[1] if c[0] == 't' else 'dev'
                    best = max(en, key=lambda c: (prio[actor(c)], rng.random()))
                    if stepno[0] in change:
                        prio[actor(best)] = min(prio.values()) - 1
                    return best
                if last[0] in en and rng.random() < sticky:
                    return last[0]
                c = en[rng.randrange(len(en))]
                last[0] = c
                return c
            out.append(await run_schedule(mode, prog, replies, pick, ridbase, lid0=lid0, write_yield=write_yield, line_yield=line_yield, reps=reps,
                                          write_fault=write_fault(rng) if callable(write_fault) else write_fault, wcap=wcap(rng) if wcap else None))
        return out
    loop = asyncio.new_event_loop()
    try:
        return loop.run_until_complete(main())
    finally:
        loop.close()


def replay_schedule(mode, prog, replies, schedule, ridbase=10, write_yield=False, line_yield=False):
    it = iter(schedule)

    def pick(en):
        c = tuple(next(it))
        if c not in en:
            raise sched.SchedError('replayed choice %r not enabled (%r)' % (c, en))
        return c
    loop = asyncio.new_event_loop()
    try:
        return loop.run_until_complete(run_schedule(mode, prog, replies, pick, ridbase, write_yield=write_yield, line_yield=line_yield))
    finally:
        loop.close()
