"""In-memory transports wired to the device simulator (sync and async twins)."""
import threading

from . import wire
from .simdev import Recorder, VClock


class SimTimeout(Exception):
    """The in-memory transport's timeout error (fallback when adb_shell is not importable yet)."""


_timeout_cls = []


def timeout_class():
    """The in-memory transport's timeout error: a subclass of the library's own TcpTimeoutException (what the real
    transports raise), still named SimTimeout, so that code which treats transport timeouts specially sees one."""
    if not _timeout_cls:
        try:
            from adb_shell.exceptions import TcpTimeoutException
            _timeout_cls.append(type('SimTimeout', (TcpTimeoutException, SimTimeout), {}))
        except Exception:  # noqa
            _timeout_cls.append(SimTimeout)
    return _timeout_cls[0]


class SimReset(ConnectionResetError):
    pass


class Fault(object):
    """Inject `kind` at transport call index k (0-based over connect/close/bulk_read/bulk_write)."""

    def __init__(self, at=None, kind='timeout', only=None):
        self.at = dict(at) if isinstance(at, dict) else ({at: kind} if at is not None else {})
        self.only = only
        self.fired = []


class PipeCore(object):
    def __init__(self, dev, rec=None, clock=None, frag=None, wcap=None, stall='raise', tick=0.0, default_timeout=10.0, fault=None,
                 log_io=False, exc_timeout=None, rtype=None, write_none=False, exclusive=False, boundary=None, defer_ref=False):
        self.dev = dev
        self.rec = rec or dev.rec
        self.clock = clock or VClock()
        self.frag = frag          # callable(n, avail) -> k in 1..min(n, avail)  (0 allowed: empty read)
        self.wcap = wcap          # callable(length) -> accepted in 1..length
        self.stall = stall        # 'raise' | 'empty' | callable(core, n, timeout) -> bytes or raises
        self.tick = tick
        self.default_timeout = default_timeout
        self.fault = fault or Fault()
        self.log_io = log_io
        self.rtype = rtype        # what bulk_read hands out: None (bytes) | 'bytearray' | 'array' (array('B'), as PyUSB does) | 'memoryview' (a view of a receive buffer that is reused by the next read)
        self._rbuf = None
        self.boundary = boundary       # 'usb': transfers keep their boundaries (header and payload are separate transfers); a read that asks for
                                       # less than the pending transfer holds overflows and loses it, a read never crosses into the next transfer
        self.cur_rest = b''
        self.defer_ref = defer_ref     # the transport queues the caller's OBJECT (no copy) and transmits it at its next call - what asyncio's socket transport does on Python >= 3.12
        self._deferred = None
        self.exclusive = exclusive     # like a claimed USB interface: connect() on a transport that was not closed fails with EBUSY
        self.write_none = write_none   # a sendall-style transport: bulk_write sends everything and returns None (the library still accepts that)
        self.exc_timeout = exc_timeout or timeout_class()
        self.cur = b''
        self.cur_meta = None
        self.cur_len = 0
        self.ncalls = 0
        self.calls = []           # (kind, detail) of every transport call
        self.hbuf = bytearray()
        self.hwho = set()
        self.hbuf_reported = False
        self.connected = False
        self.written = 0
        self.mangle = None        # callable(meta) -> bytes, applied when a frame is taken off the wire
        self.max_calls = None
        self.on_frame = None      # callable(meta, who) when the last byte of a device frame was consumed
        self.overreads = 0
        self.last_timeouts = []
        self.defer = False        # explicit device steps: complete host frames wait in h2d_q until dev_recv()
        self.h2d_q = []
        self.eof_mode = False
        self.force_timeout = False   # scheduler: let the parked reader time out now (virtual time passes)

    # ---- helpers
    def _call(self, kind, detail=None):
        k = self.ncalls
        self.ncalls += 1
        self.calls.append((kind, detail))
        if self.max_calls is not None and self.ncalls > self.max_calls:
            raise Watchdog('more than %d transport calls' % self.max_calls)
        self.clock.advance(self.tick)
        f = self.fault.at.get(k)
        if f is not None and (self.fault.only is None or kind in self.fault.only):
            self.fault.fired.append((k, kind, f))
            self.rec.ev('fault', k=k, call=kind, fault=f)
            if f == 'timeout':
                raise self.exc_timeout('injected timeout at call %d (%s)' % (k, kind))
            if f == 'reset':
                raise SimReset('injected reset at call %d (%s)' % (k, kind))
            if f == 'wstall':
                # the transport cannot make progress for now: the call ends when its timeout expires - with no timeout it never ends
                t_ = detail[1] if isinstance(detail, tuple) else detail
                if t_ is None:
                    raise Watchdog('a transport call without a timeout on a stalled transport (call %d, %s)' % (k, kind))
                self.clock.advance(max(t_, 0))
                raise self.exc_timeout('injected stall at call %d (%s): timed out after %s s' % (k, kind, t_))
            if f == 'blocking':
                import errno
                raise BlockingIOError(errno.EAGAIN, 'injected EAGAIN at call %d (%s): the transport would block' % (k, kind))
            if f == 'eintr':
                import errno
                raise InterruptedError(errno.EINTR, 'injected EINTR at call %d (%s): interrupted system call, nothing was transferred' % (k, kind))
            if f == 'epipe':
                import errno
                raise BrokenPipeError(errno.EPIPE, 'injected broken pipe at call %d (%s)' % (k, kind))     # what a socket raises once the peer has gone away
            if f == 'oserr':
                import errno
                raise OSError(errno.EIO, 'injected I/O error at call %d (%s)' % (k, kind))
            if f == 'usb':
                from adb_shell import exceptions as _e
                raise (_e.UsbReadFailedError('injected', None) if kind == 'bulk_read' else _e.UsbWriteFailedError('injected usb failure at call %d (%s)' % (k, kind)))
            if f == 'timeout_after' and kind == 'bulk_write':
                return 'raise_after'                # the bytes do reach the peer; the call still reports a timeout (the acknowledgement of the transfer got lost)
            if f == 'cancel':
                if kind == 'bulk_write':
                    return 'cancel_after'           # the bytes are handed over, the cancellation arrives while waiting for the drain
                import asyncio
                raise asyncio.CancelledError()      # the task running the operation is cancelled at this await point (async only)
            if f == 'eof':
                self.eof_mode = True           # end of stream: every read from now on is empty
                if kind == 'bulk_read':
                    return 'eof'
                raise SimReset('injected eof at call %d (%s)' % (k, kind))
        return None

    def connect(self, timeout):
        self._call('connect', timeout)
        if self.exclusive and self.connected:
            import errno
            raise OSError(errno.EBUSY, 'the transport is still open (it was never closed): resource busy')
        self.dev.on_connect()
        self.cur = b''
        self.cur_rest = b''
        self.cur_meta = None
        self.hbuf = bytearray()
        self.hwho = set()
        self.eof_mode = False
        self.connected = True
        self.rec.ev('conn', timeout=timeout)

    def close(self):
        self._call('close')
        self.dev.on_close()
        self.connected = False
        self.rec.ev('close')

    def have_bytes(self):
        return bool(self.cur) or bool(self.cur_rest) or bool(self.dev.wire) or (self.dev.lazy and bool(self.dev.ready()))

    def read(self, n, timeout):
        r = self._call('bulk_read', (n, timeout))
        self.last_timeouts.append(timeout)
        if r == 'eof' or self.eof_mode:
            self.clock.advance(self.default_timeout if timeout is None else max(timeout, 0.001))
            return b''
        if not self.connected:
            raise SimReset('not connected')
        if self.hbuf and not self.hbuf_reported:
            # the host turns to reading while a frame it started is still incomplete: header and payload are not back-to-back
            self.hbuf_reported = True
            self.rec.ev('tx_garbage', reason='incomplete', pending=len(self.hbuf))
        if not self.cur:
            if not self.dev.wire and self.dev.lazy:
                self.dev.pump()
            if not self.dev.wire:
                if self.force_timeout:
                    self.force_timeout = False
                    self.clock.advance(1000.0)
                    raise self.exc_timeout('read timed out (scheduler: nothing will ever arrive)')
                return self._stalled(n, timeout)
            m = self.dev.wire.pop(0)
            self.cur_meta = m
            self.cur = self.mangle(m) if self.mangle else m['bytes']
            self.cur_len = len(self.cur)
            if self.boundary == 'usb':
                self.cur, self.cur_rest = self.cur[:24], self.cur[24:]
        if self.boundary == 'usb':
            if n < len(self.cur):
                lost, self.cur = len(self.cur), b''
                if self.cur_rest:
                    self.cur, self.cur_rest = self.cur_rest, b''
                raise OSError('LIBUSB_ERROR_OVERFLOW: the device sent a transfer of %d bytes, the host asked for %d' % (lost, n))
            out = self.cur
            self.cur, self.cur_rest = self.cur_rest, b''
            if not self.cur:
                m = self.cur_meta
                self.rec.ev('rd', _payload=m.get('payload', b''), **m['pk'])
                if self.on_frame:
                    self.on_frame(m)
            return out
        avail = len(self.cur)
        over = max(0, n - avail)
        if over:
            self.overreads += 1
        k = min(n, avail)
        if self.frag:
            k = max(0, min(k, self.frag(n, avail)))
        out = self.cur[:k]
        self.cur = self.cur[k:]
        if self.log_io or over:
            self.rec.ev('br', n=n, k=k, over=over, left=avail, flen=self.cur_len, timeout_ms=-1 if timeout is None else int(round(timeout * 1000)))
        if not self.cur and k:
            m = self.cur_meta
            self.rec.ev('rd', _payload=m.get('payload', b''), **m['pk'])
            if self.on_frame:
                self.on_frame(m)
        return out

    def _stalled(self, n, timeout):
        if callable(self.stall):
            return self.stall(self, n, timeout)
        if self.stall == 'empty':
            self.clock.advance(self.default_timeout if timeout is None else max(timeout, 0))
            return b''
        self.clock.advance(self.default_timeout if timeout is None else max(timeout, 0))
        self.rec.ev('stall', n=n, timeout_ms=-1 if timeout is None else int(round(timeout * 1000)))
        raise self.exc_timeout('read timed out')

    def write(self, data, timeout):
        r = self._call('bulk_write', (len(data), timeout))
        if not self.connected:
            raise SimReset('not connected')
        data = bytes(data)
        acc = len(data)
        if self.wcap:
            acc = max(0, min(acc, self.wcap(len(data))))
        chunk = data[:acc]
        self.written += acc
        if self.log_io:
            self.rec.ev('bw', n=len(data), k=acc)
        self._host_bytes(chunk)
        if r == 'cancel_after':
            import asyncio
            raise asyncio.CancelledError()
        if r == 'raise_after':
            raise self.exc_timeout('the write timed out (injected after the bytes were handed over)')
        if self.write_none and acc == len(data):
            return None
        return acc

    def _host_bytes(self, chunk):
        """Frame the host's bytes independently of adb_shell and hand complete packets to the device."""
        who = self.rec.who()
        self.hbuf += chunk
        if chunk:
            self.hwho.add(who)
        while len(self.hbuf) >= 24:
            h = wire.parse_header(self.hbuf[:24])
            known = h['cmdw'] in wire.WORD_CMD
            if not known or h['magic'] != (h['cmdw'] ^ wire.M32) or h["len"] > 64 * 1024 * 1024:
                self.rec.ev('tx_garbage', reason='header', cmdw=wire.limbs(h['cmdw']), magic=wire.limbs(h['magic']))
                self.hbuf = bytearray()
                return
            if len(self.hbuf) < 24 + h['len']:
                return
            payload = bytes(self.hbuf[24:24 + h['len']])
            raw = bytes(self.hbuf[:24 + h['len']])
            del self.hbuf[:24 + h['len']]
            mixed = len(self.hwho) > 1
            self.hwho = {who} if self.hbuf else set()
            s = wire.bytesum(payload)
            ev = self.rec.ev('tx', cmd=wire.WORD_CMD[h['cmdw']], cmdw=wire.limbs(h['cmdw']), a0=wire.limbs(h['a0']), a1=wire.limbs(h['a1']),
                             len=h['len'], alen=len(payload), check=wire.limbs(h['check']), sum=wire.limbs(s & wire.M32),
                             magic=wire.limbs(h['magic']), mixed=mixed,
                             nul=(len(payload) > 0 and payload[-1] == 0 and (len(payload) < 2 or payload[-2] != 0)))
            ev['_payload'] = payload
            ev['_raw'] = raw
            if self.defer:
                self.h2d_q.append(dict(cmd=ev['cmd'], a0=h['a0'], a1=h['a1'], raw=raw, who=who))
            else:
                self.dev.cur_writer = who
                self.dev.feed(raw)


    def dev_recv(self):
        h = self.h2d_q.pop(0)
        self.dev.cur_writer = h['who']
        self.dev.feed(h['raw'])


def shape(core, b):
    """The bytes of one bulk_read in the container type the transport is configured to hand out."""
    t = core.rtype
    if not t or not isinstance(b, (bytes, bytearray)):
        return b
    if t == 'bytearray':
        return bytearray(b)
    if t == 'array':
        import array
        return array.array('B', bytes(b))
    if t == 'memoryview':
        if core._rbuf is None:
            core._rbuf = bytearray(1024 * 1024 + 64)
        if len(b) > len(core._rbuf):
            return bytes(b)
        core._rbuf[:len(b)] = b
        for i in range(len(b), min(len(b) + 32, len(core._rbuf))):
            core._rbuf[i] = 0xEE          # what lies behind the valid part is garbage
        return memoryview(core._rbuf)[:len(b)]
    raise ValueError(t)


def _flush(core):
    d, core._deferred = core._deferred, None
    if d is not None:
        core.write(bytes(d), None)            # whatever the object holds NOW is what goes out


class Watchdog(BaseException):
    """Raised when an operation exceeds its transport-call budget (a hang in virtual time)."""


def _bases():
    from adb_shell.transport.base_transport import BaseTransport
    from adb_shell.transport.base_transport_async import BaseTransportAsync
    return BaseTransport, BaseTransportAsync


def make_transport_classes():
    BaseTransport, BaseTransportAsync = _bases()

    class MemTransport(BaseTransport):
        def __init__(self, core, gate=None):
            self.core = core
            self.gate = gate

        def close(self):
            _flush(self.core)
            self.core.close()

        def connect(self, transport_timeout_s):
            self.core.connect(transport_timeout_s)

        def bulk_read(self, numbytes, transport_timeout_s):
            if self.gate:
                self.gate.before_read(self.core)
            _flush(self.core)
            return shape(self.core, self.core.read(numbytes, transport_timeout_s))

        def bulk_write(self, data, transport_timeout_s):
            if self.gate:
                self.gate.before_write(self.core)
            if self.core.defer_ref:
                d, self.core._deferred = self.core._deferred, data
                if d is not None:
                    self.core.write(bytes(d), transport_timeout_s)
                return len(data)
            return self.core.write(data, transport_timeout_s)

    class MemTransportAsync(BaseTransportAsync):
        def __init__(self, core, gate=None):
            self.core = core
            self.gate = gate

        async def close(self):
            _flush(self.core)
            self.core.close()

        async def connect(self, transport_timeout_s):
            self.core.connect(transport_timeout_s)

        async def bulk_read(self, numbytes, transport_timeout_s):
            if getattr(self.core, 'yield_io', False):
                import asyncio
                await asyncio.sleep(0)            # a real stream reader suspends here (before anything is consumed)
            if self.gate:
                await self.gate.before_read_async(self.core)
            _flush(self.core)
            return shape(self.core, self.core.read(numbytes, transport_timeout_s))

        async def bulk_write(self, data, transport_timeout_s):
            if getattr(self.core, 'yield_io', False):
                import asyncio
                await asyncio.sleep(0)
            if self.gate:
                await self.gate.before_write_async(self.core)
            if self.core.defer_ref:
                d, self.core._deferred = self.core._deferred, data
                if d is not None:
                    self.core.write(bytes(d), transport_timeout_s)
                return len(data)
            return self.core.write(data, transport_timeout_s)

    return MemTransport, MemTransportAsync
