"""Deterministic schedulers: real threads gated by semaphores, and the asyncio twin (tasks parked on futures).

Exactly one logical thread runs at a time; it runs until its next *boundary* (a lock acquisition that
the model treats as the start of a critical section, or the first bulk_read of a frame) and parks there.
The controller decides who moves next (replaying a TLC behaviour, enumerating, or at random).
"""
import asyncio
import contextvars
import threading


class Abort(BaseException):
    """Unwinds a parked thread/task at the end of a path."""


CUR = contextvars.ContextVar('verif_cur', default=None)


def current_name():
    n = CUR.get()
    if n is not None:
        return n
    return getattr(threading.current_thread(), 'vname', 'main')


class _Rec(object):
    def __init__(self):
        self.done = False
        self.at = 'start'
        self.res = None
        self.runnable = lambda: True
        self.sem = None
        self.fut = None
        self.thread = None
        self.task = None


class ThreadSched(object):
    is_async = False

    def __init__(self, raw=False):
        self.th = {}
        self.ctl = threading.Semaphore(0)
        self.abort = False
        self.raw = raw        # start the threads with _thread.start_new_thread: the `threading` module does not know them (they are not
                              # counted by threading.active_count(), as threads created by C extensions or GUI toolkits are not)

    def spawn(self, name, fn):
        rec = _Rec()
        rec.sem = threading.Semaphore(0)
        self.th[name] = rec

        def body():
            if self.raw:
                CUR.set(name)           # never threading.current_thread() here: it would register a dummy thread object
            else:
                threading.current_thread().vname = name
            rec.sem.acquire()
            try:
                if not self.abort:
                    rec.res = ('ret', fn())
            except Abort:
                pass
            except BaseException as e:  # noqa
                rec.res = ('exc', e)
            rec.done = True
            rec.at = 'done'
            self.ctl.release()
        if self.raw:
            import _thread
            _thread.start_new_thread(body, ())
        else:
            rec.thread = threading.Thread(target=body, daemon=True)
            rec.thread.start()

    def boundary(self, label, runnable):
        name = current_name()
        if name is None or name not in self.th:
            return
        if self.abort:
            raise Abort()
        rec = self.th[name]
        rec.at = label
        rec.runnable = runnable
        self.ctl.release()
        rec.sem.acquire()
        if self.abort:
            raise Abort()

    def step(self, name):
        rec = self.th[name]
        if rec.done or not rec.runnable():
            raise SchedError('%s is not runnable at %s' % (name, rec.at))
        rec.sem.release()
        self.ctl.acquire()

    def kill(self):
        self.abort = True
        for r in self.th.values():
            if not r.done:
                r.sem.release()
                self.ctl.acquire()
        for r in self.th.values():
            if r.thread is not None:
                r.thread.join()

    # uniform async facade so that one driver serves both worlds
    async def aspawn(self, name, fn):
        self.spawn(name, fn)

    async def astep(self, name):
        self.step(name)

    async def akill(self):
        self.kill()


class TaskSched(object):
    is_async = True

    def __init__(self):
        self.th = {}
        self.abort = False
        self.parked = asyncio.Event()

    async def aspawn(self, name, coro_fn):
        rec = _Rec()
        self.th[name] = rec
        rec.fut = asyncio.get_running_loop().create_future()

        async def body():
            CUR.set(name)
            try:
                await self.aboundary('start', lambda: True)
                rec.res = ('ret', await coro_fn())
            except Abort:
                pass
            except BaseException as e:  # noqa
                rec.res = ('exc', e)
            rec.done = True
            rec.at = 'done'
            self.parked.set()
        self.parked.clear()
        rec.task = asyncio.ensure_future(body())
        await self.parked.wait()       # parked at 'start'

    async def aboundary(self, label, runnable):
        name = CUR.get()
        if name is None or name not in self.th:
            return
        if self.abort:
            raise Abort()
        rec = self.th[name]
        rec.at = label
        rec.runnable = runnable
        rec.fut = asyncio.get_running_loop().create_future()
        self.parked.set()
        await rec.fut
        if self.abort:
            raise Abort()

    async def astep(self, name):
        rec = self.th[name]
        if rec.done or not rec.runnable():
            raise SchedError('%s is not runnable at %s' % (name, rec.at))
        self.parked.clear()
        rec.fut.set_result(None)
        await self.parked.wait()

    async def akill(self):
        self.abort = True
        for r in self.th.values():
            if not r.done:
                self.parked.clear()
                r.fut.set_result(None)
                await self.parked.wait()


class SchedError(Exception):
    pass


class Locks(object):
    """The three lock objects of one device object, told apart by attribute identity."""

    def __init__(self):
        self.by_name = {}


def make_lock_classes(get_sched, locks):
    """Lock factories substituted for the `Lock` name of adb_shell.adb_device[_async]."""

    def is_boundary(lock, me):
        if lock.name in ('id', 't'):
            return True
        if lock.name == 's':
            t = locks.by_name.get('t')
            return t is None or t.holder != me
        return False

    class SLock(object):
        def __init__(self):
            self.holder = None
            self.name = '?'
            self.leaks = 0

        def acquire(self, *a, **k):
            me = current_name()
            s = get_sched()
            if s is not None and me in s.th and (is_boundary(self, me) or self.holder is not None):
                s.boundary('acq_' + self.name, lambda: self.holder is None)     # park (also when contended at a non-boundary acquire)
            if self.holder is not None:
                raise LockHeld('%s lock acquired by %s while held by %s' % (self.name, me, self.holder))
            self.holder = me
            return True

        def release(self):
            self.holder = None

        def locked(self):
            return self.holder is not None

        def __enter__(self):
            self.acquire()

        def __exit__(self, *a):
            self.release()

    class ALock(object):
        def __init__(self):
            self.holder = None
            self.name = '?'

        async def acquire(self):
            me = current_name()
            s = get_sched()
            if s is not None and me in s.th and (is_boundary(self, me) or self.holder is not None):
                await s.aboundary('acq_' + self.name, lambda: self.holder is None)
            if self.holder is not None:
                raise LockHeld('%s lock acquired by %s while held by %s' % (self.name, me, self.holder))
            self.holder = me
            return True

        def release(self):
            self.holder = None

        def locked(self):
            return self.holder is not None

        async def __aenter__(self):
            await self.acquire()

        async def __aexit__(self, *a):
            self.release()

    return SLock, ALock


class LockHeld(Exception):
    """A lock was requested while held and nobody can ever release it (outside a schedule) - a leaked lock."""


class Gate(object):
    """Transport yield point: the first bulk_read of a frame is a boundary ('read')."""

    def __init__(self, get_sched):
        self.get_sched = get_sched
        self.write_yield = False      # exploration only: every bulk_write is a preemption point too
        self.write_fault = None       # exploration only: (thread, n) - the n-th bulk_write of that thread raises exc (nothing was sent)
        self.write_exc = None
        self.nwrites = {}

    def _fault(self):
        if self.write_fault is not None:
            name = current_name()
            self.nwrites[name] = self.nwrites.get(name, 0) + 1
            if (name, self.nwrites[name]) == tuple(self.write_fault):
                raise self.write_exc('sending timed out, no data was sent (injected)')

    def _need(self, core):
        return not core.cur

    def before_read(self, core):
        s = self.get_sched()
        if s is not None and self._need(core) and current_name() in s.th:
            s.boundary('read', lambda: bool(core.dev.wire) or core.force_timeout)

    def before_write(self, core):
        s = self.get_sched()
        if self.write_yield and s is not None and current_name() in s.th:
            s.boundary('write', lambda: True)
        if s is not None and current_name() in s.th:
            self._fault()

    async def before_read_async(self, core):
        s = self.get_sched()
        if s is not None and self._need(core) and current_name() in s.th:
            await s.aboundary('read', lambda: bool(core.dev.wire) or core.force_timeout)

    async def before_write_async(self, core):
        s = self.get_sched()
        if self.write_yield and s is not None and current_name() in s.th:
            await s.aboundary('write', lambda: True)
        if s is not None and current_name() in s.th:
            self._fault()
