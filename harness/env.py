"""Binding to the implementation under test: import adb_shell from the chosen checkout, substitute the
virtual clock, build sync/async device objects on the in-memory transport and run API calls uniformly."""
import asyncio
import logging
import os
import sys

logging.getLogger('asyncio').setLevel(logging.CRITICAL)     # generators that a scenario deliberately leaves half-consumed are reported by asyncio when their loop is closed

REPO = os.environ.get('VERIF_REPO', '/repo')
_mods = {}


def setup_repo(repo=None):
    global REPO
    if repo:
        REPO = repo
    if 'adb_shell' in sys.modules:
        m = sys.modules['adb_shell']
        assert os.path.realpath(m.__file__).startswith(os.path.realpath(REPO)), (m.__file__, REPO)
        return
    sys.path.insert(0, REPO)
    os.environ.setdefault('ADB_SHELL_VERIF', '1')
    import adb_shell  # noqa
    assert os.path.realpath(adb_shell.__file__).startswith(os.path.realpath(REPO)), (adb_shell.__file__, REPO)


def mods():
    if not _mods:
        setup_repo()
        from adb_shell import adb_device, adb_device_async, exceptions, constants, hidden_helpers, adb_message
        _mods.update(sync=adb_device, asyn=adb_device_async, exc=exceptions, const=constants, hh=hidden_helpers, msg=adb_message)
    return _mods


def bind_time(t, primary=None):
    """Bind the name `time` in every module of adb_shell that has it (the two device modules always; any other module in which a
    change starts to look at the clock, e.g. the helpers) to t: the virtual clock of a session, or the real time module."""
    import time as _real
    if primary is not None:
        primary.time = t
    for name, mod in list(sys.modules.items()):
        if name.startswith('adb_shell') and mod is not None:
            cur = getattr(mod, 'time', None)
            if cur is _real or isinstance(cur, VClock):
                mod.time = t


from .simdev import SimDevice, Recorder, VClock  # noqa: E402
from . import transports  # noqa: E402

_tcls = []


def tclasses():
    if not _tcls:
        mods()
        _tcls.extend(transports.make_transport_classes())
    return _tcls


class Outcome(object):
    def __init__(self, kind, value=None, exc=None):
        self.kind = kind      # 'ret' | 'exc'
        self.value = value
        self.exc = exc

    @property
    def exc_name(self):
        return type(self.exc).__name__ if self.exc is not None else None

    def key(self):
        if self.kind == 'ret':
            return ('ret', _plain(self.value))
        return ('exc', type(self.exc).__name__)

    def __repr__(self):
        return 'Outcome(%s, %.200r)' % (self.kind, self.value if self.kind == 'ret' else self.exc)


def _plain(v):
    if isinstance(v, (list, tuple)):
        return tuple(_plain(x) for x in v)
    if isinstance(v, bytearray):
        return bytes(v)
    return v


class HarnessDrift(Exception):
    """The library's private layout is not the one the harness knows how to instrument (a private attribute was renamed or replaced):
    what depends on it cannot be run.  Reported as DESIGN-DRIFT (a notice), never as a violation or a failure of the check."""


def _is_lock(v):
    return hasattr(v, 'acquire') and hasattr(v, 'release')


def _pick_lock(obj, preferred, keywords, what):
    if hasattr(obj, preferred):
        return preferred
    cands = [k for k, v in vars(obj).items() if _is_lock(v)]
    named = [k for k in cands if any(w in k.lower() for w in keywords)]
    if len(named) == 1:
        return named[0]
    if len(cands) == 1 and not named:
        return cands[0]
    raise HarnessDrift('cannot tell which attribute of %s is the %s lock (candidates: %s)' % (type(obj).__name__, what, cands))


def lock_names(device):
    """Names of the three locks: (id lock on the device, transport lock and store lock on the I/O manager).  The documented names first;
    after a rename, the attributes that hold lock objects, told apart by what their names say."""
    io = device._io_manager
    return (_pick_lock(device, '_local_id_lock', ('id',), 'stream id'), _pick_lock(io, '_transport_lock', ('transport', 'wire', 'io'), 'transport'),
            _pick_lock(io, '_store_lock', ('store', 'packet', 'queue'), 'packet store'))


def locks_of(device):
    i, t, s_ = lock_names(device)
    return getattr(device, i), getattr(device._io_manager, t), getattr(device._io_manager, s_)


def set_locks(device, factory):
    i, t, s_ = lock_names(device)
    setattr(device, i, factory())
    setattr(device._io_manager, t, factory())
    setattr(device._io_manager, s_, factory())


def set_available(device, value=True):
    """Mark a device object as connected without a handshake (the flag behind the `available` property)."""
    if hasattr(device, '_available'):
        device._available = value
        return
    cands = [k for k, v in vars(device).items() if isinstance(v, bool) and 'avail' in k.lower()]
    if len(cands) != 1:
        raise HarnessDrift('cannot tell which attribute of %s backs `available` (candidates: %s)' % (type(device).__name__, cands))
    setattr(device, cands[0], value)


def queue_items(q, _depth=0):
    """The (cmd, data) pairs a per-stream queue of the packet store holds, oldest first, whatever container the store keeps them in:
    asyncio.Queue / queue.Queue (a deque in `_queue`), a deque or list, or a private wrapper object around one of those."""
    inner = getattr(q, '_queue', None)
    if inner is not None:
        q = inner
    try:
        return [(x[0], x[1]) for x in list(q)]
    except TypeError:
        pass
    if _depth < 2:
        names = list(getattr(q, '__slots__', ())) + list(getattr(q, '__dict__', {}))
        for nm in names:
            try:
                return queue_items(getattr(q, nm), _depth + 1)
            except (HarnessDrift, AttributeError, IndexError, TypeError):
                continue
    raise HarnessDrift('cannot read the packets held by a %s of the packet store' % type(q).__name__)


class LockLeak(Exception):
    """A lock was requested while still held by an earlier call of this single-threaded session: it was leaked."""


LOCK_LEAKS = []       # every LockLeak raised (some are raised where nobody can see the exception, e.g. inside the finalisation of a generator)


def _detector_locks():
    class DLock(object):
        def __init__(self):
            self._held = False

        def acquire(self, *a, **k):
            if self._held:
                import traceback
                LOCK_LEAKS.append(''.join(traceback.format_stack(limit=6))[-600:])
                raise LockLeak('lock acquired while still held (leaked by an earlier call)')
            self._held = True
            return True

        def release(self):
            self._held = False

        def locked(self):
            return self._held

        def __enter__(self):
            self.acquire()

        def __exit__(self, *a):
            self.release()

    class ADLock(DLock):
        async def acquire(self, *a, **k):
            return DLock.acquire(self)

        async def __aenter__(self):
            DLock.acquire(self)

        async def __aexit__(self, *a):
            self.release()
    return DLock, ADLock


def _vtcp(mode, core):
    from . import vtcp
    return vtcp.bind(mode, core)     # the library's own TCP transport classes on a virtual network


def user_subclass(base, mode, kind):
    """A user's subclass of the public device class that overrides one PUBLIC method for purposes of its own.  The other public methods
    are documented on their own terms: what they do must not start to depend on the override.
      'rechunk'  streaming_shell() yields whole lines, as its docstring promises a caller might want (the raw chunks are re-cut)
      'goodbye'  close() first tells the device good-bye with a command while the connection is up"""
    if not kind:
        return base
    if kind == 'rechunk':
        if mode == 'sync':
            class Sub(base):
                def streaming_shell(self, *a, **k):
                    for chunk in base.streaming_shell(self, *a, **k):
                        for line in chunk.splitlines():
                            yield line
        else:
            class Sub(base):
                async def streaming_shell(self, *a, **k):
                    async for chunk in base.streaming_shell(self, *a, **k):
                        for line in chunk.splitlines():
                            yield line
        return Sub
    if kind == 'goodbye':
        if mode == 'sync':
            class Sub(base):
                def close(self):
                    if self.available:
                        self.shell('echo bye', read_timeout_s=1.0)
                    return base.close(self)
        else:
            class Sub(base):
                async def close(self):
                    if self.available:
                        await self.shell('echo bye', read_timeout_s=1.0)
                    return await base.close(self)
        return Sub
    raise ValueError(kind)


class Session(object):
    """One device object (sync or async) on an in-memory transport wired to a SimDevice."""

    def __init__(self, mode='sync', dev=None, clock=None, default_transport_timeout_s=None, banner=b'verif', gate=None, net='mem', subclass=None, **core_kw):
        m = mods()
        self.mode = mode
        self.dev = dev or SimDevice()
        self.rec = self.dev.rec
        self.clock = clock or VClock()
        self.core = transports.PipeCore(self.dev, rec=self.rec, clock=self.clock, **core_kw)
        MemT, MemTA = tclasses()
        DL, ADL = _detector_locks()
        if mode == 'sync':
            self.module = m['sync']
            self.module.Lock = DL          # single-threaded sessions: a leaked lock raises instead of blocking forever
            bind_time(self.clock, self.module)
            self.transport = MemT(self.core, gate) if net == 'mem' else _vtcp(mode, self.core)
            self.device = user_subclass(self.module.AdbDevice, mode, subclass)(self.transport, default_transport_timeout_s=default_transport_timeout_s, banner=banner)
            self.loop = None
        else:
            self.module = m['asyn']
            self.module.Lock = ADL
            bind_time(self.clock, self.module)
            self.transport = MemTA(self.core, gate) if net == 'mem' else _vtcp(mode, self.core)
            self.device = user_subclass(self.module.AdbDeviceAsync, mode, subclass)(self.transport, default_transport_timeout_s=default_transport_timeout_s, banner=banner)
            self.loop = asyncio.new_event_loop()

    def close_loop(self):
        if self.loop is not None:
            try:
                self.loop.run_until_complete(self.loop.shutdown_asyncgens())
            except Exception:  # noqa
                pass
            self.loop.close()
            self.loop = None

    def rebind_clock(self):
        bind_time(self.clock, self.module)

    loop_per_call = False       # async: every public call runs in an event loop of its own, as with one asyncio.run() per call

    def raw(self, api, *a, **kw):
        """Run the API to completion and return its value (generators are drained into lists)."""
        self.rebind_clock()
        if self.loop_per_call and self.loop is not None:
            self.close_loop()
            self.loop = asyncio.new_event_loop()
        f = getattr(self.device, api)
        if self.mode == 'sync':
            r = f(*a, **kw)
            if api == 'streaming_shell':
                r = list(r)
            return r
        if api == 'streaming_shell':
            async def drain():
                out = []
                async for x in f(*a, **kw):
                    out.append(x)
                return out
            return self.loop.run_until_complete(drain())
        return self.loop.run_until_complete(f(*a, **kw))

    def call(self, api, *a, **kw):
        info = kw.pop('_info', None)
        self.rec.ev('call', api=api, info=info if info is not None else {}, clk=int(self.clock.time()))
        try:
            v = self.raw(api, *a, **kw)
        except transports.Watchdog as e:
            self.rec.ev('exc', api=api, cls='Watchdog')
            return Outcome('exc', exc=e)
        except BaseException as e:  # noqa
            if isinstance(e, (KeyboardInterrupt, SystemExit, GeneratorExit)) or type(e).__name__ == 'Abort':
                raise
            self.rec.ev('exc', api=api, cls=type(e).__name__, avail=bool(self.device.available), clk=int(self.clock.time()))
            return Outcome('exc', exc=e)
        self.rec.ev('ret', api=api, avail=bool(self.device.available), clk=int(self.clock.time()))
        return Outcome('ret', value=v)
