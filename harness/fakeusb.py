"""A fake `usb1` (libusb1) module that behaves per libusb1's documentation, wired to a byte source/sink.
Installed into sys.modules before adb_shell is imported (each check runs in its own process)."""
import sys
import types

IN_EP, OUT_EP, IFACE = 0x83, 0x02, 5


class USBError(Exception):
    pass


class USBErrorTimeout(USBError):
    pass


class USBErrorNotFound(USBError):
    pass


class USBErrorIO(USBError):
    pass


class USBErrorNoDevice(USBError):
    pass


class USBErrorPipe(USBError):
    pass


ERRORS = {'timeout': USBErrorTimeout, 'io': USBErrorIO, 'nodevice': USBErrorNoDevice, 'pipe': USBErrorPipe}


class Backend(object):
    """Shared state of the fake bus: what the device has to say, what the host wrote, the call log, injected errors."""

    def __init__(self):
        self.reset()

    def reset(self):
        self.log = []
        self.inbuf = bytearray()       # bytes the device has sent and the host has not read yet
        self.out = bytearray()
        self.errors = {}               # backend call index -> error kind
        self.ncalls = 0
        self.short_write = None        # callable(n) -> accepted
        self.short_read = None         # callable(n, avail) -> k
        self.on_write = None           # callable(bytes): the device consumes host bytes
        self.on_need = None            # callable(): let the device produce more inbuf
        self.kernel_active = True
        self.gone = False              # the device was unplugged: descriptor reads fail too
        self.partial_timeout = False   # the next bulkRead times out after part of the data arrived: USBErrorTimeout with the bytes in .received
        self.fired = []                # backend call indices at which an injected error was raised
        self.release_error = None      # error kind the next releaseInterface() raises (a device that went away before close())
        self.layout = None
        self.ndevices = 1              # how many ADB devices hang on the bus (ports [2, 3], [2, 4], ...); they all report the same serial number


BACKEND = Backend()


class Endpoint(object):
    def __init__(self, addr):
        self.addr = addr

    def getAddress(self):
        return self.addr

    def getMaxPacketSize(self):
        return 512


class Setting(object):
    def getClass(self):
        return 0xFF

    def getSubClass(self):
        return 0x42

    def getProtocol(self):
        return 0x01

    def getNumber(self):
        return IFACE

    def iterEndpoints(self):
        return iter([Endpoint(IN_EP), Endpoint(OUT_EP)])


class Handle(object):
    def __init__(self):
        self.closed = False

    def _call(self, name, **kw):
        b = BACKEND
        k = b.ncalls
        b.ncalls += 1
        b.log.append(dict(name=name, k=k, **kw))
        if self.closed and name in ('bulkRead', 'bulkWrite'):
            raise USBErrorNoDevice('handle closed')
        if b.release_error and name == 'releaseInterface':
            e, b.release_error = b.release_error, None
            b.fired.append(k)
            raise ERRORS[e]('injected %s at releaseInterface (backend call %d)' % (e, k))
        e = b.errors.get(k)
        if e and name in ('bulkRead', 'bulkWrite'):
            if e == 'nodevice':
                b.gone = True
            b.fired.append(k)
            raise ERRORS[e]('injected %s at backend call %d' % (e, k))

    def kernelDriverActive(self, iface):
        self._call('kernelDriverActive', iface=iface)
        return BACKEND.kernel_active

    def detachKernelDriver(self, iface):
        self._call('detachKernelDriver', iface=iface)

    def claimInterface(self, iface):
        self._call('claimInterface', iface=iface)

    def releaseInterface(self, iface):
        self._call('releaseInterface', iface=iface)

    def close(self):
        self._call('close')
        self.closed = True

    def bulkRead(self, endpoint, length, timeout=0):
        self._call('bulkRead', ep=endpoint, length=length, timeout=timeout)
        b = BACKEND
        if not b.inbuf and b.on_need:
            b.on_need()
        if not b.inbuf:
            raise USBErrorTimeout('no data')
        if b.partial_timeout:
            b.partial_timeout = False
            k = max(1, min(length, len(b.inbuf)) - 1)
            e = USBErrorTimeout('timed out after %d bytes' % k)
            e.received = bytearray(b.inbuf[:k])           # python-libusb1 hands over what did arrive
            del b.inbuf[:k]
            b.fired.append(-1)                           # the backend did report something: the error the transport raises has a cause
            raise e
        k = min(length, len(b.inbuf))
        if b.short_read:
            k = max(1, min(k, b.short_read(length, len(b.inbuf))))
        out = bytes(b.inbuf[:k])
        del b.inbuf[:k]
        return bytearray(out)

    def bulkWrite(self, endpoint, data, timeout=0):
        self._call('bulkWrite', ep=endpoint, length=len(data), timeout=timeout, data=bytes(data))
        b = BACKEND
        acc = len(data)
        if b.short_write:
            acc = max(1, min(acc, b.short_write(len(data))))
        b.out += bytes(data)[:acc]
        if b.on_write:
            b.on_write(bytes(data)[:acc])
        return acc


class Device(object):
    def __init__(self, port=3, bus=1, chain=None):
        self.port, self.bus, self.chain = port, bus, chain

    def iterSettings(self):
        return iter([Setting()])

    def open(self):
        BACKEND.log.append(dict(name='open', k=-1))
        return Handle()

    def getBusNumber(self):
        return self.bus

    def getPortNumberList(self):
        return list(self.chain) if self.chain is not None else [2, self.port]

    def getSerialNumber(self):
        if BACKEND.gone:
            raise USBErrorNoDevice('device is gone')
        return 'FAKESERIAL'


class USBContext(object):
    def open(self):
        return self

    def getDeviceIterator(self, skip_on_error=False):
        if BACKEND.layout:            # [(bus, [port chain]), ...]: e.g. the same port chain behind two host controllers
            return iter([Device(bus=b_, chain=c_) for b_, c_ in BACKEND.layout])
        return iter([Device(3 + i) for i in range(BACKEND.ndevices)])


def install():
    m = types.ModuleType('usb1')
    for k, v in dict(USBError=USBError, USBErrorTimeout=USBErrorTimeout, USBErrorNotFound=USBErrorNotFound, USBErrorIO=USBErrorIO, USBErrorNoDevice=USBErrorNoDevice,
                     USBErrorPipe=USBErrorPipe, USBContext=USBContext, CLASS_VENDOR_SPEC=0xFF, ENDPOINT_DIR_MASK=0x80, USB_ENDPOINT_DIR_MASK=0x80).items():
        setattr(m, k, v)
    sys.modules['usb1'] = m
    return m
