"""Run in a child interpreter started with -O / -OO (assert statements and docstrings are compiled away): what the library does must not
depend on the interpreter's optimisation level.  Prints one JSON object: the outcomes, the pulled / pushed contents and the TraceSync
traces of a small session (shell, stat, list, pull to memory and to a path with and without a callback, push)."""
import json
import sys


def main():
    repo = sys.argv[1]
    from . import env, scen
    env.setup_repo(repo)
    out = dict(optimize=sys.flags.optimize, runs=[])
    for mode in ('sync', 'async'):
        spec = dict(seed=7, maxdata=4096, rid='plus', frag='random', ambient=False,
                    ops=[dict(api='shell', decode=True, cmd='id', chunks=[b'uid=0 \xe2\x82'.hex(), b'\xac\n'.hex()]),
                         dict(api='stat', path='/s', st=[33188, 1234, 99]),
                         dict(api='list', path='/d', entries=[[b'a'.hex(), 1, 2, 3], [b'bb'.hex(), 4, 5, 6]]),
                         dict(api='pull', path='/p1', size=9000, data_sizes=[4000, 4000, 1000], dest='bytesio'),
                         dict(api='pull', path='/p2', size=70000, dest='path', cb='ok'),
                         dict(api='pull', path='/p3', size=0, dest='path'),
                         dict(api='push', path='/q', size=9000, src='bytesio', mtime=7, cb='ok'),
                         dict(api='push', path='/q2', size=5000, src='path', mtime=0)])
        rr = scen.run(spec, mode)
        outs = [(o.kind, o.exc_name if o.kind == 'exc' else repr(o.value)[:200]) for o in rr.outcomes]
        pulled = {str(i): (v.hex() if v is not None else None) for i, v in rr.extra.get('pulled', {}).items()}
        pushed = {p: bytes(f['data']).hex() for p, f in rr.dev.fs.files.items() if p in ('/q', '/q2')}
        traces = [dict(op=spec['ops'][i]['api'], trace=t) for i, t in scen.sync_traces(rr, spec)]
        out['runs'].append(dict(mode=mode, outcomes=outs, pulled=pulled, pushed=pushed, traces=traces))
    print('PROBE ' + json.dumps(out))


if __name__ == '__main__':
    main()
