"""./check --setup : verify the tool chain offline, syntax-check every TLA+ module, warm the spec-only caches."""
import glob
import os
import subprocess
import sys

from . import tlc


def main():
    rc = 0
    for tool in ('tlc', 'tla-sany', 'java'):
        if subprocess.run(['which', tool], stdout=subprocess.DEVNULL).returncode != 0:
            print('missing tool', tool)
            rc = 2
    mods = sorted(glob.glob(os.path.join(tlc.TLA, '*.tla')))
    bad = []
    from concurrent.futures import ThreadPoolExecutor
    with ThreadPoolExecutor(8) as ex:
        for path, (ok, out) in zip(mods, ex.map(tlc.sany, mods)):
            if not ok:
                bad.append(path)
                print('SANY FAILED', path)
                print(out[-2000:])
    print('sany: %d modules, %d failed' % (len(mods), len(bad)))
    try:
        sys.path.insert(0, os.environ.get('VERIF_REPO', '/repo'))
        import adb_shell  # noqa
        import hypothesis  # noqa
        import aiofiles  # noqa
    except Exception as e:  # noqa
        print('python environment problem:', e)
        rc = 2
    if '--no-cache' not in sys.argv:
        from . import warm
        warm.main()
    sys.exit(2 if bad else rc)


if __name__ == '__main__':
    main()
