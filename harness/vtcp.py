"""The library's own TcpTransport / TcpTransportAsync on a virtual network.

The classes under test are the real ones; what is substituted is what they stand on: the names `socket` and
`select` (sync) resp. `asyncio.open_connection` and `async_timeout` (async) of their modules are bound to fakes
that are wired to a PipeCore (device simulator, virtual clock, stall kinds, fault injection).  This puts the
transports' own waiting logic - one select/recv per bulk_read, the timeout handed to select / async_timeout -
under the same virtual time as the device object's deadline checks.
"""
import asyncio
import socket as real_socket
import types

from . import transports


class FakeSock(object):
    def __init__(self, core):
        self.core = core
        self.pending = b''
        self.eof = False
        self.closed = False

    def setblocking(self, flag):
        pass

    def settimeout(self, t):
        pass

    def shutdown(self, how):
        pass

    def close(self):
        if not self.closed:
            self.closed = True
            self.core.close()

    def fileno(self):
        return -1

    # what select() does for this socket
    def wait_readable(self, timeout):
        if self.pending or self.eof:
            return True
        try:
            b = self.core.read(1 << 20, timeout)
        except transports.SimTimeout:
            return False
        if b:
            self.pending = bytes(b)
        else:
            self.eof = True
        return True

    def recv(self, n):
        if not self.pending and not self.eof:
            raise BlockingIOError('recv on a non-blocking socket with nothing to read')
        if self.eof and not self.pending:
            self.eof = False
            return b''
        out, self.pending = self.pending[:n], self.pending[n:]
        return out

    def send(self, data):
        return self.core.write(bytes(data), self.last_wait)

    def sendall(self, data):
        data = bytes(data)
        while data:
            k = self.send(data)
            data = data[k:]

    last_wait = None


def bind_sync(core):
    """Return a TcpTransport whose module-level `socket` and `select` are the virtual ones."""
    from adb_shell.transport import tcp_transport as mod

    def create_connection(addr, timeout=None):
        core.connect(timeout)
        return FakeSock(core)

    def select(r, w, x, timeout=None):
        rr = [s for s in r if s.wait_readable(timeout)]
        for s in w:
            s.last_wait = timeout
        return rr, list(w), []
    mod.socket = types.SimpleNamespace(create_connection=create_connection, SHUT_RDWR=real_socket.SHUT_RDWR, error=OSError, timeout=real_socket.timeout)
    mod.select = types.SimpleNamespace(select=select)
    return mod.TcpTransport('virtual', 5555)


class _Timeout(object):
    """Stands in for async_timeout.timeout(t): remembers t for the fake streams, which raise asyncio.TimeoutError themselves."""
    current = None

    def __init__(self, t):
        self.t = t

    async def __aenter__(self):
        _Timeout.current = self.t
        return self

    async def __aexit__(self, *a):
        _Timeout.current = None
        return False


class FakeReader(object):
    def __init__(self, core):
        self.core = core

    async def read(self, n):
        try:
            return bytes(self.core.read(n, _Timeout.current))
        except transports.SimTimeout:
            raise asyncio.TimeoutError()


class FakeWriter(object):
    def __init__(self, core):
        self.core = core
        self.buf = b''
        self.closed = False

    def write(self, data):
        self.buf += bytes(data)

    async def drain(self):
        buf, self.buf = self.buf, b''
        while buf:
            try:
                k = self.core.write(buf, _Timeout.current)
            except transports.SimTimeout:
                raise asyncio.TimeoutError()
            buf = buf[k:]

    def close(self):
        if not self.closed:
            self.closed = True
            self.core.close()

    async def wait_closed(self):
        pass


class _AsyncioShim(object):
    def __init__(self, core):
        self._core = core

    async def open_connection(self, host, port, **kw):
        self._core.connect(_Timeout.current)
        return FakeReader(self._core), FakeWriter(self._core)

    def __getattr__(self, name):
        return getattr(asyncio, name)


def bind_async(core):
    from adb_shell.transport import tcp_transport_async as mod
    mod.asyncio = _AsyncioShim(core)
    mod.async_timeout = types.SimpleNamespace(timeout=_Timeout)
    return mod.TcpTransportAsync('virtual', 5555)


def bind(mode, core):
    assert isinstance(core, transports.PipeCore)
    return bind_sync(core) if mode == 'sync' else bind_async(core)
