---------------------------- MODULE TraceStore ----------------------------
(* code->spec for C19: validates operation histories recorded from the real _AdbPacketStore against *)
(* AdbStore.  Total monitor: every event has a successor; a failed clause names itself in `verdict`. *)
EXTENDS Naturals, Sequences, FiniteSets, TLC, TLCExt, Json, IOUtils

CONSTANTS Ids, Cmds
Data == JsonDeserialize(IOEnv.TRACE_FILE)
Traces == Data.traces

None == 99
\* the pairs a history may use: all of Ids x Ids, unless the batch names them (histories over thousands of ids use few pairs of them)
Keys == IF "keys" \in DOMAIN Data THEN {<<Data.keys[i][1], Data.keys[i][2]>> : i \in 1..Len(Data.keys)} ELSE Ids \X Ids
NoKey == <<>>

VARIABLES tid, l, pend, verdict, done
vars == <<tid, l, pend, verdict, done>>

Match(p0, p1) == {k \in Keys : pend[k] # <<>> /\ (p0 = None \/ k[1] = p0) /\ (p1 = None \/ k[2] = p1)}
MatchZ(p0, p1) == Match(p0, p1) \cup Match(p0, 0) \cup Match(0, p1) \cup Match(0, 0)
MaxD(q) == IF q = <<>> THEN 0 ELSE q[Len(q)].d
Norm(q) == [i \in 1..Len(q) |-> [c |-> q[i].c, d |-> q[i].d]]

Init == /\ tid \in 1..Len(Traces) /\ l = 1 /\ pend = [k \in Keys |-> <<>>] /\ verdict = "ok" /\ done = FALSE

Fail(c) == verdict' = c /\ pend' = pend
Ok(p) == verdict' = "ok" /\ pend' = p
Key(r) == <<r[1], r[2]>>

\* the real store's projected state after the operation (logged in full: it is small)
Obs(e) == [k \in Keys |-> IF \E i \in 1..Len(e.st) : <<e.st[i].a0, e.st[i].a1>> = k
                          THEN Norm(e.st[CHOOSE i \in 1..Len(e.st) : <<e.st[i].a0, e.st[i].a1>> = k].q) ELSE <<>>]
Same(obs, c) == IF obs = pend THEN Ok(pend) ELSE Fail(c)

StepO(e, obs) ==
  CASE e.op = "put" ->
         LET k == <<e.a0, e.a1>> exp == [pend EXCEPT ![k] = Append(@, [c |-> e.c, d |-> e.d])] IN
         IF obs = exp THEN Ok(exp)
         ELSE IF e.c = "CLSE" /\ pend[k] = <<>> /\ obs = pend THEN Ok(pend)      \* unspecified by C19: dropped
         ELSE Fail("C19.PutUnderOwnKeyFifo")
    [] e.op \in {"find", "findz"} ->
         LET M == IF e.op = "find" THEN Match(e.a0, e.a1) ELSE MatchZ(e.a0, e.a1) IN
         IF e.res = NoKey THEN (IF M = {} THEN Same(obs, "C19.QueryMutates") ELSE Fail("C19.FindComplete"))
         ELSE IF Key(e.res) \in M THEN Same(obs, "C19.QueryMutates") ELSE Fail("C19.FindSound")
    [] e.op = "get" ->
         IF e.res = NoKey \/ Key(e.res) \notin Match(e.a0, e.a1) THEN Fail("C19.GetOwnKey")
         ELSE LET k == Key(e.res) p == Head(pend[k]) IN
              IF p.c # e.c \/ p.d # e.d THEN Fail("C19.GetFifo")
              ELSE LET exp == [pend EXCEPT ![k] = IF p.c = "CLSE" THEN <<>> ELSE Tail(@)] IN
                   IF obs = exp THEN Ok(exp)
                   ELSE IF p.c = "CLSE" THEN Fail("C19.ClseForgets") ELSE Fail("C19.GetFifo")
    [] e.op = "fill" ->       \* n packets WRTE 1..n parked for one pair, nothing retrieved from it: the model state is known
         LET k == <<e.a0, e.a1>> exp == [pend EXCEPT ![k] = [i \in 1..e.n |-> [c |-> "WRTE", d |-> i]]] IN
         IF obs = exp THEN Ok(exp) ELSE Fail("C19.PutUnderOwnKeyFifo")
    [] e.op = "putq" ->       \* a put whose resulting state was not logged in full (never a CLSE): the model state is advanced by the model
         LET k == <<e.a0, e.a1>> IN Ok([pend EXCEPT ![k] = Append(@, [c |-> e.c, d |-> e.d])])
    [] e.op = "getq" ->       \* a get whose resulting state was not logged in full: result checked, state advanced by the model
         IF e.res = NoKey \/ Key(e.res) \notin Match(e.a0, e.a1) THEN Fail("C19.GetOwnKey")
         ELSE LET k == Key(e.res) p == Head(pend[k]) IN
              IF p.c # e.c \/ p.d # e.d THEN Fail("C19.GetFifo") ELSE Ok([pend EXCEPT ![k] = IF p.c = "CLSE" THEN <<>> ELSE Tail(@)])
    [] e.op = "clear" -> LET exp == [pend EXCEPT ![<<e.a0, e.a1>>] = <<>>] IN IF obs = exp THEN Ok(exp) ELSE Fail("C19.ClearForgets")
    [] e.op = "clear_all" -> LET exp == [k \in Keys |-> <<>>] IN IF obs = exp THEN Ok(exp) ELSE Fail("C19.ClearAllForgets")
    [] e.op = "len" -> IF e.n = Cardinality({k \in Keys : pend[k] # <<>>}) THEN Same(obs, "C19.QueryMutates") ELSE Fail("C19.LenIsPendingKeys")
    [] e.op = "contains" -> IF e.b = (Match(e.a0, e.a1) # {}) THEN Same(obs, "C19.QueryMutates") ELSE Fail("C19.ContainsIffFind")
    [] e.op = "raised" -> Fail("C19.OperationRaises")
    [] OTHER -> Fail("ENV.UnknownEvent")

Next ==
  \/ /\ ~done /\ verdict = "ok" /\ l <= Len(Traces[tid])
     /\ LET e == Traces[tid][l] IN
          /\ LET obs == IF e.op \in {"getq", "putq", "raised"} THEN pend ELSE Obs(e) IN StepO(e, obs)
     /\ l' = l + 1 /\ UNCHANGED <<tid, done>>
  \/ /\ ~done /\ (verdict # "ok" \/ l > Len(Traces[tid]))
     /\ PrintT(<<"VERDICT", tid, l, verdict>>)
     /\ done' = TRUE /\ UNCHANGED <<tid, l, pend, verdict>>
Spec == Init /\ [][Next]_vars
TypeOK == verdict \in STRING
=============================================================================
