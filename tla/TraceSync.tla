---------------------------- MODULE TraceSync ----------------------------
(* code->spec for C07-C10: one trace per FileSync call, judged by SyncMon. *)
EXTENDS SyncMon, TLCExt, Json, IOUtils
Data == JsonDeserialize(IOEnv.TRACE_FILE)
Traces == Data.traces
VARIABLES tid, l, s, done
vars == <<tid, l, s, done>>
Init == tid \in 1..Len(Traces) /\ l = 1 /\ s = SInit /\ done = FALSE
Step(e) == CASE e.ev = "call" -> SCall(s, e) [] e.ev = "prx" -> SPrx(s, e) [] e.ev = "ptx" -> SPtx(s, e) [] e.ev = "cbk" -> SCbk(s, e)
             [] e.ev = "ret" -> SRet(s, e) [] e.ev = "exc" -> SExc(s, e) [] OTHER -> s
Next ==
  \/ /\ ~done /\ s.verdict = "ok" /\ l <= Len(Traces[tid])
     /\ s' = Step(Traces[tid][l]) /\ l' = l + 1 /\ UNCHANGED <<tid, done>>
  \/ /\ ~done /\ (s.verdict # "ok" \/ l > Len(Traces[tid]))
     /\ PrintT(<<"VERDICT", tid, l, s.verdict>>)
     /\ done' = TRUE /\ UNCHANGED <<tid, l, s>>
Spec == Init /\ [][Next]_vars
TypeOK == s.verdict \in STRING
=============================================================================
