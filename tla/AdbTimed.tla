---------------------------- MODULE AdbTimed ----------------------------
(* C11 design spec: the deadline checks of the read path against the most general stalling device.      *)
(*   _AdbTransactionInfo:        rt' = rt if total is None else min(rt, total)                           *)
(*                               tt' = rt' if tt is None else min(tt, rt')                               *)
(*   _read_bytes_from_device:    start; loop: bulk_read(need, tt'); if incomplete and now-start > rt': AdbTimeoutError *)
(*   read / _read_expected_packet_from_device: start; loop: read one packet; not the awaited one:        *)
(*                               if now-start > rt': AdbTimeoutError                                      *)
(* Adversary per transport call: the transport raises its timeout error after max(tt',1) ticks, or it     *)
(* returns 0..need bytes after 1..max(tt',1) ticks; completed packets are never the awaited one (traffic  *)
(* of other streams / unexpected commands) - except that a command with a whole-command limit (total)   *)
(* may also be fed data packets of its own stream for ever (a stream that is alive and never closes):     *)
(*   _read_until_close:          start0; for each data packet: if now-start0 > total: AdbTimeoutError     *)
(* Every transport call costs at least one tick.                                                          *)
(* The converse bound (NotEarly): the library gives up only when one of ITS OWN waits has lasted longer    *)
(* than its limit - the wait for the rest of a header or of a payload (each has a timer of its own), the  *)
(* wait for the awaited packet, the whole command.  A link on which every single wait stays below the     *)
(* limit is healthy, however long a packet or an exchange takes as a whole.  Ghost variable `ipstart` is  *)
(* the start of the part being read, kept independently of the algorithm's own `pstart`.                  *)
(*   sanity mutation SharePartTimer (seeded change C08-w8-c08-m2): one timestamp per packet, taken before *)
(*   the header and used for the payload as well - must violate NotEarly                                  *)
EXTENDS Integers, TLC
CONSTANTS Grid, None, H, PMax, K,
          SkipTotal,  \* sanity mutation: data packets skip the whole-command check (must violate Bounded)
          SharePartTimer
Max(a, b) == IF a > b THEN a ELSE b
Min(a, b) == IF a < b THEN a ELSE b
VARIABLES tt0, rt0, total, now, start, pstart, need, phase, pc, gotdata, ipstart, why
vars == <<tt0, rt0, total, now, start, pstart, need, phase, pc, gotdata, ipstart, why>>
RT == IF total = None THEN rt0 ELSE Min(rt0, total)
TT == IF tt0 = None THEN RT ELSE Min(tt0, RT)
Init == /\ rt0 \in Grid /\ tt0 \in Grid \cup {None} /\ total \in Grid \cup {None}
        /\ now = 0 /\ start = 0 /\ pstart = 0 /\ need = H /\ phase = "hdr" /\ pc = "call" /\ gotdata = FALSE
        /\ ipstart = 0 /\ why = "none"
Cost == 1..Max(TT, 1)
Call == /\ pc = "call"
        /\ \/ /\ now' = now + Max(TT, 1) /\ pc' = "transportTimeout" /\ UNCHANGED <<need, phase, pstart, start, ipstart, why>>
           \/ \E d \in Cost, k \in 0..need :
                /\ now' = now + d
                /\ IF need - k = 0
                   THEN IF phase = "hdr"
                        THEN \E p \in 0..PMax : IF p = 0 THEN /\ pc' = "pktdone" /\ UNCHANGED <<need, phase, pstart, ipstart, why>>
                                                ELSE /\ phase' = "pay" /\ need' = p /\ pstart' = (IF SharePartTimer THEN pstart ELSE now') /\ pc' = "call"
                                                     /\ ipstart' = now' /\ UNCHANGED why
                        ELSE /\ pc' = "pktdone" /\ UNCHANGED <<need, phase, pstart, ipstart, why>>
                   ELSE IF now' - pstart > RT THEN /\ pc' = "adbTimeout" /\ why' = "part" /\ UNCHANGED <<need, phase, pstart, ipstart>>
                        ELSE /\ need' = need - k /\ pc' = "call" /\ UNCHANGED <<phase, pstart, ipstart, why>>
                /\ UNCHANGED start
        /\ UNCHANGED <<tt0, rt0, total, gotdata>>
PktDone == /\ pc = "pktdone"
           /\ \/ /\ IF now - start > RT THEN pc' = "adbTimeout" /\ why' = "wait" /\ UNCHANGED <<need, phase, pstart, ipstart>>       \* not the awaited packet
                    ELSE /\ pc' = "call" /\ phase' = "hdr" /\ need' = H /\ pstart' = now /\ ipstart' = now /\ UNCHANGED why
                 /\ UNCHANGED <<start, gotdata>>
              \/ /\ total # None /\ gotdata' = TRUE                                                      \* a data packet of the command's own stream
                 /\ IF ~SkipTotal /\ now > total THEN pc' = "adbTimeout" /\ why' = "total" /\ UNCHANGED <<need, phase, pstart, start, ipstart>>
                    ELSE /\ pc' = "call" /\ phase' = "hdr" /\ need' = H /\ pstart' = now /\ start' = now /\ ipstart' = now /\ UNCHANGED why   \* the next read() starts
           /\ UNCHANGED <<tt0, rt0, total, now>>
Ended == pc \in {"adbTimeout", "transportTimeout"} /\ UNCHANGED vars
Next == Call \/ PktDone \/ Ended
Spec == Init /\ [][Next]_vars
\* the wait ends within K * (read timeout + transport timeout) (+2 ticks), counting negative values as 0 and a call as >= 1 tick
Bounded == now <= (IF gotdata THEN Max(total, 0) ELSE 0) + K * (Max(RT, 0) + Max(TT, 1)) + 2
\* the effective timeouts are ordered transport <= read <= total
Ordered == TT <= RT /\ (total # None => RT <= total)
\* it can only end with one of the two timeout errors (no fabricated result): the model has no other exit
RightError == pc \in {"call", "pktdone", "adbTimeout", "transportTimeout"}
\* the library's own timeout fires only when the wait it belongs to has itself lasted longer than its limit
NotEarly == pc = "adbTimeout" => CASE why = "part" -> now - ipstart > RT
                                   [] why = "wait" -> now - start > RT
                                   [] why = "total" -> now > total
                                   [] OTHER -> FALSE
=============================================================================
