---------------------------- MODULE TraceEnv ----------------------------
(* code->spec: event traces recorded from the real library (harness/simdev.py, transports.py, env.py) *)
(* are replayed through the Layer-A monitor AdbMon, frame clauses of AdbFrame first.  One TLC run     *)
(* validates a whole batch; each trace ends with one <<"VERDICT", tid, l, clause>> line.              *)
EXTENDS AdbMon, AdbFrame, TLCExt, Json, IOUtils

Data == JsonDeserialize(IOEnv.TRACE_FILE)
Traces == Data.traces

VARIABLES tid, l, mon, done
vars == <<tid, l, mon, done>>

Init == tid \in 1..Len(Traces) /\ l = 1 /\ mon = MonInit /\ done = FALSE

Step(e) ==
  CASE e.ev = "tx" -> LET c == FrameClause(e) IN IF c # "ok" THEN Bad(mon, c) ELSE MonStreamTx(MonTxAllowed(mon, e), e)
    [] e.ev = "tx_garbage" -> Bad(mon, "C02.Framing")
    [] e.ev = "rd" -> MonRd(mon, e)
    [] e.ev = "dv" -> MonDv(mon, e)
    [] e.ev = "call" -> MonCall(mon, e)
    [] e.ev = "ret" -> MonRet(mon, e)
    [] e.ev = "exc" -> MonExc(mon, e)
    [] e.ev = "stuck" -> MonStuck(mon, e)
    [] e.ev = "stall" -> MonStall(mon, e)
    [] e.ev = "abandon" -> MonAbandon(mon, e)
    [] e.ev = "conn" -> MonConn(mon)
    [] OTHER -> mon

Next ==
  \/ /\ ~done /\ mon.verdict = "ok" /\ l <= Len(Traces[tid])
     /\ mon' = Step(Traces[tid][l])
     /\ l' = l + 1 /\ UNCHANGED <<tid, done>>
  \/ /\ ~done /\ (mon.verdict # "ok" \/ l > Len(Traces[tid]))
     /\ PrintT(<<"VERDICT", tid, l, mon.verdict>>)
     /\ done' = TRUE /\ UNCHANGED <<tid, l, mon>>
Spec == Init /\ [][Next]_vars
TypeOK == mon.verdict \in STRING
=============================================================================
