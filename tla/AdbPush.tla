---------------------------- MODULE AdbPush ----------------------------
(* C07 design spec: the send side of a FileSync push as built                                            *)
(*   _push:            SEND(path,mode) ; DATA(chunk)* ; DONE(mtime) ; read status                        *)
(*   _filesync_send:   if not can_add_to_send_buffer(len(data)): flush ; append 8-byte header + data      *)
(*   can_add:          send_idx + HS + len < maxdata          (strict)                                   *)
(*   max_chunk_size:   min(MAXCHUNK, maxdata div 2) or LEGACY                                            *)
(*   _filesync_read:   if send_idx: flush                                                                *)
(* with every flush one WRITE packet.  Sizes are abstract lengths; file content is the interval [0, n).  *)
(* The same module is instantiated with small constants (exhaustive, all configurations) and with the    *)
(* real constants (HS 8, MAXCHUNK 65536, LEGACY 2048) as a table of expected WRITE sizes and records.    *)
EXTENDS Naturals, Sequences, TLC, Json
CONSTANTS HS, MAXCHUNK, LEGACY,
          Configs         \* set of records [md, n, pl]: device maxdata, file size, length of the 'path,mode' string
VARIABLES cfg, phase, sendIdx, pos, wr, recs
vars == <<cfg, phase, sendIdx, pos, wr, recs>>
Min(a, b) == IF a < b THEN a ELSE b
Chunk == LET c == Min(MAXCHUNK, cfg.md \div 2) IN IF c = 0 THEN LEGACY ELSE c
CanAdd(len) == sendIdx + HS + len < cfg.md
Init == cfg \in Configs /\ phase = "send" /\ sendIdx = 0 /\ pos = 0 /\ wr = <<>> /\ recs = <<>>
\* _filesync_send(id, data of length len)
Put(id, len) == IF CanAdd(len) THEN /\ sendIdx' = sendIdx + HS + len /\ wr' = wr
                ELSE /\ wr' = Append(wr, sendIdx) /\ sendIdx' = HS + len            \* flush (even an empty buffer), then append
Send == /\ phase = "send" /\ Put("SEND", cfg.pl) /\ recs' = Append(recs, <<"SEND", cfg.pl>>) /\ phase' = "data" /\ UNCHANGED <<cfg, pos>>
Data == /\ phase = "data" /\ pos < cfg.n
        /\ LET len == Min(Chunk, cfg.n - pos) IN Put("DATA", len) /\ recs' = Append(recs, <<"DATA", len>>) /\ pos' = pos + len
        /\ UNCHANGED <<cfg, phase>>
Done == /\ phase = "data" /\ pos = cfg.n /\ Put("DONE", 0) /\ recs' = Append(recs, <<"DONE", 0>>) /\ phase' = "status" /\ UNCHANGED <<cfg, pos>>
Status == /\ phase = "status" /\ wr' = (IF sendIdx > 0 THEN Append(wr, sendIdx) ELSE wr) /\ sendIdx' = 0 /\ phase' = "end" /\ UNCHANGED <<cfg, pos, recs>>
Finished == phase = "end" /\ UNCHANGED vars
Next == Send \/ Data \/ Done \/ Status \/ Finished
Spec == Init /\ [][Next]_vars
RECURSIVE SumData(_)
SumData(rs) == IF rs = <<>> THEN 0 ELSE (IF Head(rs)[1] = "DATA" THEN Head(rs)[2] ELSE 0) + SumData(Tail(rs))
RECURSIVE Sum(_)
Sum(s) == IF s = <<>> THEN 0 ELSE Head(s) + Sum(Tail(s))
\* C07 at the level of the design
DataLimit == \A i \in 1..Len(recs) : recs[i][1] = "DATA" => (recs[i][2] <= MAXCHUNK /\ recs[i][2] >= 1)
WriteLimit == \A i \in 1..Len(wr) : wr[i] <= cfg.md
NoEmptyWrite == \A i \in 1..Len(wr) : wr[i] > 0
Exact == phase = "end" => (SumData(recs) = cfg.n /\ Sum(wr) = Len(recs) * HS + cfg.pl + cfg.n)
Grammar == phase = "end" => (recs[1][1] = "SEND" /\ recs[Len(recs)][1] = "DONE" /\ \A i \in 2..(Len(recs) - 1) : recs[i][1] = "DATA")
Row == phase = "end" => PrintT(<<"ROW", ToJson([md |-> cfg.md, n |-> cfg.n, pl |-> cfg.pl, wr |-> wr, recs |-> recs])>>)
=============================================================================
