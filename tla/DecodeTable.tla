---------------------------- MODULE DecodeTable ----------------------------
(* Prints Decode(s) for every byte string over the alphabet up to length N, so that the TLA+ decoding *)
(* rule can be compared with CPython's bytes.decode('utf8', 'backslashreplace') exhaustively.         *)
EXTENDS AdbDecode, TLC, Json
CONSTANT N
VARIABLE s
Init == s = <<>>
Next == Len(s) < N /\ \E x \in Alphabet : s' = Append(s, x)
Spec == Init /\ [][Next]_s
Row == PrintT(<<"DEC", ToJson([s |-> s, d |-> Decode(s)])>>)
=============================================================================
