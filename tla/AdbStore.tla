---------------------------- MODULE AdbStore ----------------------------
(* The packet store of the I/O manager (adb_shell/hidden_helpers.py::_AdbPacketStore) as the      *)
(* property C19 states it: packets parked per (arg0, arg1) pair, FIFO per pair, wildcard and       *)
(* zero-fallback lookup, a retrieved CLSE forgets the pair, len = number of pairs with a pending   *)
(* packet.  Where the property leaves a choice (which matching pair a wildcard lookup returns;      *)
(* whether a CLSE parked for a pair with nothing pending is kept) the action is nondeterministic.   *)
EXTENDS Naturals, Sequences, FiniteSets, TLC, Json

CONSTANTS Ids,        \* id values of the bounded instance, must contain 0 (the legacy fallback id)
          Cmds,       \* e.g. {"OKAY", "WRTE", "CLSE"}
          MaxLevel    \* bound on the depth of the explored graph (operations + 1)

None == 99            \* the wildcard (Python None)
Keys == Ids \X Ids
Pats == Ids \cup {None}
NoKey == <<>>

VARIABLES pend,       \* [Keys -> Seq([c, d])]   pending packets per pair, oldest first
          last        \* the operation that produced this state, with its result (history; not in VIEW)
vars == <<pend, last>>

MaxD(q) == IF q = <<>> THEN 0 ELSE q[Len(q)].d
Match(p0, p1) == {k \in Keys : pend[k] # <<>> /\ (p0 = None \/ k[1] = p0) /\ (p1 = None \/ k[2] = p1)}
MatchZ(p0, p1) == Match(p0, p1) \cup Match(p0, 0) \cup Match(0, p1) \cup Match(0, 0)

Init == pend = [k \in Keys |-> <<>>] /\ last = [op |-> "init"]

Put(a0, a1, c) ==
  LET k == <<a0, a1>> pkt == [c |-> c, d |-> MaxD(pend[k]) + 1] IN
  \/ /\ pend' = [pend EXCEPT ![k] = Append(@, pkt)]
     /\ last' = [op |-> "put", a0 |-> a0, a1 |-> a1, c |-> c, d |-> pkt.d, kept |-> TRUE]
  \/ /\ c = "CLSE" /\ pend[k] = <<>>          \* unspecified by C19: the CLSE may be dropped (K1 is C06's business)
     /\ pend' = pend
     /\ last' = [op |-> "put", a0 |-> a0, a1 |-> a1, c |-> c, d |-> pkt.d, kept |-> FALSE]

Find(p0, p1) ==
  /\ pend' = pend
  /\ \/ \E k \in Match(p0, p1) : last' = [op |-> "find", a0 |-> p0, a1 |-> p1, res |-> k]
     \/ Match(p0, p1) = {} /\ last' = [op |-> "find", a0 |-> p0, a1 |-> p1, res |-> NoKey]

FindZ(p0, p1) ==
  /\ pend' = pend
  /\ \/ \E k \in MatchZ(p0, p1) : last' = [op |-> "findz", a0 |-> p0, a1 |-> p1, res |-> k]
     \/ MatchZ(p0, p1) = {} /\ last' = [op |-> "findz", a0 |-> p0, a1 |-> p1, res |-> NoKey]

Get(p0, p1) ==
  \E k \in Match(p0, p1) :
    LET p == Head(pend[k]) IN
    /\ pend' = [pend EXCEPT ![k] = IF p.c = "CLSE" THEN <<>> ELSE Tail(@)]
    /\ last' = [op |-> "get", a0 |-> p0, a1 |-> p1, res |-> k, c |-> p.c, d |-> p.d]

Clear(a0, a1) == /\ pend' = [pend EXCEPT ![<<a0, a1>>] = <<>>]
                 /\ last' = [op |-> "clear", a0 |-> a0, a1 |-> a1]
ClearAll == /\ pend' = [k \in Keys |-> <<>>] /\ last' = [op |-> "clear_all"]
LenOp == /\ pend' = pend /\ last' = [op |-> "len", res |-> Cardinality({k \in Keys : pend[k] # <<>>})]
Contains(p0, p1) == /\ pend' = pend /\ last' = [op |-> "contains", a0 |-> p0, a1 |-> p1, res |-> (Match(p0, p1) # {})]

Next == \/ \E a0 \in Ids, a1 \in Ids, c \in Cmds : Put(a0, a1, c)
        \/ \E p0 \in Pats, p1 \in Pats : Find(p0, p1) \/ FindZ(p0, p1) \/ Get(p0, p1) \/ Contains(p0, p1)
        \/ \E a0 \in Ids, a1 \in Ids : Clear(a0, a1)
        \/ ClearAll \/ LenOp
Spec == Init /\ [][Next]_vars

-----------------------------------------------------------------------------
(* What C19 says, as properties of the specification itself (TLC checks them on the bounded graph). *)
TypeOK == pend \in [Keys -> Seq([c : Cmds, d : Nat])]
\* arrival order is retrieval order: data ids in a queue are strictly increasing
FifoQueues == \A k \in Keys : \A i \in 1..Len(pend[k]) - 1 : pend[k][i].d < pend[k][i + 1].d
\* a get returns the oldest packet of exactly the pair it names, and only of a pair that matches the pattern
GetSound == last'.op = "get" =>
              /\ pend[last'.res] # <<>> /\ Head(pend[last'.res]).d = last'.d /\ Head(pend[last'.res]).c = last'.c
              /\ (last'.a0 # None => last'.res[1] = last'.a0) /\ (last'.a1 # None => last'.res[2] = last'.a1)
              /\ \A k \in Keys \ {last'.res} : pend'[k] = pend[k]
              /\ (last'.c = "CLSE" => pend'[last'.res] = <<>>)
\* a lookup returns a pair with a pending packet iff one matches
FindSound == last'.op \in {"find", "findz"} =>
              LET M == IF last'.op = "find" THEN Match(last'.a0, last'.a1) ELSE MatchZ(last'.a0, last'.a1) IN
              /\ (last'.res = NoKey) = (M = {}) /\ (last'.res # NoKey => last'.res \in M) /\ pend' = pend
LenSound == last'.op = "len" => last'.res = Cardinality({k \in Keys : pend[k] # <<>>})
StepProps == [][GetSound /\ FindSound /\ LenSound]_vars

-----------------------------------------------------------------------------
(* JSON-friendly state and the edge stream for the spec->code walk. *)
St(p) == {[a0 |-> k[1], a1 |-> k[2], q |-> p[k]] : k \in {x \in Keys : p[x] # <<>>}}
View == pend
Bound == TLCGet("level") <= MaxLevel
EmitEdge == PrintT(<<"EDGE", ToJson([from |-> St(pend), op |-> last', to |-> St(pend')])>>)
=============================================================================
