---------------------------- MODULE AdbReader ----------------------------
(* C03 design spec: inbound framing as built                                                             *)
(*   _read_bytes_from_device(length): while length > 0: temp = bulk_read(length); data += temp;           *)
(*                                    length -= len(temp)                                                 *)
(*   _read_packet_from_device:        header = read_bytes(H); unknown command -> InvalidCommandError;     *)
(*                                    data_length = 0 -> deliver; payload = read_bytes(data_length);      *)
(*                                    checksum mismatch -> InvalidChecksumError; deliver                  *)
(* against a transport that may return any number of bytes from 0 (an empty read) up to what was          *)
(* requested and is available.  Frames: [p |-> payload length, bad |-> "no" | "sum" | "cmd"].             *)
EXTENDS Naturals, Sequences, TLC, Json
CONSTANTS H, Frames, MaxEmpty
VARIABLES fi,        \* index of the frame being read
          phase,     \* "hdr" | "pay" | "done" | "raised"
          need,      \* bytes still to read in this phase (the argument of the next bulk_read)
          left,      \* bytes of the current frame not yet handed to the host
          empties, delivered, outcome, act
vars == <<fi, phase, need, left, empties, delivered, outcome, act>>
FLen(f) == H + f.p
Init == /\ fi = 1 /\ phase = "hdr" /\ need = H /\ left = FLen(Frames[1]) /\ empties = 0 /\ delivered = <<>> /\ outcome = "none" /\ act = [k |-> 0 - 1, n |-> 0]
\* one bulk_read(need) returning k bytes
Read(k) ==
  /\ phase \in {"hdr", "pay"} /\ k <= need /\ k <= left /\ (k = 0 => empties < MaxEmpty)
  /\ act' = [k |-> k, n |-> need]
  /\ empties' = IF k = 0 THEN empties + 1 ELSE 0
  /\ IF k < need THEN /\ need' = need - k /\ left' = left - k /\ UNCHANGED <<fi, phase, delivered, outcome>>
     ELSE LET f == Frames[fi] IN
          IF phase = "hdr" /\ f.bad = "cmd" THEN /\ phase' = "raised" /\ outcome' = "InvalidCommandError" /\ left' = left - k /\ UNCHANGED <<fi, need, delivered>>
          ELSE IF phase = "hdr" /\ f.p > 0 THEN /\ phase' = "pay" /\ need' = f.p /\ left' = left - k /\ UNCHANGED <<fi, delivered, outcome>>
          ELSE IF phase = "pay" /\ f.bad = "sum" THEN /\ phase' = "raised" /\ outcome' = "InvalidChecksumError" /\ left' = left - k /\ UNCHANGED <<fi, need, delivered>>
          ELSE /\ delivered' = Append(delivered, fi)
               /\ IF fi = Len(Frames) THEN /\ phase' = "done" /\ outcome' = "ok" /\ left' = left - k /\ UNCHANGED <<fi, need>>
                  ELSE /\ fi' = fi + 1 /\ phase' = "hdr" /\ need' = H /\ left' = FLen(Frames[fi + 1]) /\ UNCHANGED outcome
Step == \E k \in 0..(H + 8) : Read(k)
Finished == phase \in {"done", "raised"} /\ UNCHANGED vars
Next == Step \/ Finished
Spec == Init /\ [][Next]_vars
\* never request more than remains of the current packet
NoOverRead == phase \in {"hdr", "pay"} => need <= left
\* delivered packets are exactly the device's packets, in order, up to the first bad one
ExactReassembly == delivered = [i \in 1..Len(delivered) |-> i]
CorruptNeverDelivered == \A i \in 1..Len(delivered) : Frames[delivered[i]].bad = "no"
RightError == (phase = "raised") => \E i \in 1..Len(Frames) : /\ \A j \in 1..(i - 1) : Frames[j].bad = "no"
                                                             /\ (Frames[i].bad = "sum" => outcome = "InvalidChecksumError")
                                                             /\ (Frames[i].bad = "cmd" => outcome = "InvalidCommandError")
                                                             /\ Frames[i].bad # "no" /\ Len(delivered) = i - 1
AllDelivered == (phase = "done") => Len(delivered) = Len(Frames)
View == <<fi, phase, need, left, empties, delivered, outcome>>
St(a, b, c, d, e, f) == [fi |-> a, phase |-> b, need |-> c, left |-> d, empties |-> e, ndel |-> Len(f)]
EmitEdge == PrintT(<<"EDGE", ToJson([from |-> St(fi, phase, need, left, empties, delivered), act |-> act', to |-> St(fi', phase', need', left', empties', delivered')])>>)
=============================================================================
