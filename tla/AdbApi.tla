---------------------------- MODULE AdbApi ----------------------------
(* C13: the life cycle of the public device object.  `available` is TRUE exactly from a successful   *)
(* connect() until the next close() or connect() attempt; an operation on an unavailable device       *)
(* raises AdbConnectionError, an empty device path raises DevicePathInvalidError, and in both cases   *)
(* not a byte is written to the transport and no local file is created.  Where both conditions hold   *)
(* the property leaves the choice of the exception open.                                              *)
EXTENDS Naturals, Sequences, TLC, Json
CONSTANTS FailKinds      \* ways a connect() can fail
PathApis == {"list", "stat", "pull", "push"}
OtherApis == {"shell", "exec_out", "streaming_shell", "root", "reboot"}
VARIABLES available, last
vars == <<available, last>>
Init == available = FALSE /\ last = [op |-> "init"]
\* outcome classes: "ok" (returns normally), or the exception class
ConnectOk == /\ available' = TRUE /\ last' = [op |-> "connect_ok", out |-> "ok", wrote |-> TRUE, avail |-> TRUE]
ConnectFail(k) == /\ available' = FALSE /\ last' = [op |-> "connect_fail", kind |-> k, out |-> "raises", wrote |-> TRUE, avail |-> FALSE]
Close == /\ available' = FALSE /\ last' = [op |-> "close", out |-> "ok", wrote |-> FALSE, avail |-> FALSE]
Op(api, empty) ==
  /\ available' = available
  /\ \/ /\ empty /\ last' = [op |-> "op", api |-> api, empty |-> empty, out |-> "DevicePathInvalidError", wrote |-> FALSE, avail |-> available]
     \/ /\ ~available /\ last' = [op |-> "op", api |-> api, empty |-> empty, out |-> "AdbConnectionError", wrote |-> FALSE, avail |-> available]
     \/ /\ available /\ ~empty /\ last' = [op |-> "op", api |-> api, empty |-> empty, out |-> "ok", wrote |-> TRUE, avail |-> available]
Next == \/ ConnectOk \/ Close \/ (\E k \in FailKinds : ConnectFail(k))
        \/ (\E a \in PathApis, e \in BOOLEAN : Op(a, e)) \/ (\E a \in OtherApis : Op(a, FALSE))
Spec == Init /\ [][Next]_vars
\* properties of the specification (checked by TLC on the graph)
GuardFirst == [][(last'.op = "op" /\ ~available) => (last'.out \in {"AdbConnectionError", "DevicePathInvalidError"} /\ ~last'.wrote)]_vars
EmptyPath == [][(last'.op = "op" /\ last'.empty) => (last'.out \in {"AdbConnectionError", "DevicePathInvalidError"} /\ ~last'.wrote)]_vars
AvailableExactly == [][available' = (last'.op = "connect_ok" \/ (available /\ last'.op = "op"))]_vars
View == available
EmitEdge == PrintT(<<"EDGE", ToJson([from |-> available, op |-> last', to |-> available'])>>)
=============================================================================
