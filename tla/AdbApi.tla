---------------------------- MODULE AdbApi ----------------------------
(* C13: the life cycle of the public device object.  `available` is TRUE exactly from a successful   *)
(* connect() until the next close() or connect() attempt; an operation on an unavailable device       *)
(* raises AdbConnectionError, an empty device path raises DevicePathInvalidError, and in both cases   *)
(* not a byte is written to the transport and no local file is created.  Where both conditions hold   *)
(* the property leaves the choice of the exception open.                                              *)
(*                                                                                                    *)
(* Beyond the one-call operations the object has one operation that is spread over several calls:     *)
(* streaming_shell() hands out a generator; nothing happens until its first item is requested, and    *)
(* that request is the operation as far as this property is concerned (it is the step that sends the  *)
(* OPEN).  The generator is modelled as a slot `gen` with its own life cycle and with the connection  *)
(* epoch it was started in.  close() itself can fail (the transport's close raises), and a connect()  *)
(* attempt can end by any kind of exception, including one that is not an Exception (a cancelled      *)
(* asyncio task): in every case the attempt ends the previous availability.                           *)
EXTENDS Naturals, Sequences, TLC, Json
CONSTANTS FailKinds      \* ways a connect() can fail
PathApis == {"list", "stat", "pull", "push"}
OtherApis == {"shell", "exec_out", "streaming_shell", "root", "reboot"}
VARIABLES available, gen, last
\* gen: "none" | "fresh" (handed out, nothing requested yet) | "live" (started in the current connection, items left)
\*      | "stale" (started in a connection that has ended since) | "done"
vars == <<available, gen, last>>
Init == available = FALSE /\ gen = "none" /\ last = [op |-> "init"]
Ended(g) == IF g = "live" THEN "stale" ELSE g            \* what a connection change does to the generator
\* outcome classes: "ok" (returns normally), or the exception class
ConnectOk == /\ available' = TRUE /\ gen' = Ended(gen)
             /\ last' = [op |-> "connect_ok", out |-> "ok", wrote |-> TRUE, avail |-> TRUE]
ConnectFail(k) == /\ available' = FALSE /\ gen' = Ended(gen)
                  /\ last' = [op |-> "connect_fail", kind |-> k, out |-> "raises", wrote |-> TRUE, avail |-> FALSE]
Close == /\ available' = FALSE /\ gen' = Ended(gen)
         /\ last' = [op |-> "close", out |-> "ok", wrote |-> FALSE, avail |-> FALSE]
CloseFail == /\ available' = FALSE /\ gen' = Ended(gen)        \* the transport's close() raises: the object is closed all the same
             /\ last' = [op |-> "close_fail", out |-> "raises", wrote |-> FALSE, avail |-> FALSE]
Op(api, empty) ==
  /\ available' = available /\ gen' = gen
  /\ \/ /\ empty /\ last' = [op |-> "op", api |-> api, empty |-> empty, out |-> "DevicePathInvalidError", wrote |-> FALSE, avail |-> available]
     \/ /\ ~available /\ last' = [op |-> "op", api |-> api, empty |-> empty, out |-> "AdbConnectionError", wrote |-> FALSE, avail |-> available]
     \/ /\ available /\ ~empty /\ last' = [op |-> "op", api |-> api, empty |-> empty, out |-> "ok", wrote |-> TRUE, avail |-> available]
\* streaming_shell() is called: no I/O.  An implementation may refuse at once when the device is unavailable.
GenCreate ==
  /\ available' = available
  /\ \/ /\ gen' = "fresh" /\ last' = [op |-> "gen_create", out |-> "ok", wrote |-> FALSE, avail |-> available]
     \/ /\ ~available /\ gen' = gen /\ last' = [op |-> "gen_create", out |-> "AdbConnectionError", wrote |-> FALSE, avail |-> available]
\* an item is requested from the generator
GenNext ==
  /\ gen # "none" /\ available' = available
  /\ \/ /\ gen = "fresh" /\ ~available /\ gen' = "done"
        /\ last' = [op |-> "gen_next", was |-> gen, out |-> "AdbConnectionError", wrote |-> FALSE, avail |-> available]
     \/ /\ gen = "fresh" /\ available /\ gen' \in {"live", "done"}
        /\ last' = [op |-> "gen_next", was |-> gen, out |-> "ok", wrote |-> TRUE, avail |-> available]
     \/ /\ gen = "live" /\ gen' \in {"live", "done"}
        /\ last' = [op |-> "gen_next", was |-> gen, out |-> "ok", wrote |-> TRUE, avail |-> available]
     \/ /\ gen = "live" /\ gen' = "done"
        /\ last' = [op |-> "gen_next", was |-> gen, out |-> "stop", wrote |-> TRUE, avail |-> available]
     \/ /\ gen = "stale" /\ gen' = "done"        \* its connection is gone: it fails somehow.  The property speaks about operations that start on an
                                                 \* unconnected device, not about the rest of one that was cut off, so the model leaves `wrote` open
                                                 \* (the library: a generator whose packets were parked offers its OKAY to the closed transport when the
                                                 \* transport's close() had raised, because then the store is not cleared - see DESIGN.md, observations)
        /\ last' = [op |-> "gen_next", was |-> gen, out |-> "raises", wrote |-> TRUE, avail |-> available]
     \/ /\ gen = "done" /\ gen' = "done"
        /\ last' = [op |-> "gen_next", was |-> gen, out |-> "stop", wrote |-> FALSE, avail |-> available]
Next == \/ ConnectOk \/ Close \/ CloseFail \/ (\E k \in FailKinds : ConnectFail(k))
        \/ (\E a \in PathApis, e \in BOOLEAN : Op(a, e)) \/ (\E a \in OtherApis : Op(a, FALSE))
        \/ GenCreate \/ GenNext
Spec == Init /\ [][Next]_vars
\* properties of the specification (checked by TLC on the graph)
IsOp(l) == l.op \in {"op", "gen_next"}
GuardFirst == [][(IsOp(last') /\ ~available /\ (last'.op = "gen_next" => last'.was = "fresh"))
                   => (last'.out \in {"AdbConnectionError", "DevicePathInvalidError", "raises"} /\ ~last'.wrote)]_vars
NothingSentUnlessConnected == [][~available => (last'.op \in {"connect_ok", "connect_fail"} \/ (last'.op = "gen_next" /\ last'.was = "stale") \/ ~last'.wrote)]_vars
EmptyPath == [][(last'.op = "op" /\ last'.empty) => (last'.out \in {"AdbConnectionError", "DevicePathInvalidError"} /\ ~last'.wrote)]_vars
AvailableExactly == [][available' = (last'.op = "connect_ok" \/ (available /\ last'.op \in {"op", "gen_create", "gen_next"}))]_vars
FreshGenIsAnOperation == [][(last'.op = "gen_next" /\ last'.was = "fresh" /\ ~available) => (last'.out = "AdbConnectionError" /\ ~last'.wrote)]_vars
View == <<available, gen>>
EmitEdge == PrintT(<<"EDGE", ToJson([from |-> [a |-> available, g |-> gen], op |-> last', to |-> [a |-> available', g |-> gen']])>>)
=============================================================================
