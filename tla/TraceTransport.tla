---------------------------- MODULE TraceTransport ----------------------------
(* code->spec for C18 / C20: driver scripts executed against a real transport object; each step must be a step of *)
(* the contract AdbTransport.  Read results carry the names (positions) of the bytes returned.                      *)
EXTENDS Naturals, Sequences, TLC, TLCExt, Json, IOUtils
Data == JsonDeserialize(IOEnv.TRACE_FILE)
Traces == Data.traces
VARIABLES tid, l, verdict, done, connected, written, delivered
vars == <<tid, l, verdict, done, connected, written, delivered>>
Init == tid \in 1..Len(Traces) /\ l = 1 /\ verdict = "ok" /\ done = FALSE /\ connected = FALSE /\ written = 0 /\ delivered = 0
P == Data.prefix       \* "C18" or "C20"
Fail(c) == verdict' = P \o "." \o c /\ UNCHANGED <<connected, written, delivered>>
Step(e) ==
  CASE e.op = "connect" -> IF e.ok THEN verdict' = "ok" /\ connected' = TRUE /\ written' = 0 /\ delivered' = 0 ELSE Fail("Reconnectable")
    [] e.op = "close" -> IF e.ok THEN verdict' = "ok" /\ connected' = FALSE /\ UNCHANGED <<written, delivered>> ELSE Fail("CloseIdempotent")
    [] e.op = "pw" -> verdict' = "ok" /\ written' = written + e.m /\ UNCHANGED <<connected, delivered>>
    [] e.op = "read" ->
         IF e.k > e.n THEN Fail("ReadAtMost")
         ELSE IF e.k = 0 THEN Fail("EmptyRead")
         ELSE IF e.first # delivered + 1 \/ ~e.contiguous \/ delivered + e.k > written THEN Fail("InOrderNoLossNoDup")
         ELSE verdict' = "ok" /\ delivered' = delivered + e.k /\ UNCHANGED <<connected, written>>
    [] e.op = "timeout" ->
         IF written - delivered > 0 THEN Fail("TimeoutOnlyWhenEmpty")
         ELSE IF ~e.rightClass THEN Fail("TimeoutError")
         ELSE IF e.elapsed * 10 < e.timeout * 8 THEN Fail("TimeoutNotEarly")
         ELSE verdict' = "ok" /\ UNCHANGED <<connected, written, delivered>>
    [] e.op = "hw" -> IF e.k < 1 \/ e.k > e.n THEN Fail("WriteAtMost")
                      ELSE IF ~e.prefixOk THEN Fail("PeerGetsWhatWasReported")
                      ELSE verdict' = "ok" /\ UNCHANGED <<connected, written, delivered>>
    [] e.op = "error" -> Fail(e.clause)
    [] OTHER -> verdict' = "ok" /\ UNCHANGED <<connected, written, delivered>>
Next ==
  \/ /\ ~done /\ verdict = "ok" /\ l <= Len(Traces[tid])
     /\ Step(Traces[tid][l]) /\ l' = l + 1 /\ UNCHANGED <<tid, done>>
  \/ /\ ~done /\ (verdict # "ok" \/ l > Len(Traces[tid]))
     /\ PrintT(<<"VERDICT", tid, l, verdict>>)
     /\ done' = TRUE /\ UNCHANGED <<tid, l, verdict, connected, written, delivered>>
Spec == Init /\ [][Next]_vars
TypeOK == verdict \in STRING
=============================================================================
