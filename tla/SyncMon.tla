---------------------------- MODULE SyncMon ----------------------------
(* Layer A for the FileSync operations (C07 push, C08 pull, C09 list/stat, C10 failures), one monitor  *)
(* record per public call.  Events are what the simulated device's sync service decoded from the host *)
(* (prx), what it wrote (ptx), progress-callback invocations (cbk) and the call's outcome.            *)
(* Byte ranges are named by the projection as offsets into the source file, `match` saying whether    *)
(* the bytes at that range are the source's bytes.                                                    *)
EXTENDS Naturals, Sequences, TLC

SInit == [api |-> "none", size |-> 0, cb |-> FALSE, nfiles |-> 1,
          ph |-> "idle",          \* push grammar: idle -> data (after SEND) -> done (after DONE)
          off |-> 0, files |-> 0, cbsum |-> 0, cbn |-> 0, okay |-> FALSE, fail |-> FALSE, badid |-> FALSE, verdict |-> "ok"]
SBad(s, c) == IF s.verdict = "ok" THEN [s EXCEPT !.verdict = c] ELSE s

SCall(s, e) == [SInit EXCEPT !.api = e.api, !.size = e.size, !.cb = e.cb, !.nfiles = e.nfiles]

\* a sync record decoded by the device from the host's WRITE payloads
SPrx(s, e) ==
  IF s.api # "push" THEN
       \* the request record the device decoded must name exactly the path the caller gave (byte length, not character count)
       (IF e.id \in {"RECV", "LIST", "STAT"} /\ ~e.specOk THEN SBad(s, IF s.api = "pull" THEN "C08.RequestPath" ELSE "C09.RequestPath") ELSE s)
  ELSE CASE e.id = "SEND" -> IF s.ph \notin {"idle", "done"} THEN SBad(s, "C07.Grammar")
                             ELSE IF ~e.specOk THEN SBad(s, "C07.SendSpec")
                             ELSE [s EXCEPT !.ph = "data", !.off = 0]
         [] e.id = "DATA" -> IF s.ph # "data" THEN SBad(s, "C07.Grammar")
                             ELSE IF e.n > 65536 THEN SBad(s, "C07.DataLimit")
                             ELSE IF e.off # s.off \/ ~e.match THEN SBad(s, "C07.Exact")
                             ELSE [s EXCEPT !.off = @ + e.n]
         [] e.id = "DONE" -> IF s.ph # "data" THEN SBad(s, "C07.Grammar")
                             ELSE IF s.off # e.fsize THEN SBad(s, "C07.Exact")
                             ELSE IF ~e.mtimeOk THEN SBad(s, "C07.DoneTime")
                             ELSE [s EXCEPT !.ph = "done", !.files = @ + 1]
         [] OTHER -> SBad(s, "C07.Grammar")

\* a sync record written by the device
SPtx(s, e) ==
  CASE e.id = "OKAY" -> [s EXCEPT !.okay = TRUE]
    [] e.id = "FAIL" -> [s EXCEPT !.fail = TRUE]
    [] e.bad -> [s EXCEPT !.badid = TRUE]
    [] OTHER -> s

\* totalOk: the total handed to the callback is the source size (push) resp. the size the device's STAT reported (pull) - compared by the projection (32-bit values)
SCbk(s, e) == IF ~e.totalOk THEN SBad(s, IF s.api = "push" THEN "C07.CallbackSum" ELSE "C08.CallbackSum")
              ELSE [s EXCEPT !.cbsum = @ + e.n, !.cbn = @ + 1]

SRet(s, e) ==
  IF s.fail \/ s.badid THEN SBad(s, "C10.NeverSucceeds")
  ELSE CASE s.api = "push" ->
              IF s.files # s.nfiles \/ (s.nfiles > 0 /\ s.ph # "done") THEN SBad(s, "C07.Grammar")
              ELSE IF s.nfiles > 0 /\ ~s.okay THEN SBad(s, "C07.ReturnsAfterOkay")
              ELSE IF s.cb /\ s.cbsum # s.size THEN SBad(s, "C07.CallbackSum")
              ELSE IF ~e.inert THEN SBad(s, "C07.CallbackInert")
              ELSE s
         [] s.api = "pull" ->
              IF ~e.match \/ e.wrote # s.size THEN SBad(s, "C08.PullExact")
              ELSE IF s.cb /\ s.cbsum # s.size THEN SBad(s, "C08.CallbackSum")
              ELSE IF ~e.inert THEN SBad(s, "C08.CallbackInert")
              ELSE s
         [] s.api = "list" -> IF e.entries # e.expected THEN SBad(s, "C09.ListExact") ELSE s
         [] s.api = "stat" -> IF e.entries # e.expected THEN SBad(s, "C09.StatExact") ELSE s
         [] OTHER -> s

Timeouts == {"AdbTimeoutError", "SimTimeout", "TcpTimeoutException", "Watchdog"}
SExc(s, e) ==
  IF s.fail THEN
       IF e.cls \in Timeouts THEN SBad(s, "C10.NoTimeoutInstead")
       ELSE IF s.api = "push" /\ e.cls # "PushFailedError" THEN SBad(s, "C10.FailSurfaces")
       ELSE IF s.api # "push" /\ e.cls # "AdbCommandFailureException" THEN SBad(s, "C10.FailSurfaces")
       ELSE IF ~e.reasonIn THEN SBad(s, "C10.CarriesReason")
       ELSE s
  ELSE IF s.badid THEN (IF e.cls # "InvalidResponseError" THEN SBad(s, "C10.InvalidStatus") ELSE s)
  ELSE IF e.healthy /\ ~e.inert THEN SBad(s, IF s.api = "push" THEN "C07.CallbackInert" ELSE "C08.CallbackInert")
  ELSE IF e.healthy /\ e.dir THEN SBad(s, "C07.DirRule")
  ELSE IF e.healthy THEN SBad(s, IF s.api = "push" THEN "C07.HealthyPushRaises" ELSE IF s.api = "pull" THEN "C08.HealthyPullRaises" ELSE "C09.HealthyOpRaises")
  ELSE s
=============================================================================
