---------------------------- MODULE ShellScen ----------------------------
(* C01, spec->code: every device output over the five-symbol alphabet of AdbDecode (<= MaxSyms bytes) *)
(* cut into WRITE payloads in every way (<= MaxChunks non-empty payloads), together with what shell /  *)
(* exec_out (raw and decoded) and streaming_shell (raw and decoded per payload) must deliver.  TLC     *)
(* enumerates the scenarios and computes the expected values; harness/checks/c01.py replays each one   *)
(* into AdbDevice and AdbDeviceAsync.                                                                  *)
EXTENDS AdbDecode, TLC, Json
CONSTANTS MaxSyms, MaxChunks
VARIABLES chunks
Init == chunks = <<>>
Next == /\ Len(Flat(chunks)) < MaxSyms
        /\ \E x \in Alphabet : \/ (Len(chunks) < MaxChunks /\ chunks' = Append(chunks, <<x>>))
                              \/ (chunks # <<>> /\ chunks' = [chunks EXCEPT ![Len(chunks)] = Append(@, x)])
Spec == Init /\ [][Next]_chunks
Scen == PrintT(<<"SCEN", ToJson([chunks |-> chunks, raw |-> Flat(chunks), dec |-> DecodeWhole(chunks), each |-> DecodeEach(chunks)])>>)
\* the statement of C01 at this level: joining then decoding is what the caller gets; the alphabet is rich
\* enough to tell that apart from decoding each payload (SplitInsensitive must FAIL: non-vacuity witness)
TypeOK == chunks \in Seq(Seq(Alphabet))
NoDecodeError == \A i \in 1..Len(DecodeWhole(chunks)) : DecodeWhole(chunks)[i] \in {1} \cup 11..15 \cup 20..23
SplitInsensitive == Flat(DecodeEach(chunks)) = DecodeWhole(chunks)
=============================================================================
