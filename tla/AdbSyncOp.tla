---------------------------- MODULE AdbSyncOp ----------------------------
(* Design spec of the reading FileSync operations at record level: stat, list, pull (with and without a       *)
(* progress callback), against ANY sequence of reply records a device may send (valid or not at that point),   *)
(* a device that falls silent, and a local sink that fails at its k-th write.                                  *)
(*   stat:  OPEN sync:, STAT request, one record expected: STAT;            then CLSE handshake, return         *)
(*   list:  OPEN sync:, LIST request, records DENT* then DONE;              then CLSE handshake, return         *)
(*   pull:  [stat on a stream of its own when a callback was given,] OPEN sync:, RECV request, records DATA*    *)
(*          then DONE; each DATA is written to the sink; the CLSE handshake is in a `finally`                   *)
(*   push:  (one file) OPEN sync:, SEND + DATA* + DONE in the send buffer, one status record expected: OKAY;     *)
(*          FAIL raises PushFailedError; the stream is closed after a success only (as built)                    *)
(* A FAIL record raises AdbCommandFailureException, any other record that is not expected at that point raises  *)
(* InvalidResponseError (C10).  As built, stat and list leave their stream open when they raise; pull closes    *)
(* it whatever happens.  The machine is deterministic: TLC enumerates every (operation, script, sink failure)   *)
(* and prints the expected observables of each (Row), which are replayed on the real code.                      *)
EXTENDS Naturals, Sequences, TLC, Json
CONSTANTS MaxRec
Ops == {"stat", "list", "pull", "pullcb", "push"}
Ids == {"DATA", "DENT", "DONE", "STAT", "FAIL", "OKAY", "CLSE"}
\* OKAY: a FileSync id that is never valid in a reply to these requests; "CLSE" is not a record: the device closes the stream at that
\* point (the service died) - the host gets nothing more, its wait times out, and it still sends exactly one CLSE where it closes at all
RECURSIVE SeqsUpTo(_)
SeqsUpTo(n) == IF n = 0 THEN {<<>>} ELSE LET S == SeqsUpTo(n - 1) IN S \cup {Append(s, x) : s \in {t \in S : Len(t) = n - 1}, x \in Ids}
VARIABLES op, script, failAt, pc, pos, items, nclse, outcome
vars == <<op, script, failAt, pc, pos, items, nclse, outcome>>
IsPull == op \in {"pull", "pullcb"}
Init == /\ op \in Ops /\ script \in SeqsUpTo(IF op = "push" /\ MaxRec > 2 THEN 2 ELSE MaxRec)      \* (a push reads one record: two are plenty)
        /\ failAt \in (IF op \in {"pull", "pullcb"} THEN 0..MaxRec ELSE {0})       \* the sink's failAt-th write raises (0: never)
        /\ pc = "read" /\ pos = 1 /\ items = <<>> /\ nclse = 0 /\ outcome = "none"
\* how an operation ends
Finish(out, closes) == /\ outcome' = out /\ nclse' = nclse + (IF closes THEN 1 ELSE 0) /\ pc' = "done" /\ UNCHANGED <<op, script, failAt, pos, items>>
Raise(out) == Finish(out, IsPull)                       \* pull closes its stream in a finally; stat and list do not (as built)
Expected == IF op = "stat" THEN {"STAT"} ELSE IF op = "list" THEN {"DENT", "DONE"} ELSE IF op = "push" THEN {"OKAY"} ELSE {"DATA", "DONE"}
Terminal == IF op = "push" THEN "OKAY" ELSE "DONE"            \* the record that ends the operation successfully
FailClass == IF op = "push" THEN "PushFailedError" ELSE "AdbCommandFailureException"
Read == /\ pc = "read"
        /\ IF pos > Len(script) \/ script[pos] = "CLSE" THEN Raise("timeout")   \* nothing more arrives (silence, or the device closed the stream): the read times out
           ELSE LET r == script[pos] IN
                IF r \notin Expected THEN Raise(IF r = "FAIL" THEN FailClass ELSE "InvalidResponseError")
                ELSE IF r = Terminal THEN Finish("ret", TRUE)
                ELSE IF op = "stat" THEN /\ items' = <<pos>> /\ outcome' = "ret" /\ nclse' = nclse + 1 /\ pc' = "done" /\ UNCHANGED <<op, script, failAt, pos>>
                ELSE IF IsPull /\ failAt = Len(items) + 1 THEN Raise("OSError")      \* the local write fails: nothing of this record is kept
                ELSE /\ items' = Append(items, pos) /\ pos' = pos + 1 /\ UNCHANGED <<op, script, failAt, pc, nclse, outcome>>
Done == pc = "done" /\ UNCHANGED vars
Next == Read \/ Done
Spec == Init /\ [][Next]_vars
(* ---- what the properties demand of the design (checked in every final state) ---- *)
Going == Expected \ {Terminal}              \* records after which the operation goes on reading
FirstBad == IF \E i \in 1..Len(script) : script[i] \notin Going THEN CHOOSE i \in 1..Len(script) : script[i] \notin Going /\ \A j \in 1..(i - 1) : script[j] \in Going ELSE 0
\* C10: a FAIL that the operation gets to see surfaces as the documented exception, never as a success or a timeout
FailSurfaces == (pc = "done" /\ FirstBad # 0 /\ script[FirstBad] = "FAIL" /\ (~IsPull \/ failAt = 0 \/ failAt > FirstBad - 1) /\ op # "stat")
                  => outcome = FailClass
InvalidStatus == (pc = "done" /\ FirstBad # 0 /\ script[FirstBad] \notin {"FAIL", Terminal, "CLSE"} /\ (~IsPull \/ failAt = 0 \/ failAt > FirstBad - 1) /\ op # "stat")
                  => outcome = "InvalidResponseError"
\* C08 / C09: a normal return hands over exactly the records before the DONE, in order
ExactOnReturn == (pc = "done" /\ outcome = "ret" /\ op # "stat") => (FirstBad # 0 /\ script[FirstBad] = Terminal /\ items = [i \in 1..(FirstBad - 1) |-> i])
StatRule == (pc = "done" /\ op = "stat") => outcome = (IF script = <<>> \/ script[1] = "CLSE" THEN "timeout" ELSE IF script[1] = "STAT" THEN "ret"
                                                           ELSE IF script[1] = "FAIL" THEN "AdbCommandFailureException" ELSE "InvalidResponseError")
\* C04: a normal return closes the stream exactly once; pull closes it however it ends
ClosesOnce == pc = "done" => (nclse <= 1 /\ (outcome = "ret" => nclse = 1) /\ (IsPull => nclse = 1))
Row == pc # "done" \/ PrintT(<<"ROW", ToJson([op |-> op, script |-> script, failAt |-> failAt, outcome |-> outcome, items |-> items, nclse |-> nclse])>>)
=============================================================================
