---------------------------- MODULE AdbRecover ----------------------------
(* C12 design spec: what survives a transport failure.                                                   *)
(* One host thread runs connect / operation / close; every transport call (close, connect, bulk_write,    *)
(* bulk_read) may fail instead.  Locks are held only inside with-blocks, so an exception releases them    *)
(* (Raise); connect() closes the transport and clears the packet store first; close() clears the store.   *)
(* Packets carry the session epoch in which the device sent them.                                         *)
(* Sanity mutations of the model (not findings):  NoFinally  - an exception leaves the transport lock held *)
(*                                                NoClear    - connect() does not clear the store          *)
(*                                                StaleParams - what was derived from the peer's CNXN       *)
(*                                                  (maxdata -> chunk size) is kept until close()           *)
(* Every connection is to a peer that announces its own maxdata (devmax); the host sizes what it sends     *)
(* by hostmax, taken from the CNXN reply of the current connection.                                        *)
EXTENDS Naturals, FiniteSets, Sequences, TLC
CONSTANTS MaxFaults, MaxEpoch, NoFinally, NoClear, StaleParams
VARIABLES pc, tLock, sLock, avail, epoch, wire, store, got, faults, calls, hostmax, devmax
vars == <<pc, tLock, sLock, avail, epoch, wire, store, got, faults, calls, hostmax, devmax>>
prm == <<hostmax, devmax>>
Init == /\ pc = "idle" /\ tLock = FALSE /\ sLock = FALSE /\ avail = FALSE /\ epoch = 0 /\ wire = {} /\ store = {} /\ got = {} /\ faults = 0 /\ calls = 0 /\ hostmax = 0 /\ devmax = 1
\* an exception inside a with-block: the locks are released on the way out (unless the sanity mutation is on)
Raise == /\ tLock' = (NoFinally /\ tLock) /\ sLock' = FALSE /\ pc' = "idle"
CanFail == faults < MaxFaults
Fail == /\ CanFail /\ faults' = faults + 1
\* ---- connect(): lock; close transport; clear store; connect; CNXN; read reply
ConnectBegin == /\ pc = "idle" /\ ~tLock /\ epoch < MaxEpoch /\ tLock' = TRUE /\ avail' = FALSE /\ pc' = "c_close" /\ calls' = calls + 1
                /\ UNCHANGED <<sLock, epoch, wire, store, got, faults>> /\ UNCHANGED prm
ConnectClose == /\ pc = "c_close" /\ store' = (IF NoClear THEN store ELSE {}) /\ wire' = {} /\ pc' = "c_conn" /\ UNCHANGED <<tLock, sLock, avail, epoch, got, faults, calls>> /\ UNCHANGED prm
ConnectConn == /\ pc = "c_conn" /\ epoch' = epoch + 1 /\ pc' = "c_send" /\ devmax' \in {1, 2} /\ UNCHANGED <<tLock, sLock, avail, wire, store, got, faults, calls, hostmax>>
ConnectSend == /\ pc = "c_send" /\ wire' = wire \cup {epoch} /\ pc' = "c_read" /\ UNCHANGED <<tLock, sLock, avail, epoch, store, got, faults, calls>> /\ UNCHANGED prm
ConnectRead == /\ pc = "c_read" /\ epoch \in wire /\ wire' = wire \ {epoch} /\ avail' = TRUE /\ tLock' = FALSE /\ pc' = "idle"
               /\ hostmax' = (IF StaleParams /\ hostmax # 0 THEN hostmax ELSE devmax)
               /\ UNCHANGED <<sLock, epoch, store, got, faults, calls, devmax>>
ConnectFail == /\ pc \in {"c_close", "c_conn", "c_send", "c_read"} /\ Fail /\ Raise /\ avail' = FALSE /\ UNCHANGED <<epoch, wire, store, got, calls>> /\ UNCHANGED prm
\* ---- an operation: send under the lock; read under the lock (foreign packets are parked, own packets delivered)
OpBegin == /\ pc = "idle" /\ avail /\ ~tLock /\ tLock' = TRUE /\ pc' = "o_send" /\ calls' = calls + 1 /\ UNCHANGED <<sLock, avail, epoch, wire, store, got, faults>> /\ UNCHANGED prm
OpSend == /\ pc = "o_send" /\ wire' = wire \cup {epoch} /\ tLock' = FALSE /\ pc' = "o_lock" /\ UNCHANGED <<sLock, avail, epoch, store, got, faults, calls>> /\ UNCHANGED prm
OpLock == /\ pc = "o_lock" /\ ~tLock /\ tLock' = TRUE /\ pc' = "o_read" /\ got' = got \cup {e \in store : e # epoch} /\ store' = {} /\ UNCHANGED <<sLock, avail, epoch, wire, faults, calls>> /\ UNCHANGED prm
OpRead == /\ pc = "o_read" /\ wire # {} /\ \E e \in wire : /\ wire' = wire \ {e} /\ got' = got \cup (IF e # epoch THEN {e} ELSE {})
          /\ tLock' = FALSE /\ pc' = "idle" /\ UNCHANGED <<sLock, avail, epoch, store, faults, calls>> /\ UNCHANGED prm
\* the device's reply may also be parked instead (another stream's packet): it stays in the store
OpPark == /\ pc = "o_read" /\ wire # {} /\ \E e \in wire : /\ wire' = wire \ {e} /\ store' = store \cup {e}
          /\ UNCHANGED <<pc, tLock, sLock, avail, epoch, got, faults, calls>> /\ UNCHANGED prm
OpFail == /\ pc \in {"o_send", "o_read"} /\ Fail /\ Raise /\ UNCHANGED <<avail, epoch, wire, store, got, calls>> /\ UNCHANGED prm
\* ---- close(): lock; close transport; clear store
Close == /\ pc = "idle" /\ ~tLock /\ avail' = FALSE /\ store' = {} /\ wire' = {} /\ calls' = calls + 1 /\ hostmax' = 0 /\ UNCHANGED <<pc, tLock, sLock, epoch, got, faults, devmax>>
Next == ConnectBegin \/ ConnectClose \/ ConnectConn \/ ConnectSend \/ ConnectRead \/ ConnectFail \/ OpBegin \/ OpSend \/ OpLock \/ OpRead \/ OpPark \/ OpFail \/ Close
Spec == Init /\ [][Next]_vars
LocksFreeWhenIdle == pc = "idle" => (~tLock /\ ~sLock)
\* nothing of a broken session is ever delivered after a later connect()
CleanSession == got = {}          \* got collects only packets delivered in a later session than the one that sent them
\* a device object can always be closed and reconnected: from every idle state connect is enabled (while epochs remain)
Recoverable == (pc = "idle" /\ epoch < MaxEpoch) => ENABLED ConnectBegin
\* what the host sends is sized for the peer of the current connection
SessionParams == avail => hostmax = devmax
Bound == calls <= 6
=============================================================================
