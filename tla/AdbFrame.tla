---------------------------- MODULE AdbFrame ----------------------------
(* The ADB message frame (C02): 24-byte little-endian header cmd, arg0, arg1, data_length,          *)
(* data_check, magic followed by exactly data_length payload bytes.  Written without reference to    *)
(* adb_shell.adb_message / struct: command words are built from ASCII codes, bytes with LEBytes.     *)
EXTENDS AdbWords, FiniteSets, TLC

\* A=65 C=67 D=68 E=69 H=72 K=75 L=76 N=78 O=79 P=80 R=82 S=83 T=84 U=85 W=87 X=88 Y=89
CmdWord(c) == CASE c = "SYNC" -> Ascii4(83, 89, 78, 67)
                [] c = "CNXN" -> Ascii4(67, 78, 88, 78)
                [] c = "AUTH" -> Ascii4(65, 85, 84, 72)
                [] c = "OPEN" -> Ascii4(79, 80, 69, 78)
                [] c = "OKAY" -> Ascii4(79, 75, 65, 89)
                [] c = "CLSE" -> Ascii4(67, 76, 83, 69)
                [] c = "WRTE" -> Ascii4(87, 82, 84, 69)
                [] OTHER -> Zero
KnownCmds == {"SYNC", "CNXN", "AUTH", "OPEN", "OKAY", "CLSE", "WRTE"}

\* e: an observed host frame [cmd, cmdw, a0, a1, len, alen, check, sum, magic, mixed]
\* (cmdw/check/magic/sum as words; len = announced length, alen = payload bytes actually following;
\*  sum = byte sum of those bytes mod 2^32 computed by the observer; mixed = bytes of two writers interleaved)
FrameClause(e) ==
  IF e.cmd \notin KnownCmds \/ e.cmdw # CmdWord(e.cmd) THEN "C02.KnownCommand"
  ELSE IF e.magic # Compl(e.cmdw) THEN "C02.Magic"
  ELSE IF e.len # e.alen THEN "C02.Length"
  ELSE IF e.check # e.sum THEN "C02.Checksum"
  ELSE IF e.mixed THEN "C02.Contiguous"
  ELSE "ok"

\* the 24 header bytes a correct encoder produces
HeaderBytes(cmd, a0, a1, len, sum) ==
  LEBytes(CmdWord(cmd)) \o LEBytes(a0) \o LEBytes(a1) \o LEBytes(len) \o LEBytes(sum) \o LEBytes(Compl(CmdWord(cmd)))
\* and what a correct decoder reads back
Unpack(b) == [cmdw |-> FromLE(SubSeq(b, 1, 4)), a0 |-> FromLE(SubSeq(b, 5, 8)), a1 |-> FromLE(SubSeq(b, 9, 12)),
              len |-> FromLE(SubSeq(b, 13, 16)), check |-> FromLE(SubSeq(b, 17, 20)), magic |-> FromLE(SubSeq(b, 21, 24))]
=============================================================================
