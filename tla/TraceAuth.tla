---------------------------- MODULE TraceAuth ----------------------------
(* code->spec for C05 (and the protocol context of C17): handshake traces through AuthMon. *)
EXTENDS AuthMon, Sequences, TLCExt, Json, IOUtils
Data == JsonDeserialize(IOEnv.TRACE_FILE)
Traces == Data.traces
VARIABLES tid, l, a, done
vars == <<tid, l, a, done>>
Init == tid \in 1..Len(Traces) /\ l = 1 /\ a = AuthInit /\ done = FALSE
Step(e) ==
  CASE e.ev = "call" /\ e.api = "connect" -> AuthCall(a, e)
    [] e.ev = "atx" -> AuthTx(a, e)
    [] e.ev = "rd" -> AuthRd(a, e)
    [] e.ev = "cb" -> AuthCb(a, e)
    [] e.ev = "authwait" -> AuthWait(a, e)
    [] e.ev = "ret" /\ e.api = "connect" -> AuthRet(a, e)
    [] e.ev = "exc" /\ e.api = "connect" -> AuthExc(a, e)
    [] OTHER -> a
Next ==
  \/ /\ ~done /\ a.verdict = "ok" /\ l <= Len(Traces[tid])
     /\ a' = Step(Traces[tid][l]) /\ l' = l + 1 /\ UNCHANGED <<tid, done>>
  \/ /\ ~done /\ (a.verdict # "ok" \/ l > Len(Traces[tid]))
     /\ PrintT(<<"VERDICT", tid, l, a.verdict>>)
     /\ done' = TRUE /\ UNCHANGED <<tid, l, a>>
Spec == Init /\ [][Next]_vars
TypeOK == a.verdict \in STRING
=============================================================================
