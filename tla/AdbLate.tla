---------------------------- MODULE AdbLate ----------------------------
(* Isolation across operations in time (C01 "nothing the device wrote on another stream ... appears", C14 ids):   *)
(* one host thread runs two shell-like operations one after the other.  The first may give up (timeout) at any   *)
(* of its waits - while waiting for the OKAY of its OPEN or for data - because the device's service is slow; the *)
(* device then answers late, while the second operation is running.  Host reads follow _AdbIOManager.read: a     *)
(* packet whose ids match the reader is delivered if expected, discarded if not; any other packet is parked.     *)
(* RollbackOnTimeout is a sanity mutation of the model (the seeded change "do not burn an id on a failed OPEN"): *)
(* it must violate NoCrossTalk - this is the design-level witness of why ids are never reused while a stream may  *)
(* still be alive on the device.                                                                                  *)
EXTENDS Naturals, Sequences, TLC
CONSTANTS N1, N2,             \* number of WRITEs the device produces for operation 1 / 2
          RollbackOnTimeout
VARIABLES nextId, op, lid, rid, phase, wire, dev, parked, got, outcome
vars == <<nextId, op, lid, rid, phase, wire, dev, parked, got, outcome>>
Pkt(c, a0, a1, o, i) == [cmd |-> c, a0 |-> a0, a1 |-> a1, o |-> o, i |-> i]
Rid(o) == 10 + o
Init == /\ nextId = 0 /\ op = 0 /\ lid = <<0, 0>> /\ rid = <<0, 0>> /\ phase = "idle" /\ wire = <<>> /\ parked = {}
        /\ dev = <<[st |-> "none", left |-> 0, wait |-> FALSE], [st |-> "none", left |-> 0, wait |-> FALSE]>>
        /\ got = <<>> /\ outcome = <<"none", "none">>
\* ---- host
Open == /\ phase = "idle" /\ op < 2 /\ op' = op + 1 /\ nextId' = nextId + 1
        /\ lid' = [lid EXCEPT ![op + 1] = nextId + 1] /\ phase' = "openwait" /\ got' = <<>>
        /\ dev' = [dev EXCEPT ![op + 1] = [st |-> "sendOkay", left |-> IF op = 0 THEN N1 ELSE N2, wait |-> FALSE]]
        /\ UNCHANGED <<rid, wire, parked, outcome>>
Mine(p) == p.a1 = lid[op] /\ (rid[op] = 0 \/ p.a0 = rid[op])
Read == /\ phase \in {"openwait", "datawait"} /\ wire # <<>>
        /\ LET p == Head(wire) IN
           /\ wire' = Tail(wire)
           /\ IF ~Mine(p) THEN parked' = parked \cup {p} /\ UNCHANGED <<rid, phase, got, outcome, dev>>
              ELSE /\ parked' = parked
                   /\ IF phase = "openwait" THEN
                         IF p.cmd = "OKAY" THEN rid' = [rid EXCEPT ![op] = p.a0] /\ phase' = "datawait" /\ UNCHANGED <<got, outcome, dev>>
                         ELSE UNCHANGED <<rid, phase, got, outcome, dev>>                       \* unexpected: discarded
                      ELSE IF p.cmd = "WRTE" THEN /\ got' = Append(got, <<p.o, p.i>>)           \* delivered and acknowledged: the device may write again
                                                  /\ dev' = [dev EXCEPT ![p.o].wait = FALSE] /\ UNCHANGED <<rid, phase, outcome>>
                      ELSE IF p.cmd = "CLSE" THEN phase' = "idle" /\ outcome' = [outcome EXCEPT ![op] = "done"] /\ UNCHANGED <<rid, got, dev>>
                      ELSE UNCHANGED <<rid, phase, got, outcome, dev>>
        /\ UNCHANGED <<nextId, op, lid>>
\* the operation gives up: nothing arrived in time (only the first operation's service is slow)
GiveUp == /\ op = 1 /\ phase \in {"openwait", "datawait"} /\ wire = <<>>
          /\ phase' = "idle" /\ outcome' = [outcome EXCEPT ![1] = "timeout"]
          /\ nextId' = IF RollbackOnTimeout /\ phase = "openwait" THEN nextId - 1 ELSE nextId
          /\ UNCHANGED <<op, lid, rid, wire, dev, parked, got>>
\* ---- device: a stream writes OKAY, then its WRITEs one at a time (awaiting the host's OKAY), then CLSE - at any time, i.e. possibly late
DevSend(o) == /\ dev[o].st # "none"
              /\ \/ /\ dev[o].st = "sendOkay" /\ wire' = Append(wire, Pkt("OKAY", Rid(o), lid[o], o, 0)) /\ dev' = [dev EXCEPT ![o].st = "data"]
                 \/ /\ dev[o].st = "data" /\ ~dev[o].wait /\ dev[o].left > 0
                    /\ wire' = Append(wire, Pkt("WRTE", Rid(o), lid[o], o, (IF o = 1 THEN N1 ELSE N2) - dev[o].left + 1))
                    /\ dev' = [dev EXCEPT ![o].left = @ - 1, ![o].wait = TRUE]
                 \/ /\ dev[o].st = "data" /\ ~dev[o].wait /\ dev[o].left = 0 /\ wire' = Append(wire, Pkt("CLSE", Rid(o), lid[o], o, 0)) /\ dev' = [dev EXCEPT ![o].st = "closed"]
              /\ UNCHANGED <<nextId, op, lid, rid, phase, parked, got, outcome>>
Finished == op = 2 /\ phase = "idle" /\ UNCHANGED vars
Next == Open \/ Read \/ GiveUp \/ DevSend(1) \/ DevSend(2) \/ Finished
Spec == Init /\ [][Next]_vars
\* everything delivered to the running operation was written by the device on that operation's own stream, in order
NoCrossTalk == \A i \in 1..Len(got) : got[i] = <<op, i>>
\* an operation that ends normally got everything the device wrote on its stream
CompleteWhenDone == \A o \in 1..2 : (outcome[o] = "done" /\ op = o) => Len(got) = (IF o = 1 THEN N1 ELSE N2)
\* two streams that may both still be alive on the device never share a local id
UniqueIds == (op = 2) => lid[1] # lid[2]
=============================================================================
