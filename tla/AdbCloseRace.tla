---------------------------- MODULE AdbCloseRace ----------------------------
(* C13 under concurrency: close() called by one thread / task while others are in the middle of operations   *)
(* or start new ones.  Sequentially AdbApi says all there is to say; with several actors the question is     *)
(* WHEN the object stops accepting operations.  As built:                                                    *)
(*   close():      _available = False            (first statement, no lock)                                  *)
(*                 with transport_lock:  transport.close(); store.clear_all()                                *)
(*   operation():  if not available: raise AdbConnectionError      (first statement, no lock)                *)
(*                 with transport_lock:  write OPEN ... (several lock sections, reads that may wait long)    *)
(* so from the moment close() is CALLED every operation that is started raises AdbConnectionError and puts   *)
(* nothing on the wire, although close() itself may still be queued behind a reader that holds the lock.     *)
(* The design is judged by the Layer-A monitor (clauses C13.NothingSentWhenClosed / C13.RaisesWhenClosed of  *)
(* AdbMon), the same operators TraceEnv applies to the schedules explored on the real code.  The operations   *)
(* are named "reboot" for the monitor: an API without a stream contract of its own, so that only the C13      *)
(* clauses speak.  TLC's deadlock check shows that close() and the operations never block each other for good. *)
(*   sanity mutation FlagLast (seeded change C13-w7-c13-m3): the flag is cleared after the transport was     *)
(*   closed ("even if closing fails") - sequentially indistinguishable, violates both clauses here.          *)
EXTENDS AdbMon, Naturals
CONSTANTS Ops,          \* threads that run operations
          Reps,         \* how many operations each of them runs in a row
          Sections,     \* lock sections per operation (write OPEN, read OKAY, ...)
          FlagLast      \* sanity mutation
Closer == "closer"
VARIABLES avail, tlock, tclosed, pc, left, sect, mon
vars == <<avail, tlock, tclosed, pc, left, sect, mon>>
Threads == Ops \cup {Closer}
Init == /\ avail = TRUE /\ tlock = "free" /\ tclosed = FALSE
        /\ pc = [t \in Threads |-> "idle"] /\ left = [t \in Ops |-> Reps] /\ sect = [t \in Ops |-> 0]
        /\ mon = MonInit
Ev(t, api) == [t |-> t, api |-> api, decode |-> FALSE]
(* ---- an operation ---- *)
Call(t) == /\ t \in Ops /\ pc[t] = "idle" /\ left[t] > 0
           /\ left' = [left EXCEPT ![t] = @ - 1] /\ sect' = [sect EXCEPT ![t] = 0]
           /\ mon' = MonCall(mon, Ev(t, "reboot"))
           \* the availability check is the first statement: no other thread runs between the call and the check
           /\ IF avail THEN pc' = [pc EXCEPT ![t] = "want"] ELSE pc' = [pc EXCEPT ![t] = "refused"]
           /\ UNCHANGED <<avail, tlock, tclosed>>
Refused(t) == /\ pc[t] = "refused" /\ pc' = [pc EXCEPT ![t] = "idle"]
              /\ mon' = MonExc(mon, [t |-> t, api |-> "reboot", cls |-> "AdbConnectionError"])
              /\ UNCHANGED <<avail, tlock, tclosed, left, sect>>
Acquire(t) == /\ t \in Ops /\ pc[t] = "want" /\ tlock = "free" /\ tlock' = t /\ pc' = [pc EXCEPT ![t] = "in"]
              /\ UNCHANGED <<avail, tclosed, left, sect, mon>>
\* inside a lock section: a packet is written (a tx event) - or the transport turns out to be closed and raises
Section(t) == /\ t \in Ops /\ pc[t] = "in" /\ tlock = t /\ tlock' = "free"
              /\ IF tclosed
                 THEN /\ pc' = [pc EXCEPT ![t] = "idle"] /\ UNCHANGED sect
                      /\ mon' = MonExc(mon, [t |-> t, api |-> "reboot", cls |-> "TransportError"])
                 ELSE /\ sect' = [sect EXCEPT ![t] = @ + 1]
                      /\ IF sect[t] + 1 = Sections
                         THEN /\ pc' = [pc EXCEPT ![t] = "idle"]             \* the last packet; then the call returns
                              /\ mon' = MonRet(MonTxAllowed(mon, [t |-> t]), [t |-> t, api |-> "reboot"])
                         ELSE /\ pc' = [pc EXCEPT ![t] = "want"] /\ mon' = MonTxAllowed(mon, [t |-> t])
              /\ UNCHANGED <<avail, tclosed, left>>
(* ---- close() ---- *)
CallClose == /\ pc[Closer] = "idle" /\ mon' = MonCall(mon, Ev(Closer, "close"))
             /\ avail' = (IF FlagLast THEN avail ELSE FALSE)
             /\ pc' = [pc EXCEPT ![Closer] = "want"] /\ UNCHANGED <<tlock, tclosed, left, sect>>
AcquireClose == /\ pc[Closer] = "want" /\ tlock = "free" /\ tlock' = Closer /\ pc' = [pc EXCEPT ![Closer] = "in"]
                /\ UNCHANGED <<avail, tclosed, left, sect, mon>>
DoClose == /\ pc[Closer] = "in" /\ tclosed' = TRUE /\ tlock' = "free" /\ avail' = FALSE
           /\ pc' = [pc EXCEPT ![Closer] = "closed"] /\ UNCHANGED <<left, sect, mon>>
Finished == (\A t \in Ops : pc[t] = "idle" /\ left[t] = 0) /\ pc[Closer] = "closed" /\ UNCHANGED vars
Next == (\E t \in Ops : Call(t) \/ Refused(t) \/ Acquire(t) \/ Section(t)) \/ CallClose \/ AcquireClose \/ DoClose \/ Finished
Spec == Init /\ [][Next]_vars
(* ---- properties ---- *)
MonitorOk == mon.verdict = "ok"
\* the same in the spec's own terms: a thread that was refused never holds or wants the lock; nothing is written once close() was called
\* by an operation that started afterwards
RefusedTouchesNothing == \A t \in Ops : pc[t] = "refused" => tlock # t
LockDiscipline == tlock \in Threads \cup {"free"} /\ (tlock # "free" => pc[tlock] = "in")
=============================================================================
