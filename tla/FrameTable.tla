---------------------------- MODULE FrameTable ----------------------------
(* C02, spec->code: the 24 header bytes of every (command, arg0, arg1, payload class) over the       *)
(* boundary values of 32-bit arithmetic, computed by the TLA+ encoder of AdbFrame (explicit           *)
(* little-endian limb arithmetic, no struct.pack).  harness/checks/c02.py compares each row with     *)
(* AdbMessage.pack()/unpack()/checksum() byte for byte.                                               *)
EXTENDS AdbFrame, Json
Bnd == {<<0, 0>>, <<0, 1>>, <<0, 32767>>, <<0, 32768>>, <<0, 65535>>, <<1, 0>>, <<32767, 65535>>, <<32768, 0>>, <<65535, 65535>>}
\* payload classes: fill byte, length (the byte sum is fill * length: up to 1 MiB of 0xFF = 267386880 < 2^31)
PClasses == {<<0, 0>>, <<0, 1>>, <<128, 1>>, <<255, 3>>, <<255, 257>>, <<255, 258>>, <<255, 70000>>, <<255, 1048576>>, <<1, 1048576>>}
VARIABLE row
Init == row \in [cmd : KnownCmds, a0 : Bnd, a1 : Bnd, pc : PClasses]
Next == UNCHANGED row
Spec == Init /\ [][Next]_row
Hdr(r) == HeaderBytes(r.cmd, r.a0, r.a1, W(r.pc[2]), W(r.pc[1] * r.pc[2]))
Row == PrintT(<<"ROW", ToJson([cmd |-> row.cmd, a0 |-> row.a0, a1 |-> row.a1, fill |-> row.pc[1], n |-> row.pc[2], hdr |-> Hdr(row)])>>)
\* properties of the encoder/decoder pair of the specification itself
RoundTrip == LET u == Unpack(Hdr(row)) IN
               /\ u.cmdw = CmdWord(row.cmd) /\ u.a0 = row.a0 /\ u.a1 = row.a1 /\ u.len = W(row.pc[2])
               /\ u.check = W(row.pc[1] * row.pc[2]) /\ u.magic = Compl(u.cmdw)
WellFormed == FrameClause([cmd |-> row.cmd, cmdw |-> Unpack(Hdr(row)).cmdw, magic |-> Unpack(Hdr(row)).magic, len |-> row.pc[2], alen |-> row.pc[2],
                           check |-> Unpack(Hdr(row)).check, sum |-> W(row.pc[1] * row.pc[2]), mixed |-> FALSE]) = "ok"
=============================================================================
