---------------------------- MODULE AdbHost ----------------------------
(* Layer B: the host algorithm of adb_shell as built, one action per critical section, composed with *)
(* a model of adbd and the two packet pipes, and observed by the Layer-A monitor AdbMon.              *)
(*                                                                                                   *)
(*   AdbDevice._open            Alloc (id lock section), SendOpen, then read(expect OKAY)            *)
(*   _AdbIOManager.send         Send*   (transport lock section: one whole packet)                   *)
(*   _AdbIOManager.read         Rd1   store section outside the transport lock                       *)
(*                              Rd23  take the transport lock + store section under both locks       *)
(*                              Rd4   one packet off the wire, classify (mine/expected/foreign),      *)
(*                                    put / clear / deliver, release the transport lock              *)
(*   _read_until                Ack   (OKAY for a delivered WRTE)                                    *)
(*   _read_until_close, _clse   SendClseFinal / SendClse + wait for CLSE                             *)
(*   _filesync_flush            SendWrte + wait for OKAY                                             *)
(*                                                                                                   *)
(* Every public operation is one of three stream shapes, given per thread by Prog[t]:                *)
(*   <<"shell">>                          shell, exec_out, root, streaming_shell                     *)
(*   <<"flush", ..., "readw", ..., "clse">>   list, stat, pull, push                                 *)
(*   << >>                                reboot (open only)                                         *)
(*                                                                                                   *)
(* Deviation actions (as-built behaviour that the intended design does not have):                    *)
(*   DEV_K1  _AdbPacketStore.put drops a CLSE for a pair without an entry (DropLiveClse) ...         *)
(*   REGISTRY  ... unless the pair was marked live: the repair of finding K1 as built - read() marks *)
(*           a stream live when its owner reads one of its packets off the wire, clear() unmarks it  *)
(*   DEV_F5  _filesync_flush waits for OKAY only: a WRTE of the stream met meanwhile is discarded    *)
(*           and never acknowledged (DiscardWrteWhileAwaitingOkay)                                   *)
EXTENDS AdbMon, Json

CONSTANTS Threads,      \* set of thread names (strings)
          Prog,         \* [Threads -> Seq(step)]
          Replies,      \* [Threads -> Seq(Seq(tag))]: shell: Replies[t][1] = chunks written before the device closes;
                        \*   sync: Replies[t][j] = payload tags the service writes after consuming host WRITE j
          DEV_K1, DEV_F5, REGISTRY,
          RidBase,      \* remote id of stream l is RidBase + l
          GIVEUP        \* threads whose wait may time out (a slow device): they raise, abandon their stream and never come back to it

NoPkt == [cmd |-> "none", a0 |-> 0, a1 |-> 0, d |-> 0]
Pkt(c, a0, a1, d) == [cmd |-> c, a0 |-> a0, a1 |-> a1, d |-> d]
Rid(l) == RidBase + l

VARIABLES th,       \* [Threads -> [pc, ip, lid, rid, wait, buf, got, cur]]
          nextId, tLock, store, live, d2h, h2d, dev, mon, act
vars == <<th, nextId, tLock, store, live, d2h, h2d, dev, mon, act>>

IsShell(t) == Prog[t] # <<>> /\ Prog[t][1] = "shell"
ApiOf(t) == IF Prog[t] = <<>> THEN "reboot" ELSE IF IsShell(t) THEN "shell" ELSE "stat"

Init == /\ th = [t \in Threads |-> [pc |-> "alloc", ip |-> 1, lid |-> 0, rid |-> 0, wait |-> "open", buf |-> 0, got |-> <<>>, cur |-> NoPkt]]
        /\ nextId = 0 /\ tLock = "free" /\ store = <<>> /\ live = {} /\ d2h = <<>> /\ h2d = <<>> /\ dev = <<>>
        /\ mon = MonInit /\ act = [who |-> "init", what |-> "init", l |-> 0]

A(who, what) == act' = [who |-> who, what |-> what, l |-> 0]
AD(what, l) == act' = [who |-> "dev", what |-> what, l |-> l]

(* ---------------------------------------------------------------- program counter resolution *)
\* where a thread goes once step ip is the next thing to do (no shared state is touched in between)
RECURSIVE Resolve(_, _, _)
Resolve(prog, ip, buf) ==
  IF ip > Len(prog) THEN [pc |-> "ret", ip |-> ip, buf |-> buf, wait |-> "none"]
  ELSE CASE prog[ip] = "shell" -> [pc |-> "rd1", ip |-> ip, buf |-> buf, wait |-> "shell"]
         [] prog[ip] = "flush" -> [pc |-> "sendWrte", ip |-> ip, buf |-> buf, wait |-> "none"]
         [] prog[ip] = "readw" -> IF buf > 0 THEN Resolve(prog, ip + 1, buf - 1) ELSE [pc |-> "rd1", ip |-> ip, buf |-> buf, wait |-> "readw"]
         [] prog[ip] = "clse" -> [pc |-> "sendClse", ip |-> ip, buf |-> buf, wait |-> "none"]
         [] prog[ip] = "raise" -> [pc |-> "raise", ip |-> ip, buf |-> buf, wait |-> "none"]    \* the call ends with an exception (push: FAIL status)
Goto(t, ip, buf) == LET r == Resolve(Prog[t], ip, buf) IN [th[t] EXCEPT !.pc = r.pc, !.ip = r.ip, !.buf = r.buf, !.wait = r.wait]

Expected(t) == CASE th[t].wait = "open" -> {"OKAY"}
                 [] th[t].wait = "shell" -> {"CLSE", "WRTE"}
                 [] th[t].wait = "flushwait" -> IF DEV_F5 THEN {"OKAY"} ELSE {"OKAY", "WRTE"}
                 [] th[t].wait = "readw" -> {"WRTE"}
                 [] th[t].wait = "clsewait" -> {"CLSE"}
                 [] OTHER -> {}
\* args_match: arg1 is my local id and arg0 my remote id once known (allow_zeros never matters: ids are non-zero here)
Match(t, p) == p.a1 = th[t].lid /\ (th[t].rid = 0 \/ p.a0 = th[t].rid)
Pending(t) == {k \in DOMAIN store : store[k] # <<>> /\ k[2] = th[t].lid /\ (th[t].rid = 0 \/ k[1] = th[t].rid)}
Remove(f, k) == [x \in DOMAIN f \ {k} |-> f[x]]
Put(s, p) == LET k == <<p.a0, p.a1>> IN
   IF k \in DOMAIN s THEN [s EXCEPT ![k] = Append(@, p)]
   ELSE IF p.cmd = "CLSE" /\ DEV_K1 /\ ~(REGISTRY /\ k \in live) THEN s          \* DropLiveClse (kept for a live pair when the registry exists)
   ELSE [x \in DOMAIN s \cup {k} |-> IF x = k THEN <<p>> ELSE s[x]]

(* the thread received an expected packet p while waiting in mode th[t].wait *)
Recv(t, p) ==
  LET w == th[t].wait me == th[t] IN
  CASE w = "open" -> [Goto(t, me.ip, me.buf) EXCEPT !.rid = p.a0]
    [] w = "shell" /\ p.cmd = "WRTE" -> [me EXCEPT !.pc = "ack", !.cur = p]
    [] w = "shell" /\ p.cmd = "CLSE" -> [me EXCEPT !.pc = "sendClseFinal"]
    [] w = "flushwait" /\ p.cmd = "OKAY" -> Goto(t, me.ip + 1, me.buf)
    [] w = "flushwait" /\ p.cmd = "WRTE" -> [me EXCEPT !.pc = "ack", !.cur = p]       \* intended design: acknowledge and buffer
    [] w = "readw" -> [me EXCEPT !.pc = "ack", !.cur = p]
    [] w = "clsewait" -> Goto(t, me.ip + 1, me.buf)

\* store section of read(): pop my packets until an expected one; the others are discarded.  get() of a CLSE
\* deletes the whole entry (whether or not CLSE was expected), which also ends the loop.
RECURSIVE Drain(_, _)
Drain(q, exp) == IF q = <<>> THEN [p |-> NoPkt, rest |-> <<>>, gone |-> FALSE]
                 ELSE IF Head(q).cmd = "CLSE" THEN [p |-> IF "CLSE" \in exp THEN Head(q) ELSE NoPkt, rest |-> <<>>, gone |-> TRUE]
                 ELSE IF Head(q).cmd \in exp THEN [p |-> Head(q), rest |-> Tail(q), gone |-> FALSE]
                 ELSE Drain(Tail(q), exp)
\* found: continue as Recv says (releasing the transport lock if held: the return leaves the with-block);
\* nothing expected found: go on to the next phase of read() (`onEmpty`), keeping/taking the transport lock as `lockAfter` says
TakeFrom(t, k, onEmpty, lockAfter) ==
   LET r == Drain(store[k], Expected(t)) IN
   /\ store' = IF r.gone THEN Remove(store, k) ELSE [store EXCEPT ![k] = r.rest]
   /\ live' = IF r.gone THEN live \ {k} ELSE live
   /\ IF r.p.cmd = "none" THEN th' = [th EXCEPT ![t].pc = onEmpty] /\ tLock' = lockAfter
      ELSE th' = [th EXCEPT ![t] = Recv(t, r.p)] /\ tLock' = tLock

(* ---------------------------------------------------------------- host actions *)
Alloc(t) == /\ th[t].pc = "alloc" /\ nextId' = nextId + 1
            /\ th' = [th EXCEPT ![t].lid = nextId + 1, ![t].pc = "sendOpen"]
            /\ mon' = MonCall(mon, [t |-> t, api |-> ApiOf(t), decode |-> FALSE]) /\ A(t, "Alloc")
            /\ UNCHANGED <<tLock, store, live, d2h, h2d, dev>>

HostSend(t, c, nextme) ==
   LET me == th[t] p == Pkt(c, me.lid, IF c = "OPEN" THEN 0 ELSE me.rid, 0) IN
   /\ tLock = "free" /\ h2d' = Append(h2d, p) /\ th' = [th EXCEPT ![t] = nextme]
   /\ mon' = MonStreamTx(mon, [t |-> t, cmd |-> c, a0 |-> W(p.a0), a1 |-> W(p.a1), len |-> 1, nul |-> TRUE])
   /\ A(t, "Send") /\ UNCHANGED <<nextId, tLock, store, live, d2h, dev>>

SendOpen(t) == th[t].pc = "sendOpen" /\ HostSend(t, "OPEN", IF Prog[t] = <<>> THEN [th[t] EXCEPT !.pc = "rd1", !.wait = "open"] ELSE [th[t] EXCEPT !.pc = "rd1", !.wait = "open"])
SendWrte(t) == th[t].pc = "sendWrte" /\ HostSend(t, "WRTE", [th[t] EXCEPT !.pc = "rd1", !.wait = "flushwait"])
SendClse(t) == th[t].pc = "sendClse" /\ HostSend(t, "CLSE", [th[t] EXCEPT !.pc = "rd1", !.wait = "clsewait"])
SendClseFinal(t) == th[t].pc = "sendClseFinal" /\ HostSend(t, "CLSE", [th[t] EXCEPT !.pc = "ret", !.wait = "none"])
\* acknowledge the delivered WRTE; in shell and flushwait mode keep reading, in readw mode the step is complete
Ack(t) == /\ th[t].pc = "ack"
          /\ LET me == [th[t] EXCEPT !.got = Append(@, th[t].cur.d)] IN
             HostSend(t, "OKAY", IF me.wait = "readw" THEN [Goto(t, me.ip + 1, me.buf) EXCEPT !.got = me.got]
                                 ELSE IF me.wait = "flushwait" THEN [me EXCEPT !.pc = "rd1", !.buf = @ + 1]
                                 ELSE [me EXCEPT !.pc = "rd1"])

Rd1(t) == /\ th[t].pc = "rd1" /\ A(t, "Rd1")
          /\ \/ \E k \in Pending(t) : TakeFrom(t, k, "rd23", tLock)
             \/ /\ Pending(t) = {} /\ th' = [th EXCEPT ![t].pc = "rd23"] /\ UNCHANGED <<store, live, tLock>>
          /\ UNCHANGED <<nextId, d2h, h2d, dev, mon>>
Rd23(t) == /\ th[t].pc = "rd23" /\ tLock = "free" /\ A(t, "Rd23")
           /\ \/ \E k \in Pending(t) : TakeFrom(t, k, "rd4", t)
              \/ /\ Pending(t) = {} /\ th' = [th EXCEPT ![t].pc = "rd4"] /\ tLock' = t /\ UNCHANGED <<store, live>>
           /\ UNCHANGED <<nextId, d2h, h2d, dev, mon>>
Rd4(t) == /\ th[t].pc = "rd4" /\ d2h # <<>> /\ A(t, "Rd4")
          /\ LET p == Head(d2h) IN
             /\ d2h' = Tail(d2h) /\ tLock' = "free"
             /\ mon' = MonRd(mon, [t |-> t, cmd |-> p.cmd, a0 |-> W(p.a0), a1 |-> W(p.a1)])
             /\ IF ~Match(t, p) THEN store' = Put(store, p) /\ th' = [th EXCEPT ![t].pc = "rd23"] /\ UNCHANGED live
                ELSE /\ store' = IF p.cmd = "CLSE" /\ <<p.a0, p.a1>> \in DOMAIN store THEN Remove(store, <<p.a0, p.a1>>) ELSE store
                     /\ live' = IF ~REGISTRY THEN live ELSE IF p.cmd = "CLSE" THEN live \ {<<p.a0, p.a1>>} ELSE live \cup {<<p.a0, p.a1>>}
                     /\ th' = [th EXCEPT ![t] = IF p.cmd \in Expected(t) THEN Recv(t, p) ELSE [@ EXCEPT !.pc = "rd23"]]   \* unexpected: discarded
          /\ UNCHANGED <<nextId, h2d, dev>>
\* the public call returns
Return(t) == /\ th[t].pc = "ret" /\ th' = [th EXCEPT ![t].pc = "done"] /\ A(t, "Return")
             /\ mon' = MonRet(mon, [t |-> t, api |-> ApiOf(t), mode |-> "units",
                                    units |-> [i \in 1..Len(th[t].got) |-> <<W(th[t].lid), th[t].got[i]>>]])
             /\ UNCHANGED <<nextId, tLock, store, live, d2h, h2d, dev>>

\* the public call raises (e.g. PushFailedError after a FAIL status): no CLSE is sent, the stream is abandoned
Raise(t) == /\ th[t].pc = "raise" /\ th' = [th EXCEPT ![t].pc = "done"] /\ A(t, "Return")
            /\ mon' = MonExc(mon, [t |-> t, api |-> ApiOf(t), cls |-> "PushFailedError"])
            /\ UNCHANGED <<nextId, tLock, store, live, d2h, h2d, dev>>

\* a wait times out: the transport read of a thread that holds the lock finds nothing in time, or the deadline check after a
\* packet of another stream fails.  The call raises AdbTimeoutError / the transport's timeout error; nothing is sent; the stream is
\* left as it is (its later packets are parked or discarded by whoever reads them).
GiveUp(t) == /\ t \in GIVEUP /\ th[t].pc \in {"rd23", "rd4"} /\ (th[t].pc = "rd4" => d2h = <<>>)
             /\ th' = [th EXCEPT ![t].pc = "done", ![t].wait = "gaveup"]
             /\ tLock' = IF tLock = t THEN "free" ELSE tLock
             /\ A(t, "GiveUp")
             /\ mon' = MonExc(mon, [t |-> t, api |-> ApiOf(t), cls |-> "AdbTimeoutError"])
             /\ UNCHANGED <<nextId, store, live, d2h, h2d, dev>>

(* ---------------------------------------------------------------- the device (adbd) *)
Owner(l) == CHOOSE t \in Threads : th[t].lid = l
\* service output is tagged with the number of the host WRITE that triggered it: adbd sends the OKAY for WRITE k
\* before the service can answer WRITE k, but the answer may overtake the OKAY of any later WRITE
Tag(tags, k) == [i \in 1..Len(tags) |-> <<tags[i], k>>]
DevRecv == /\ h2d # <<>> /\ AD("recv", 0)
           /\ LET p == Head(h2d) l == p.a0 t == Owner(l) IN
              /\ h2d' = Tail(h2d)
              /\ CASE p.cmd = "OPEN" ->
                        dev' = [x \in DOMAIN dev \cup {l} |-> IF x = l THEN [st |-> "sendOkay", nwr |-> 0, okq |-> 0, wait |-> FALSE, sentn |-> 0,
                                                                            outq |-> IF IsShell(t) THEN Tag(Replies[t][1], 0) ELSE <<>>] ELSE dev[x]]
                   [] p.cmd = "OKAY" -> dev' = [dev EXCEPT ![l].wait = FALSE]
                   [] p.cmd = "WRTE" -> dev' = [dev EXCEPT ![l].nwr = @ + 1, ![l].okq = @ + 1,
                                                          ![l].outq = @ \o (IF dev[l].nwr + 1 <= Len(Replies[t]) THEN Tag(Replies[t][dev[l].nwr + 1], dev[l].nwr + 1) ELSE <<>>)]
                   [] p.cmd = "CLSE" -> dev' = [dev EXCEPT ![l].st = IF @ = "closing" THEN "closed" ELSE "sendClse"]
           /\ UNCHANGED <<th, nextId, tLock, store, live, d2h, mon>>
DevPut(l, c, d) == /\ d2h' = Append(d2h, Pkt(c, Rid(l), l, d))
                   /\ mon' = MonDv(mon, [cmd |-> c, a0 |-> W(Rid(l)), a1 |-> W(l), syms |-> <<>>])
DevSend(l) == /\ l \in DOMAIN dev
              /\ LET s == dev[l] t == Owner(l) IN
                 \/ /\ s.st = "sendOkay" /\ DevPut(l, "OKAY", 0) /\ dev' = [dev EXCEPT ![l].st = "open"] /\ AD("okay", l)
                 \/ /\ s.st = "open" /\ s.okq > 0 /\ DevPut(l, "OKAY", 0) /\ dev' = [dev EXCEPT ![l].okq = @ - 1] /\ AD("okay", l)
                 \/ /\ s.st = "open" /\ ~s.wait /\ s.outq # <<>> /\ Head(s.outq)[2] <= s.nwr - s.okq
                    /\ DevPut(l, "WRTE", s.sentn + 1) /\ dev' = [dev EXCEPT ![l].outq = Tail(@), ![l].wait = TRUE, ![l].sentn = @ + 1] /\ AD("data", l)
                 \/ /\ s.st = "open" /\ IsShell(t) /\ ~s.wait /\ s.outq = <<>>
                    /\ DevPut(l, "CLSE", 0) /\ dev' = [dev EXCEPT ![l].st = "closing"] /\ AD("data", l)
                 \/ /\ s.st = "sendClse" /\ DevPut(l, "CLSE", 0) /\ dev' = [dev EXCEPT ![l].st = "closed"] /\ AD("okay", l)
              /\ UNCHANGED <<th, nextId, tLock, store, live, h2d>>

HostNext == \E t \in Threads : Alloc(t) \/ SendOpen(t) \/ SendWrte(t) \/ SendClse(t) \/ SendClseFinal(t) \/ Ack(t) \/ Rd1(t) \/ Rd23(t) \/ Rd4(t) \/ Return(t) \/ Raise(t) \/ GiveUp(t)
DevNext == DevRecv \/ \E l \in 1..Cardinality(Threads) : DevSend(l)
\* a thread whose program is open-only is finished once the OKAY arrived (Resolve gives "ret"); a finished system stutters
AllDone == \A t \in Threads : th[t].pc = "done"
Terminated == AllDone /\ UNCHANGED vars
Next == HostNext \/ DevNext \/ Terminated
Spec == Init /\ [][Next]_vars
FairSpec == Spec /\ \A t \in Threads : WF_vars(Alloc(t) \/ SendOpen(t) \/ SendWrte(t) \/ SendClse(t) \/ SendClseFinal(t) \/ Ack(t) \/ Rd1(t) \/ Rd23(t) \/ Rd4(t) \/ Return(t) \/ Raise(t))
                 /\ WF_vars(DevNext)

(* ---------------------------------------------------------------- properties *)
MonitorOK == mon.verdict = "ok"                                   \* C01 content, C04 protocol, C14 ids (Layer A clauses)
RECURSIVE FlatLen(_)
FlatLen(ss) == IF ss = <<>> THEN 0 ELSE Len(Head(ss)) + FlatLen(Tail(ss))
\* C06: each operation gets exactly the payloads addressed to its stream, in order (what it would get alone)
Complete == \A t \in Threads : (th[t].pc = "done" /\ th[t].wait # "gaveup") => th[t].got = [i \in 1..FlatLen(Replies[t]) |-> i]
\* an operation that did not give up is not held up for ever by one that did: whenever every thread is done or waiting, someone can move
GaveUpOnly == \A t \in Threads : th[t].wait = "gaveup" => t \in GIVEUP
NoCrossTalk == \A t \in Threads : \A i \in 1..Len(th[t].got) : th[t].got[i] = i
\* C06: no schedule deadlocks: some thread is always able to move until all are done (the stutter step stands for "all returned")
NoStuck == AllDone \/ ENABLED (HostNext \/ DevNext)
\* C12 (fault-free part): a thread outside any critical section holds no lock
LockDiscipline == tLock = "free" \/ (tLock \in Threads /\ th[tLock].pc = "rd4")
EventuallyDone == <>AllDone

(* ---------------------------------------------------------------- edge stream for the transition tour *)
P(p) == [cmd |-> p.cmd, a0 |-> p.a0, a1 |-> p.a1, d |-> p.d]
PS(w) == [i \in 1..Len(w) |-> P(w[i])]
St(th_, nid, tl, st, lv, w1, w2, dv) ==
   [th |-> [t \in Threads |-> [pc |-> th_[t].pc, ip |-> th_[t].ip, lid |-> th_[t].lid, rid |-> th_[t].rid, got |-> th_[t].got, wait |-> th_[t].wait, buf |-> th_[t].buf, cur |-> P(th_[t].cur)]],
    nid |-> nid, tlock |-> tl,
    store |-> {[a0 |-> k[1], a1 |-> k[2], q |-> PS(st[k])] : k \in DOMAIN st},
    live |-> {[a0 |-> k[1], a1 |-> k[2]] : k \in lv},
    d2h |-> PS(w1), h2d |-> PS(w2),
    dev |-> {[l |-> l, st |-> dv[l].st, okq |-> dv[l].okq, wait |-> dv[l].wait, outq |-> Len(dv[l].outq), nwr |-> dv[l].nwr, sentn |-> dv[l].sentn] : l \in DOMAIN dv}]
View == <<th, nextId, tLock, store, live, d2h, h2d, dev, mon>>
EmitEdge == act'.who = "init" \/ PrintT(<<"EDGE", ToJson([from |-> St(th, nextId, tLock, store, live, d2h, h2d, dev), act |-> act',
                                                        to |-> St(th', nextId', tLock', store', live', d2h', h2d', dev')])>>)
=============================================================================
