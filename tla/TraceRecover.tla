---------------------------- MODULE TraceRecover ----------------------------
(* code->spec for C12: one trace per injected fault (or pair): the faulted operation, close(), connect(), replay. *)
EXTENDS Naturals, Sequences, TLC, TLCExt, Json, IOUtils
Data == JsonDeserialize(IOEnv.TRACE_FILE)
Traces == Data.traces
VARIABLES tid, l, verdict, done, phase
vars == <<tid, l, verdict, done, phase>>
Init == tid \in 1..Len(Traces) /\ l = 1 /\ verdict = "ok" /\ done = FALSE /\ phase = "run"
Clause(e) ==
  CASE e.ev = "op" -> IF ~e.locksFree THEN "C12.LocksFreeWhenIdle"
                      ELSE IF e.outcome = "wrong" THEN (IF phase = "replay" THEN "C12.CleanSession" ELSE "C12.NeverWrong")
                      ELSE IF e.outcome = "hang" THEN "C12.NoHang"
                      ELSE IF phase = "replay" /\ e.outcome # "same" /\ ~e.faulted THEN "C12.CleanSession"
                      ELSE "ok"
    [] e.ev = "close" -> IF ~e.ok THEN "C12.CloseCompletes" ELSE IF ~e.locksFree THEN "C12.LocksFreeWhenIdle" ELSE IF e.avail THEN "C12.CloseCompletes" ELSE "ok"
    [] e.ev = "reconnect" -> IF ~e.locksFree THEN "C12.LocksFreeWhenIdle" ELSE IF ~e.faulted /\ (~e.ok \/ ~e.avail) THEN "C12.ReconnectWorks"
                             ELSE IF ~e.ok /\ e.avail THEN "C12.RaisedLeavesUnavailable" ELSE "ok"
    [] OTHER -> "ok"
Next ==
  \/ /\ ~done /\ verdict = "ok" /\ l <= Len(Traces[tid])
     /\ verdict' = Clause(Traces[tid][l]) /\ l' = l + 1
     /\ phase' = IF Traces[tid][l].ev = "reconnect" THEN "replay" ELSE phase
     /\ UNCHANGED <<tid, done>>
  \/ /\ ~done /\ (verdict # "ok" \/ l > Len(Traces[tid]))
     /\ PrintT(<<"VERDICT", tid, l, verdict>>)
     /\ done' = TRUE /\ UNCHANGED <<tid, l, verdict, phase>>
Spec == Init /\ [][Next]_vars
TypeOK == verdict \in STRING
=============================================================================
