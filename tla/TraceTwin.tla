---------------------------- MODULE TraceTwin ----------------------------
(* C16: one scenario run through AdbDevice and AdbDeviceAsync against identical simulators.  Each trace is the  *)
(* sequence of paired Layer-A observables (host packets byte for byte, results, exception classes, .available); *)
(* the two implementations refine the same specification only if every pair is equal and neither run is longer. *)
EXTENDS Naturals, Sequences, TLC, TLCExt, Json, IOUtils
Data == JsonDeserialize(IOEnv.TRACE_FILE)
Traces == Data.traces
VARIABLES tid, l, verdict, done
vars == <<tid, l, verdict, done>>
Init == tid \in 1..Len(Traces) /\ l = 1 /\ verdict = "ok" /\ done = FALSE
Clause(e) == IF e.kind = "len" THEN (IF e.a = e.b THEN "ok" ELSE "C16.TwinEqual.Length")
             ELSE IF e.a = e.b THEN "ok"
             ELSE IF e.kind = "tx" THEN "C16.TwinEqual.Packets" ELSE IF e.kind = "exc" THEN "C16.TwinEqual.Exception" ELSE "C16.TwinEqual.Result"
Next ==
  \/ /\ ~done /\ verdict = "ok" /\ l <= Len(Traces[tid])
     /\ verdict' = Clause(Traces[tid][l]) /\ l' = l + 1 /\ UNCHANGED <<tid, done>>
  \/ /\ ~done /\ (verdict # "ok" \/ l > Len(Traces[tid]))
     /\ PrintT(<<"VERDICT", tid, l, verdict>>)
     /\ done' = TRUE /\ UNCHANGED <<tid, l, verdict>>
Spec == Init /\ [][Next]_vars
TypeOK == verdict \in STRING
=============================================================================
