---------------------------- MODULE TraceReader ----------------------------
(* code->spec for C03: Layer-A clauses over transport reads and outcomes of paired (fragmented / unfragmented) runs. *)
EXTENDS Naturals, Sequences, TLC, TLCExt, Json, IOUtils
Data == JsonDeserialize(IOEnv.TRACE_FILE)
Traces == Data.traces
VARIABLES tid, l, verdict, done
vars == <<tid, l, verdict, done>>
Init == tid \in 1..Len(Traces) /\ l = 1 /\ verdict = "ok" /\ done = FALSE
Clause(e) ==
  CASE e.ev = "br" -> IF e.n > e.left THEN "C03.NoOverRead" ELSE "ok"                       \* left: bytes remaining in the packet being read
    [] e.ev = "cmp" -> IF e.same THEN "ok" ELSE "C03.ExactReassembly"                        \* outcome under fragmentation F vs unfragmented delivery
    [] e.ev = "corrupt" -> IF e.cls # "InvalidChecksumError" THEN "C03.CorruptNeverDelivered" ELSE IF e.leak THEN "C03.CorruptNeverDelivered" ELSE "ok"
    [] e.ev = "unknown" -> IF e.cls # "InvalidCommandError" THEN "C03.UnknownCommandRejected" ELSE "ok"
    [] OTHER -> "ok"
Next ==
  \/ /\ ~done /\ verdict = "ok" /\ l <= Len(Traces[tid])
     /\ verdict' = Clause(Traces[tid][l]) /\ l' = l + 1 /\ UNCHANGED <<tid, done>>
  \/ /\ ~done /\ (verdict # "ok" \/ l > Len(Traces[tid]))
     /\ PrintT(<<"VERDICT", tid, l, verdict>>)
     /\ done' = TRUE /\ UNCHANGED <<tid, l, verdict>>
Spec == Init /\ [][Next]_vars
TypeOK == verdict \in STRING
=============================================================================
