---------------------------- MODULE AdbWriter ----------------------------
(* C15 design spec: sending messages (header, then payload) over a transport whose bulk_write accepts only    *)
(* c of the n bytes offered (it reports c, as sockets and USB do) and may also fail without sending anything. *)
(* Several writers (threads / tasks) share the transport; a message is sent under the transport lock.         *)
(*   intended:  lock; header: resubmit the remainder until everything was accepted; payload: the same; unlock *)
(*              a failing bulk_write raises out of the whole send (the lock is released, the call raises)     *)
(*   deviation IgnoreShortWrite (finding F1 while it was open; now a sanity mutation): one bulk_write per     *)
(*              part, the count is discarded                                                                  *)
(*   sanity mutation ResubmitStale: a failed bulk_write in the middle of a part is swallowed and the loop     *)
(*              goes on with the count of the previous round (seeded change C15-w4-c15-m2)                    *)
(*   sanity mutation LockPerCall: the lock is taken per bulk_write, not per message (seeded C15-w4-c15-m3)    *)
(*   environment DeferRef: the transport accepts everything, keeps a REFERENCE to the object it was given and *)
(*              transmits it at its next call (asyncio's socket transport on Python >= 3.12 keeps a view of   *)
(*              the caller's buffer when the socket does not take everything at once): what goes out is what  *)
(*              the object holds THEN.  As built every header is a fresh immutable object, so nothing changes *)
(*   sanity mutation ReuseHeader: headers are packed into one buffer owned by the I/O manager and that buffer *)
(*              is handed to bulk_write (seeded C15-w7-c15-m2): harmless on a transport that copies at once,  *)
(*              a duplicated header on one that transmits later                                               *)
EXTENDS Naturals, Sequences, FiniteSets, TLC
CONSTANTS HdrLen, PayLens, MaxCap, IgnoreShortWrite,
          Writers, MaxFails, ResubmitStale, LockPerCall,
          DeferRef, ReuseHeader
VARIABLES pay, part, off, peer, phase, lock, last, fails,
          pending,    \* DeferRef: what the transport has queued and not yet transmitted: <<>> or <<[w, lo, hi, shared]>>
          hdrbuf      \* ReuseHeader: whose header the shared buffer holds at the moment
vars == <<pay, part, off, peer, phase, lock, last, fails, pending, hdrbuf>>
\* the bytes a queued object yields when it is finally transmitted: a shared header buffer is read as it is by then
Content(q) == [i \in 1..(q.hi - q.lo + 1) |-> <<IF q.shared THEN hdrbuf ELSE q.w, q.lo + i - 1>>]
Flushed == IF pending = <<>> THEN peer ELSE peer \o Content(pending[1])
\* bytes of writer w's message are named <<w, 1..HdrLen>> (header) and <<w, HdrLen+1..>> (payload)
Msg(w) == [i \in 1..(HdrLen + pay[w]) |-> <<w, i>>]
PartRange(w) == IF part[w] = "hdr" THEN <<1, HdrLen>> ELSE <<HdrLen + 1, HdrLen + pay[w]>>
Init == /\ pay \in [Writers -> PayLens] /\ part = [w \in Writers |-> "hdr"] /\ off = [w \in Writers |-> 0] /\ peer = <<>>
        /\ phase = [w \in Writers |-> "idle"] /\ lock = "free" /\ last = [w \in Writers |-> 0] /\ fails = 0
        /\ pending = <<>> /\ hdrbuf = "none"
Acquire(w) == /\ phase[w] \in {"idle", "relock"} /\ lock = "free" /\ lock' = w /\ phase' = [phase EXCEPT ![w] = "send"]
              \* the header is packed when the send starts (under the lock)
              /\ hdrbuf' = (IF ReuseHeader /\ phase[w] = "idle" THEN w ELSE hdrbuf)
              /\ UNCHANGED <<pay, part, off, peer, last, fails, pending>>
\* after a part: the next part, or done (the lock is released)
NextPart(w) == IF part[w] = "hdr" /\ pay[w] > 0
               THEN /\ part' = [part EXCEPT ![w] = "pay"] /\ off' = [off EXCEPT ![w] = 0]
                    /\ IF LockPerCall THEN phase' = [phase EXCEPT ![w] = "relock"] /\ lock' = "free" ELSE UNCHANGED <<phase, lock>>
               ELSE /\ phase' = [phase EXCEPT ![w] = "done"] /\ lock' = "free" /\ UNCHANGED <<part, off>>
Write(w) == /\ phase[w] = "send" /\ lock = w /\ UNCHANGED hdrbuf
            /\ LET lo == PartRange(w)[1] + off[w] hi == PartRange(w)[2] n == hi - lo + 1 IN
               \E c \in (IF DeferRef THEN {MaxCap + HdrLen + 8} ELSE 1..MaxCap) :          \* a deferring transport takes everything
                 LET acc == IF c < n THEN c ELSE n IN
                 /\ IF DeferRef
                    THEN /\ peer' = Flushed                 \* what was queued goes out now, as it is now
                         /\ pending' = <<[w |-> w, lo |-> lo, hi |-> lo + acc - 1, shared |-> (ReuseHeader /\ part[w] = "hdr")]>>
                    ELSE /\ peer' = peer \o [i \in 1..acc |-> <<w, lo + i - 1>>] /\ UNCHANGED pending
                 /\ last' = [last EXCEPT ![w] = acc]
                 /\ IF acc = n \/ IgnoreShortWrite THEN NextPart(w)
                    ELSE /\ off' = [off EXCEPT ![w] = off[w] + acc] /\ UNCHANGED part
                         /\ IF LockPerCall THEN phase' = [phase EXCEPT ![w] = "relock"] /\ lock' = "free" ELSE UNCHANGED <<phase, lock>>
            /\ UNCHANGED <<pay, fails>>
\* the transport raises (a timeout: nothing was sent)
WriteFails(w) == /\ phase[w] = "send" /\ lock = w /\ fails < MaxFails /\ fails' = fails + 1 /\ UNCHANGED <<pending, hdrbuf>>
                 /\ IF ResubmitStale /\ off[w] > 0
                    THEN LET n == PartRange(w)[2] - (PartRange(w)[1] + off[w]) + 1 IN         \* swallowed; the stale count is applied again
                         IF last[w] >= n THEN NextPart(w) /\ UNCHANGED <<peer, last>>
                         ELSE /\ off' = [off EXCEPT ![w] = off[w] + last[w]] /\ UNCHANGED <<part, phase, lock, peer, last>>
                    ELSE /\ phase' = [phase EXCEPT ![w] = "raised"] /\ lock' = "free" /\ UNCHANGED <<part, off, peer, last>>
                 /\ UNCHANGED pay
\* the transport's next call (a read, close): the queue is transmitted
Drain == /\ pending # <<>> /\ lock = "free" /\ peer' = Flushed /\ pending' = <<>>
         /\ UNCHANGED <<pay, part, off, phase, lock, last, fails, hdrbuf>>
Finished == (\A w \in Writers : phase[w] \in {"done", "raised"}) /\ pending = <<>> /\ UNCHANGED vars
Next == (\E w \in Writers : Acquire(w) \/ Write(w) \/ WriteFails(w)) \/ Drain \/ Finished
Spec == Init /\ [][Next]_vars
\* what the peer got from writer w
From(w) == SelectSeq(peer, LAMBDA b : b[1] = w)
\* the peer receives every byte of every message whose send returned, in order and without gaps - or the send raised
PeerGetsAll == \A w \in Writers : (phase[w] = "done" /\ pending = <<>>) => From(w) = Msg(w)
InOrderNoGap == \A w \in Writers : \A i \in 1..Len(From(w)) : From(w)[i] = <<w, i>>
\* the pieces of one message stay together on the wire: between two bytes of a message there is no byte of another writer
Contiguous == \A i, j \in 1..Len(peer) : (i < j /\ peer[i][1] = peer[j][1]) => \A k \in i..j : peer[k][1] = peer[i][1]
LockFreeAtEnd == (\A w \in Writers : phase[w] \in {"done", "raised"}) => lock = "free"
=============================================================================
