---------------------------- MODULE AdbWriter ----------------------------
(* C15 design spec: sending messages (header, then payload) over a transport whose bulk_write accepts only    *)
(* c of the n bytes offered (it reports c, as sockets and USB do) and may also fail without sending anything. *)
(* Several writers (threads / tasks) share the transport; a message is sent under the transport lock.         *)
(*   intended:  lock; header: resubmit the remainder until everything was accepted; payload: the same; unlock *)
(*              a failing bulk_write raises out of the whole send (the lock is released, the call raises)     *)
(*   deviation IgnoreShortWrite (finding F1 while it was open; now a sanity mutation): one bulk_write per     *)
(*              part, the count is discarded                                                                  *)
(*   sanity mutation ResubmitStale: a failed bulk_write in the middle of a part is swallowed and the loop     *)
(*              goes on with the count of the previous round (seeded change C15-w4-c15-m2)                    *)
(*   sanity mutation LockPerCall: the lock is taken per bulk_write, not per message (seeded C15-w4-c15-m3)    *)
EXTENDS Naturals, Sequences, FiniteSets, TLC
CONSTANTS HdrLen, PayLens, MaxCap, IgnoreShortWrite,
          Writers, MaxFails, ResubmitStale, LockPerCall
VARIABLES pay, part, off, peer, phase, lock, last, fails
vars == <<pay, part, off, peer, phase, lock, last, fails>>
\* bytes of writer w's message are named <<w, 1..HdrLen>> (header) and <<w, HdrLen+1..>> (payload)
Msg(w) == [i \in 1..(HdrLen + pay[w]) |-> <<w, i>>]
PartRange(w) == IF part[w] = "hdr" THEN <<1, HdrLen>> ELSE <<HdrLen + 1, HdrLen + pay[w]>>
Init == /\ pay \in [Writers -> PayLens] /\ part = [w \in Writers |-> "hdr"] /\ off = [w \in Writers |-> 0] /\ peer = <<>>
        /\ phase = [w \in Writers |-> "idle"] /\ lock = "free" /\ last = [w \in Writers |-> 0] /\ fails = 0
Acquire(w) == /\ phase[w] \in {"idle", "relock"} /\ lock = "free" /\ lock' = w /\ phase' = [phase EXCEPT ![w] = "send"]
              /\ UNCHANGED <<pay, part, off, peer, last, fails>>
\* after a part: the next part, or done (the lock is released)
NextPart(w) == IF part[w] = "hdr" /\ pay[w] > 0
               THEN /\ part' = [part EXCEPT ![w] = "pay"] /\ off' = [off EXCEPT ![w] = 0]
                    /\ IF LockPerCall THEN phase' = [phase EXCEPT ![w] = "relock"] /\ lock' = "free" ELSE UNCHANGED <<phase, lock>>
               ELSE /\ phase' = [phase EXCEPT ![w] = "done"] /\ lock' = "free" /\ UNCHANGED <<part, off>>
Write(w) == /\ phase[w] = "send" /\ lock = w
            /\ LET lo == PartRange(w)[1] + off[w] hi == PartRange(w)[2] n == hi - lo + 1 IN
               \E c \in 1..MaxCap :
                 LET acc == IF c < n THEN c ELSE n IN
                 /\ peer' = peer \o [i \in 1..acc |-> <<w, lo + i - 1>>]
                 /\ last' = [last EXCEPT ![w] = acc]
                 /\ IF acc = n \/ IgnoreShortWrite THEN NextPart(w)
                    ELSE /\ off' = [off EXCEPT ![w] = off[w] + acc] /\ UNCHANGED part
                         /\ IF LockPerCall THEN phase' = [phase EXCEPT ![w] = "relock"] /\ lock' = "free" ELSE UNCHANGED <<phase, lock>>
            /\ UNCHANGED <<pay, fails>>
\* the transport raises (a timeout: nothing was sent)
WriteFails(w) == /\ phase[w] = "send" /\ lock = w /\ fails < MaxFails /\ fails' = fails + 1
                 /\ IF ResubmitStale /\ off[w] > 0
                    THEN LET n == PartRange(w)[2] - (PartRange(w)[1] + off[w]) + 1 IN         \* swallowed; the stale count is applied again
                         IF last[w] >= n THEN NextPart(w) /\ UNCHANGED <<peer, last>>
                         ELSE /\ off' = [off EXCEPT ![w] = off[w] + last[w]] /\ UNCHANGED <<part, phase, lock, peer, last>>
                    ELSE /\ phase' = [phase EXCEPT ![w] = "raised"] /\ lock' = "free" /\ UNCHANGED <<part, off, peer, last>>
                 /\ UNCHANGED pay
Finished == (\A w \in Writers : phase[w] \in {"done", "raised"}) /\ UNCHANGED vars
Next == (\E w \in Writers : Acquire(w) \/ Write(w) \/ WriteFails(w)) \/ Finished
Spec == Init /\ [][Next]_vars
\* what the peer got from writer w
From(w) == SelectSeq(peer, LAMBDA b : b[1] = w)
\* the peer receives every byte of every message whose send returned, in order and without gaps - or the send raised
PeerGetsAll == \A w \in Writers : phase[w] = "done" => From(w) = Msg(w)
InOrderNoGap == \A w \in Writers : \A i \in 1..Len(From(w)) : From(w)[i] = <<w, i>>
\* the pieces of one message stay together on the wire: between two bytes of a message there is no byte of another writer
Contiguous == \A i, j \in 1..Len(peer) : (i < j /\ peer[i][1] = peer[j][1]) => \A k \in i..j : peer[k][1] = peer[i][1]
LockFreeAtEnd == (\A w \in Writers : phase[w] \in {"done", "raised"}) => lock = "free"
=============================================================================
