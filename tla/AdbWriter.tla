---------------------------- MODULE AdbWriter ----------------------------
(* C15 design spec: sending one message (header, then payload) over a transport whose bulk_write accepts only  *)
(* c of the n bytes offered (it reports c, as sockets and USB do).                                            *)
(*   intended:  resubmit the remainder until everything was accepted                                          *)
(*   deviation IgnoreShortWrite (finding F1, while open): one bulk_write per part, the count is discarded     *)
EXTENDS Naturals, Sequences, TLC
CONSTANTS HdrLen, PayLens, MaxCap, IgnoreShortWrite
VARIABLES pay, part, off, peer, phase
vars == <<pay, part, off, peer, phase>>
\* bytes are named 1..HdrLen (header) and HdrLen+1.. (payload)
Msg == [i \in 1..(HdrLen + pay) |-> i]
PartRange == IF part = "hdr" THEN <<1, HdrLen>> ELSE <<HdrLen + 1, HdrLen + pay>>
Init == pay \in PayLens /\ part = "hdr" /\ off = 0 /\ peer = <<>> /\ phase = "send"
NextPart == IF part = "hdr" /\ pay > 0 THEN /\ part' = "pay" /\ off' = 0 /\ UNCHANGED phase
            ELSE /\ phase' = "done" /\ UNCHANGED <<part, off>>
Write == /\ phase = "send"
         /\ LET lo == PartRange[1] + off hi == PartRange[2] n == hi - lo + 1 IN
            \E c \in 1..MaxCap :
              LET acc == IF c < n THEN c ELSE n IN
              /\ peer' = peer \o [i \in 1..acc |-> lo + i - 1]
              /\ IF acc = n \/ IgnoreShortWrite THEN NextPart ELSE /\ off' = off + acc /\ UNCHANGED <<part, phase>>
         /\ UNCHANGED pay
Finished == phase = "done" /\ UNCHANGED vars
Next == Write \/ Finished
Spec == Init /\ [][Next]_vars
\* the peer receives every byte of the message, in order and without gaps
PeerGetsAll == phase = "done" => peer = Msg
InOrderNoGap == \A i \in 1..Len(peer) : peer[i] = i
=============================================================================
