---------------------------- MODULE AdbCancel ----------------------------
(* C06, asyncio only: a task that runs an operation on the shared device is cancelled (task.cancel(), an       *)
(* expiring asyncio.wait_for) while other tasks go on.  A CancelledError is delivered at the await at which the *)
(* task is suspended.  As built the reading side of the I/O manager suspends at                                *)
(*     async with transport_lock            (only when the lock is taken)                                      *)
(*     await transport.bulk_read(header)    (before anything of the packet is consumed)                        *)
(*     await transport.bulk_read(payload)   (the header is consumed: the stream is in the middle of a packet)  *)
(* and between taking the last byte of a packet off the transport and parking / returning it there is NO       *)
(* await: the packet is never held in a local variable of a suspended task.  Hence a cancellation that arrives *)
(* while both byte streams are at a message boundary loses nothing - whichever task it hits, and whosever      *)
(* packet that task was about to read.  (A cancellation in the middle of a packet breaks the framing like any   *)
(* failed read; C12 covers that.)                                                                              *)
(*   sanity mutation YieldAfterRead (seeded change C06-w7-c06-m3): `await sleep(0)` after the packet was read  *)
(*   and before it is parked / returned - a suspension point with a packet in hand                             *)
(* The conformance side is C06's `cancel_anywhere` family: a canceller that takes every turn of the event loop  *)
(* and cancels under exactly the enabling condition of Cancel below.                                           *)
EXTENDS Naturals, Sequences, FiniteSets, TLC
CONSTANTS Tasks,            \* reader tasks, one stream each
          PerStream,        \* packets the device sends to each stream
          YieldAfterRead
VARIABLES wire,      \* packets still to be read off the transport: sequence of stream owners
          lock, pc, hand, store, got, cancelled
vars == <<wire, lock, pc, hand, store, got, cancelled>>
RECURSIVE Shuffles(_)
\* every order in which the device may put the packets of the streams on the wire
Shuffles(cnt) == IF \A t \in Tasks : cnt[t] = 0 THEN {<<>>}
                 ELSE UNION {{<<t>> \o s : s \in Shuffles([cnt EXCEPT ![t] = @ - 1])} : t \in {u \in Tasks : cnt[u] > 0}}
Init == /\ wire \in Shuffles([t \in Tasks |-> PerStream]) /\ lock = "free"
        /\ pc = [t \in Tasks |-> "check"] /\ hand = [t \in Tasks |-> "none"]
        /\ store = [t \in Tasks |-> 0] /\ got = [t \in Tasks |-> 0] /\ cancelled = {}
Alive(t) == t \notin cancelled /\ got[t] < PerStream
\* the lock-free look into the store, then the lock
Check(t) == /\ Alive(t) /\ pc[t] = "check"
            /\ IF store[t] > 0 THEN /\ store' = [store EXCEPT ![t] = @ - 1] /\ got' = [got EXCEPT ![t] = @ + 1] /\ UNCHANGED pc
                               ELSE /\ pc' = [pc EXCEPT ![t] = "wantlock"] /\ UNCHANGED <<store, got>>
            /\ UNCHANGED <<wire, lock, hand, cancelled>>
Acquire(t) == /\ Alive(t) /\ pc[t] = "wantlock" /\ lock = "free" /\ lock' = t
              \* under the lock the store is consulted once more
              /\ IF store[t] > 0 THEN /\ store' = [store EXCEPT ![t] = @ - 1] /\ got' = [got EXCEPT ![t] = @ + 1]
                                      /\ pc' = [pc EXCEPT ![t] = "release"]
                                 ELSE /\ pc' = [pc EXCEPT ![t] = "rdhdr"] /\ UNCHANGED <<store, got>>
              /\ UNCHANGED <<wire, hand, cancelled>>
Release(t) == /\ pc[t] = "release" /\ lock = t /\ lock' = "free" /\ pc' = [pc EXCEPT ![t] = "check"]
              /\ UNCHANGED <<wire, hand, store, got, cancelled>>
\* header and payload are two awaits; between them the stream is in the middle of a packet
ReadHdr(t) == /\ Alive(t) /\ pc[t] = "rdhdr" /\ wire # <<>> /\ pc' = [pc EXCEPT ![t] = "rdpay"]
              /\ UNCHANGED <<wire, lock, hand, store, got, cancelled>>
ReadPay(t) == /\ Alive(t) /\ pc[t] = "rdpay" /\ hand' = [hand EXCEPT ![t] = Head(wire)] /\ wire' = Tail(wire)
              /\ pc' = [pc EXCEPT ![t] = IF YieldAfterRead THEN "yield" ELSE "dispatch"]
              /\ UNCHANGED <<lock, store, got, cancelled>>
\* as built ReadPay and Dispatch are one uninterrupted run of the task; they are separate actions here only so that the mutation
\* has a place to yield - Cancel is not enabled at "dispatch"
Dispatch(t) == /\ Alive(t) /\ pc[t] \in {"dispatch", "yield"} /\ hand[t] # "none"
               /\ IF hand[t] = t THEN /\ got' = [got EXCEPT ![t] = @ + 1] /\ pc' = [pc EXCEPT ![t] = "release"] /\ UNCHANGED store
                                 ELSE /\ store' = [store EXCEPT ![hand[t]] = @ + 1] /\ pc' = [pc EXCEPT ![t] = "rdhdr"] /\ UNCHANGED got
               /\ hand' = [hand EXCEPT ![t] = "none"] /\ UNCHANGED <<wire, lock, cancelled>>
\* a cancellation: only while no task is in the middle of a packet, only at an await, one task at most
MidPacket == \E u \in Tasks : u \notin cancelled /\ pc[u] = "rdpay"
Cancel(t) == /\ Alive(t) /\ cancelled = {} /\ ~MidPacket /\ pc[t] \in {"wantlock", "rdhdr", "yield"}
             /\ cancelled' = {t} /\ lock' = (IF lock = t THEN "free" ELSE lock)        \* `async with` releases the lock on the way out
             /\ UNCHANGED <<wire, pc, hand, store, got>>
Done == (\A t \in Tasks : ~Alive(t) \/ (wire = <<>> /\ pc[t] = "rdhdr")) /\ UNCHANGED vars
Next == (\E t \in Tasks : Check(t) \/ Acquire(t) \/ Release(t) \/ ReadHdr(t) \/ ReadPay(t) \/ Dispatch(t) \/ Cancel(t)) \/ Done
Spec == Init /\ [][Next]_vars
(* ---- properties ---- *)
\* nothing the device sent to a task that was not cancelled is ever lost: delivered, parked, still on the wire, or in the hand of a live task
InHand(u) == Cardinality({t \in Tasks : t \notin cancelled /\ hand[t] = u})
OnWire(u) == Cardinality({i \in 1..Len(wire) : wire[i] = u})
NoLoss == \A u \in Tasks : u \notin cancelled => got[u] + store[u] + OnWire(u) + InHand(u) = PerStream
LockOwnerAlive == lock # "free" => lock \notin cancelled
\* when the wire is drained and nobody holds a packet, everything that was sent to a live task is delivered or parked for it
Drained == (wire = <<>> /\ \A t \in Tasks : hand[t] = "none" \/ t \in cancelled) => \A u \in Tasks : u \in cancelled \/ got[u] + store[u] = PerStream
=============================================================================
