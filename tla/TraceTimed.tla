---------------------------- MODULE TraceTimed ----------------------------
(* code->spec for C11: one trace per (operation, await point, stall kind, timeout grid point) under the virtual clock. *)
(* Times are integer milliseconds; "none" flags stand for Python None.                                               *)
EXTENDS Integers, Sequences, TLC, TLCExt, Json, IOUtils
Data == JsonDeserialize(IOEnv.TRACE_FILE)
Traces == Data.traces
Max(a, b) == IF a > b THEN a ELSE b
Min(a, b) == IF a < b THEN a ELSE b
VARIABLES tid, l, verdict, done
vars == <<tid, l, verdict, done>>
Init == tid \in 1..Len(Traces) /\ l = 1 /\ verdict = "ok" /\ done = FALSE
RT(e) == IF e.totalNone THEN e.rt ELSE Min(e.rt, e.total)
TT(e) == IF e.ttNone THEN RT(e) ELSE Min(e.tt, RT(e))
Timeouts == {"AdbTimeoutError", "SimTimeout", "TcpTimeoutException"}    \* the library's error, the in-memory transport's timeout error, the TCP transports' timeout error
Clause(e) ==
  IF e.ev # "end" THEN "ok"
  ELSE IF e.hang THEN "C11.Bounded"
  ELSE IF e.stalled /\ e.elapsed > e.k * (Max(RT(e), 0) + Max(TT(e), e.tick)) + (IF e.totalNone THEN 0 ELSE Max(e.total, 0)) + e.extra + 2 * e.tick THEN "C11.Bounded"
  ELSE IF e.stalled /\ e.outcome = "ret" /\ ~e.same THEN "C11.NoFabrication"
  ELSE IF e.stalled /\ e.outcome = "ret" /\ e.mustFail THEN "C11.NoFabrication"
  ELSE IF e.stalled /\ e.outcome = "exc" /\ e.cls \notin Timeouts /\ ~e.closing THEN "C11.RightError"
  ELSE IF e.stream /\ \E i \in 1..Len(e.tmos) : e.tmos[i] > RT(e) THEN "C11.Ordered"
  ELSE IF e.stream /\ ~e.totalNone /\ RT(e) > e.total THEN "C11.Ordered"
  ELSE "ok"
Next ==
  \/ /\ ~done /\ verdict = "ok" /\ l <= Len(Traces[tid])
     /\ verdict' = Clause(Traces[tid][l]) /\ l' = l + 1 /\ UNCHANGED <<tid, done>>
  \/ /\ ~done /\ (verdict # "ok" \/ l > Len(Traces[tid]))
     /\ PrintT(<<"VERDICT", tid, l, verdict>>)
     /\ done' = TRUE /\ UNCHANGED <<tid, l, verdict>>
Spec == Init /\ [][Next]_vars
TypeOK == verdict \in STRING
=============================================================================
