---------------------------- MODULE AdbAllocInd ----------------------------
(* C14, unbounded in the counter: the id allocator of AdbAlloc (UseLock = TRUE, AllowFail = TRUE,      *)
(* GiveBack = FALSE - the as-built block of AdbDevice._open) restated with Apalache type annotations,  *)
(* with the real modulus M = 2^32 (TLC's integers are 32-bit, so AdbAlloc runs with a small M) and an  *)
(* arbitrary starting value of the counter.  IndInv is an inductive invariant:                         *)
(*     Init => IndInv          (apalache-mc check --init=Init    --inv=IndInv --length=0)              *)
(*     IndInv /\ Next => IndInv'  (apalache-mc check --init=IndInv --inv=IndInv --length=1)            *)
(*     IndInv => UniqueLive /\ IdRange   (--init=IndInv --inv=Safe --length=0)                          *)
(* so UniqueLive and IdRange hold for every start value in 0..2^32-1, across the wrap, for the threads *)
(* of the model (each opens once; N < M - 1).  The same module is run by TLC with a small M to check   *)
(* that IndInv is an invariant there too (sanity of the transcription).                                *)
EXTENDS Integers, FiniteSets
CONSTANTS
  \* @type: Int;
  M
VARIABLES
  \* @type: Str -> Str;
  pc,
  \* @type: Int;
  cnt,
  \* @type: Str -> Int;
  my,
  \* @type: Str;
  lock,
  \* @type: Int;
  start
Threads == {"t1", "t2", "t3"}
vars == <<pc, cnt, my, lock, start>>
Pcs == {"idle", "inc", "cmp", "wrap", "take", "live", "closed"}
Init == /\ pc = [t \in Threads |-> "idle"] /\ start \in 0..(M - 1) /\ cnt = start
        /\ my = [t \in Threads |-> 0] /\ lock = "free"
Acq(t) == /\ pc[t] = "idle" /\ lock = "free" /\ lock' = t
          /\ pc' = [pc EXCEPT ![t] = "inc"] /\ UNCHANGED <<cnt, my, start>>
Inc(t) == /\ pc[t] = "inc" /\ cnt' = cnt + 1 /\ pc' = [pc EXCEPT ![t] = "cmp"] /\ UNCHANGED <<my, lock, start>>
Cmp(t) == /\ pc[t] = "cmp" /\ pc' = [pc EXCEPT ![t] = IF cnt = M THEN "wrap" ELSE "take"] /\ UNCHANGED <<cnt, my, lock, start>>
Wrap(t) == /\ pc[t] = "wrap" /\ cnt' = 1 /\ pc' = [pc EXCEPT ![t] = "take"] /\ UNCHANGED <<my, lock, start>>
Take(t) == /\ pc[t] = "take" /\ my' = [my EXCEPT ![t] = cnt] /\ lock' = "free"
           /\ pc' = [pc EXCEPT ![t] = "live"] /\ UNCHANGED <<cnt, start>>
Close(t) == /\ pc[t] = "live" /\ pc' = [pc EXCEPT ![t] = "closed"] /\ UNCHANGED <<cnt, my, lock, start>>
Next == \E t \in Threads : Acq(t) \/ Inc(t) \/ Cmp(t) \/ Wrap(t) \/ Take(t) \/ Close(t)
Spec == Init /\ [][Next]_vars

Live == {t \in Threads : pc[t] = "live"}
IdRange == \A t \in Live : 1 <= my[t] /\ my[t] <= M - 1
UniqueLive == \A t \in Live : \A u \in Live : t # u => my[t] # my[u]
Safe == IdRange /\ UniqueLive

\* the j-th id handed out after the counter started at `start` (j >= 1)
F(j) == ((start - 1 + j) % (M - 1)) + 1
Taken == {t \in Threads : pc[t] \in {"live", "closed"}}
InCs == {t \in Threads : pc[t] \in {"inc", "cmp", "wrap", "take"}}
K == Cardinality(Taken)
Last == IF K = 0 THEN start ELSE F(K)
IndInv ==
  /\ M > 8
  /\ start \in Int /\ start >= 0 /\ start <= M - 1
  /\ pc \in [Threads -> Pcs]
  /\ my \in [Threads -> Int]
  /\ \A t \in Threads : my[t] >= 0 /\ my[t] <= M - 1
  /\ cnt \in Int /\ cnt >= 0 /\ cnt <= M
  /\ lock \in Threads \cup {"free"}
  /\ \A t \in Threads : (lock = t) <=> (t \in InCs)
  /\ \A t \in Threads : pc[t] \in {"idle", "inc", "cmp", "wrap", "take"} => my[t] = 0
  /\ \A t \in Taken : \E j \in 1..3 : j <= K /\ my[t] = F(j)
  /\ \A t \in Taken : \A u \in Taken : t # u => my[t] # my[u]
  /\ \A t \in Threads :
       /\ pc[t] = "inc"  => cnt = Last
       /\ pc[t] = "cmp"  => cnt = Last + 1
       /\ pc[t] = "wrap" => cnt = M /\ Last = M - 1
       /\ pc[t] = "take" => cnt = F(K + 1)
  /\ (lock = "free") => cnt = Last
=============================================================================
