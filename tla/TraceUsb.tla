---------------------------- MODULE TraceUsb ----------------------------
(* code->spec for C20: UsbTransport driven by scripts over a fake libusb1 backend that behaves per its documentation. *)
(* Transport-level steps follow the contract of AdbTransport; backend calls are judged for endpoint, size and timeout. *)
EXTENDS Naturals, Sequences, TLC, TLCExt, Json, IOUtils
Data == JsonDeserialize(IOEnv.TRACE_FILE)
Traces == Data.traces
VARIABLES tid, l, verdict, done, connected, claimed, written, delivered
vars == <<tid, l, verdict, done, connected, claimed, written, delivered>>
Init == tid \in 1..Len(Traces) /\ l = 1 /\ verdict = "ok" /\ done = FALSE /\ connected = FALSE /\ claimed = FALSE /\ written = 0 /\ delivered = 0
Keep == UNCHANGED <<connected, claimed, written, delivered>>
Fail(c) == verdict' = "C20." \o c /\ Keep
Step(e) ==
  CASE e.op = "connect" -> IF ~e.ok THEN Fail("Reconnectable") ELSE verdict' = "ok" /\ connected' = TRUE /\ claimed' = FALSE /\ written' = 0 /\ delivered' = 0
    [] e.op = "claim" -> IF e.iface # e.expected THEN Fail("ClaimsOnConnect") ELSE verdict' = "ok" /\ claimed' = TRUE /\ UNCHANGED <<connected, written, delivered>>
    [] e.op = "connected" -> IF ~claimed THEN Fail("ClaimsOnConnect") ELSE verdict' = "ok" /\ Keep
    [] e.op = "close" -> IF ~e.ok THEN Fail("CloseIdempotent") ELSE verdict' = "ok" /\ connected' = FALSE /\ UNCHANGED <<claimed, written, delivered>>
    [] e.op = "pw" -> verdict' = "ok" /\ written' = written + e.m /\ UNCHANGED <<connected, claimed, delivered>>
    [] e.op = "backend_read" -> IF e.ep # e.inEp THEN Fail("ReadsFromIn") ELSE IF e.len > e.n THEN Fail("ReadAtMost") ELSE IF e.tmo # e.expTmo THEN Fail("TimeoutMs") ELSE verdict' = "ok" /\ Keep
    [] e.op = "backend_write" -> IF e.ep # e.outEp THEN Fail("WritesToOut") ELSE IF e.tmo # e.expTmo THEN Fail("TimeoutMs") ELSE IF ~e.dataSame THEN Fail("WritesToOut") ELSE verdict' = "ok" /\ Keep
    [] e.op = "read" -> IF ~connected THEN Fail("UseAfterClose")            \* a read that succeeds on a transport that is not connected
                        ELSE IF e.k > e.n THEN Fail("ReadAtMost")
                        ELSE IF e.first # delivered + 1 \/ ~e.contiguous \/ delivered + e.k > written THEN Fail("InOrder")
                        ELSE verdict' = "ok" /\ delivered' = delivered + e.k /\ UNCHANGED <<connected, claimed, written>>
    [] e.op = "raised" -> IF e.cls # e.expected THEN Fail(IF e.closed THEN "UseAfterClose" ELSE "ErrorsMapped")
                          ELSE IF ~e.legit THEN Fail("RaisesOnlyForACause")      \* connected, not closed, the backend reported nothing and (for a read) data was there
                          ELSE verdict' = "ok" /\ Keep
    [] e.op = "wrote" -> IF ~connected THEN Fail("UseAfterClose")
                         ELSE IF e.k # e.accepted THEN Fail("WriteCount")
                         ELSE IF ~e.prefixOk THEN Fail("WritesAPrefix")        \* what reached the OUT endpoint is exactly the first k bytes offered, in order
                         ELSE verdict' = "ok" /\ Keep
    [] e.op = "error" -> Fail(e.clause)
    [] OTHER -> verdict' = "ok" /\ Keep
Next ==
  \/ /\ ~done /\ verdict = "ok" /\ l <= Len(Traces[tid])
     /\ Step(Traces[tid][l]) /\ l' = l + 1 /\ UNCHANGED <<tid, done>>
  \/ /\ ~done /\ (verdict # "ok" \/ l > Len(Traces[tid]))
     /\ PrintT(<<"VERDICT", tid, l, verdict>>)
     /\ done' = TRUE /\ UNCHANGED <<tid, l, verdict, connected, claimed, written, delivered>>
Spec == Init /\ [][Next]_vars
TypeOK == verdict \in STRING
=============================================================================
