---------------------------- MODULE AuthMon ----------------------------
(* Layer A for C05: the CNXN/AUTH handshake as observable at the transport and the public API.      *)
(* Pure operators over one monitor record; conjoined to the design spec AdbAuth and driven by       *)
(* TraceAuth over recorded events.  Tokens are named by ordinal ids (1 = first token the device     *)
(* issued in this session, ...), keys by their index in rsa_keys (1..n).                            *)
EXTENDS AdbWords, TLC

AuthInit == [phase |-> "idle", nkeys |-> 0, cbGiven |-> FALSE, authTimeout |-> 0, npkts |-> 0, sigs |-> 0, lastTok |-> 0, nonToken |-> FALSE,
             devCnxn |-> FALSE, md |-> <<0, 0>>, cb |-> 0, pub |-> 0, verdict |-> "ok"]
ABad(a, c) == IF a.verdict = "ok" THEN [a EXCEPT !.verdict = c] ELSE a

\* max_chunk_size implied by a device maxdata md (a word): min(64 KiB, md div 2), legacy 2 KiB when that is 0
ChunkOf(md) == LET hi == md[1] \div 2 lo == (md[2] \div 2) + (md[1] % 2) * 32768 IN
               IF hi >= 1 THEN 65536 ELSE IF lo = 0 THEN 2048 ELSE lo

AuthCall(a, e) == [AuthInit EXCEPT !.phase = "started", !.nkeys = e.nkeys, !.cbGiven = e.cb, !.authTimeout = e.auth_timeout]

\* host packets: e.kind \in {"CNXN", "SIG", "PUB", "OTHER"}
AuthTx(a, e) ==
  IF a.phase = "idle" THEN a
  ELSE IF a.npkts = 0
       THEN IF e.kind # "CNXN" THEN ABad(a, "C05.FirstIsCnxn")
            ELSE IF ~e.fields THEN ABad(a, "C05.CnxnFields")
            ELSE [a EXCEPT !.npkts = 1]
  ELSE IF e.kind = "CNXN" THEN ABad(a, "C05.FirstIsCnxn")
  ELSE IF e.kind = "SIG" THEN
         IF a.devCnxn THEN ABad(a, "C05.StopsAtAccept")
         ELSE IF a.nonToken \/ a.lastTok = 0 THEN ABad(a, "C05.NonTokenChallenge")
         ELSE IF a.pub > 0 THEN ABad(a, "C05.PubkeyOnlyAfterAll")
         ELSE IF e.key # a.sigs + 1 THEN ABad(a, "C05.EachKeyInOrderOnce")
         ELSE IF e.tok # a.lastTok THEN ABad(a, "C05.SignsNewestToken")
         ELSE [a EXCEPT !.sigs = @ + 1, !.npkts = @ + 1, !.lastTok = 0]
  ELSE IF e.kind = "PUB" THEN
         IF a.devCnxn THEN ABad(a, "C05.StopsAtAccept")
         ELSE IF a.sigs # a.nkeys \/ a.nkeys = 0 THEN ABad(a, "C05.PubkeyOnlyAfterAll")
         ELSE IF a.pub >= 1 THEN ABad(a, "C05.PubkeyOnce")
         ELSE IF e.key # 1 \/ ~e.nul THEN ABad(a, "C05.PubkeyIsFirstKeyNulTerminated")
         ELSE IF a.cbGiven /\ a.cb # 1 THEN ABad(a, "C05.CallbackOnceBeforePubkey")
         ELSE [a EXCEPT !.pub = 1, !.npkts = @ + 1]
  ELSE IF a.devCnxn THEN a          \* stream traffic after the handshake
  ELSE ABad(a, "C05.UnexpectedHostPacket")

AuthCb(a, e) == IF a.cb >= 1 \/ a.pub > 0 \/ a.sigs # a.nkeys \/ a.devCnxn THEN ABad(a, "C05.CallbackOnceBeforePubkey") ELSE [a EXCEPT !.cb = 1]

\* device packets consumed by the host: e.cmd, e.a0, e.a1 words, e.tok ordinal (0 when the payload is no issued token)
AuthRd(a, e) ==
  IF a.phase # "started" \/ a.devCnxn THEN a
  ELSE IF e.cmd = "AUTH" THEN (IF e.a0 = <<0, 1>> THEN [a EXCEPT !.lastTok = e.tok, !.nonToken = FALSE] ELSE [a EXCEPT !.nonToken = TRUE, !.lastTok = 0])
  ELSE IF e.cmd = "CNXN" THEN [a EXCEPT !.devCnxn = TRUE, !.md = e.a1]
  ELSE a

AuthWait(a, e) == IF a.pub = 1 /\ ~a.devCnxn /\ e.timeout # a.authTimeout THEN ABad(a, "C05.AuthWaitUsesAuthTimeout") ELSE a

AuthRet(a, e) ==
  IF a.phase # "started" THEN a
  ELSE IF ~a.devCnxn \/ ~e.value \/ ~e.avail THEN ABad(a, "C05.SuccessIffFinalCnxn")
  ELSE IF e.chunk # ChunkOf(a.md) THEN ABad(a, "C05.AdoptsMaxdata")
  ELSE [a EXCEPT !.phase = "online"]

AuthExc(a, e) ==
  IF a.phase # "started" THEN a
  ELSE IF e.avail THEN ABad(a, "C05.RaisedLeavesUnavailable")
  ELSE IF a.devCnxn THEN ABad(a, "C05.SuccessIffFinalCnxn")
  ELSE IF a.nkeys = 0 /\ (a.lastTok # 0 \/ a.nonToken) /\ e.cls # "DeviceAuthError" THEN ABad(a, "C05.NoKeysDeviceAuthError")
  ELSE IF a.nkeys > 0 /\ a.nonToken /\ a.sigs < a.nkeys /\ e.cls # "InvalidResponseError" THEN ABad(a, "C05.NonTokenInvalidResponse")
  ELSE [a EXCEPT !.phase = "ended"]
=============================================================================
