---------------------------- MODULE AdbAlloc ----------------------------
(* C14: allocation of stream ids in AdbDevice._open, one action per source line of the block          *)
(*     with self._local_id_lock:                                                                      *)
(*         self._local_id += 1                       Inc                                              *)
(*         if self._local_id == 2**32:               Cmp                                              *)
(*             self._local_id = 1                    Wrap                                             *)
(*         adb_info = _AdbTransactionInfo(self._local_id, ...)      Take                              *)
(* followed by the OPEN packet (Open) and, later, the end of the stream (Close).  M stands for 2^32.  *)
(* UseLock = FALSE is a sanity mutation of the model (not a finding): it must violate UniqueLive.     *)
(* AllowFail: an open may fail after it took its id (the device refuses the OPEN, a later statement of *)
(* _open raises): as built the id is simply spent.  GiveBack is a sanity mutation (seeded changes      *)
(* C14-w9-c14-m1 / m3): the failing open hands its id back with a decrement under the lock - correct   *)
(* when nothing else happened in between, a duplicate of a live id when another open did.              *)
EXTENDS Naturals, FiniteSets, TLC, Json
CONSTANTS Threads, M, Start, UseLock, AllowFail, GiveBack
VARIABLES pc, cnt, my, lock, act
vars == <<pc, cnt, my, lock, act>>
Init == /\ pc = [t \in Threads |-> "idle"] /\ cnt = Start /\ my = [t \in Threads |-> 0] /\ lock = "free"
        /\ act = [who |-> "init", what |-> "init"]
A(t, w) == act' = [who |-> t, what |-> w]
Acq(t) == /\ pc[t] = "idle" /\ (UseLock => lock = "free") /\ lock' = IF UseLock THEN t ELSE lock
          /\ pc' = [pc EXCEPT ![t] = "inc"] /\ A(t, "Acq") /\ UNCHANGED <<cnt, my>>
Inc(t) == /\ pc[t] = "inc" /\ cnt' = cnt + 1 /\ pc' = [pc EXCEPT ![t] = "cmp"] /\ A(t, "Inc") /\ UNCHANGED <<my, lock>>
Cmp(t) == /\ pc[t] = "cmp" /\ pc' = [pc EXCEPT ![t] = IF cnt = M THEN "wrap" ELSE "take"] /\ A(t, "Cmp") /\ UNCHANGED <<cnt, my, lock>>
Wrap(t) == /\ pc[t] = "wrap" /\ cnt' = 1 /\ pc' = [pc EXCEPT ![t] = "take"] /\ A(t, "Wrap") /\ UNCHANGED <<my, lock>>
\* Take reads the counter, leaves the with-block (releasing the lock) and the OPEN packet carries the id
Take(t) == /\ pc[t] = "take" /\ my' = [my EXCEPT ![t] = cnt] /\ lock' = IF UseLock THEN "free" ELSE lock
           /\ pc' = [pc EXCEPT ![t] = "live"] /\ A(t, "Take") /\ UNCHANGED cnt
Close(t) == /\ pc[t] = "live" /\ pc' = [pc EXCEPT ![t] = "closed"] /\ A(t, "Close") /\ UNCHANGED <<cnt, my, lock>>
\* the open fails after Take: the stream never comes to life
Fail(t) == /\ AllowFail /\ pc[t] = "live" /\ pc' = [pc EXCEPT ![t] = IF GiveBack THEN "giveback" ELSE "closed"] /\ A(t, "Fail") /\ UNCHANGED <<cnt, my, lock>>
GiveBackStep(t) == /\ pc[t] = "giveback" /\ (UseLock => lock = "free") /\ cnt' = cnt - 1        \* `with lock: counter -= 1`, one atomic step here
                   /\ pc' = [pc EXCEPT ![t] = "closed"] /\ A(t, "GiveBack") /\ UNCHANGED <<my, lock>>
Next == \E t \in Threads : Acq(t) \/ Inc(t) \/ Cmp(t) \/ Wrap(t) \/ Take(t) \/ Close(t) \/ Fail(t) \/ GiveBackStep(t)
Spec == Init /\ [][Next]_vars
Live == {t \in Threads : pc[t] = "live"}
IdRange == \A t \in Live : 1 <= my[t] /\ my[t] <= M - 1
UniqueLive == \A t, u \in Live : t # u => my[t] # my[u]
LockFreeWhenIdle == (\A t \in Threads : pc[t] \in {"idle", "live", "closed"}) => lock = "free"
View == <<pc, cnt, my, lock>>
St(pc_, cnt_, my_, lock_) == [pc |-> pc_, cnt |-> cnt_, my |-> my_, lock |-> lock_]
EmitEdge == PrintT(<<"EDGE", ToJson([from |-> St(pc, cnt, my, lock), act |-> act', to |-> St(pc', cnt', my', lock')])>>)
=============================================================================
