---------------------------- MODULE AdbWords ----------------------------
(* 32-bit words as limb pairs <<hi16, lo16>> (TLC integers are 32-bit signed). *)
EXTENDS Naturals, Sequences

B16 == 65536
IsWord(w) == w \in (0..65535) \X (0..65535)
Zero == <<0, 0>>
W(n) == <<n \div B16, n % B16>>                 \* for n < 2^31
Compl(w) == <<65535 - w[1], 65535 - w[2]>>      \* bitwise complement
Lt(x, y) == x[1] < y[1] \/ (x[1] = y[1] /\ x[2] < y[2])
Le(x, y) == x = y \/ Lt(x, y)
\* n <= w for a natural n < 2^31
NatLe(n, w) == w[1] >= 32768 \/ n <= w[1] * B16 + w[2]
\* little-endian bytes of a word
LEBytes(w) == <<w[2] % 256, w[2] \div 256, w[1] % 256, w[1] \div 256>>
FromLE(b) == <<b[4] * 256 + b[3], b[2] * 256 + b[1]>>
\* (x + n) mod 2^32 for a small natural n
AddSmall(w, n) == LET lo == w[2] + n hi == w[1] + (lo \div B16) IN <<hi % B16, lo % B16>>
\* word of four ASCII codes, first character in the low byte
Ascii4(c1, c2, c3, c4) == <<c4 * 256 + c3, c2 * 256 + c1>>
=============================================================================
