---------------------------- MODULE AdbDecode ----------------------------
(* UTF-8 decoding with the 'backslashreplace' error policy over a five-symbol byte alphabet (C01):   *)
(*   1 = 0x61 'a'   2 = 0xE2 (lead of a 3-byte sequence)   3 = 0x82, 4 = 0xAC (continuation bytes)    *)
(*   5 = 0xFF (never valid).                                                                          *)
(* Output symbols: 1 = 'a'; 20 + 2*[b2 = AC] + [b3 = AC] = the character E2 b2 b3; 10 + s = the       *)
(* escape text of input symbol s.  The rule was cross-checked against CPython exhaustively            *)
(* (harness/checks/c01.py re-does it on every run).                                                   *)
EXTENDS Naturals, Sequences

Alphabet == 1..5
Cont(s) == s \in {3, 4}
RECURSIVE DecodeFrom(_, _)
DecodeFrom(s, i) ==
  IF i > Len(s) THEN <<>>
  ELSE IF s[i] = 1 THEN <<1>> \o DecodeFrom(s, i + 1)
  ELSE IF s[i] = 2 /\ i + 2 <= Len(s) /\ Cont(s[i + 1]) /\ Cont(s[i + 2])
       THEN <<20 + (IF s[i + 1] = 4 THEN 2 ELSE 0) + (IF s[i + 2] = 4 THEN 1 ELSE 0)>> \o DecodeFrom(s, i + 3)
  ELSE <<10 + s[i]>> \o DecodeFrom(s, i + 1)
Decode(s) == DecodeFrom(s, 1)

RECURSIVE Flat(_)
Flat(ss) == IF ss = <<>> THEN <<>> ELSE Head(ss) \o Flat(Tail(ss))
DecodeWhole(chunks) == Decode(Flat(chunks))                                 \* shell / exec_out
DecodeEach(chunks) == [i \in 1..Len(chunks) |-> Decode(chunks[i])]          \* streaming_shell
=============================================================================
