---------------------------- MODULE AdbAuth ----------------------------
(* C05 design spec: the eight steps of _AdbIOManager.connect / AdbDevice.connect against an adbd      *)
(* that may accept the connection at once, challenge with fresh tokens, accept the k-th signature,     *)
(* accept or ignore the offered public key, send a challenge of a non-TOKEN type, and interleave       *)
(* stray packets before each answer.  The Layer-A monitor AuthMon is conjoined to every observable     *)
(* step; TLC checks AuthOK for the whole product of configurations and two consecutive connect()s.     *)
EXTENDS AuthMon, Sequences, FiniteSets, Json

CONSTANTS MaxKeys,     \* rsa_keys has 0..MaxKeys entries
          MaxStray,    \* stray packets the device may put before an answer
          MDs,         \* maxdata words the device may announce
          Connects     \* number of consecutive connect() calls on the same object

Token == <<0, 1>>
BadType == <<0, 7>>
VARIABLES cfg,        \* configuration of the current connect(): [nkeys, acceptAt, pubAccept, badAt, cb, md, needAuth]
          hpc, keyi, hostTok, hostArg0, wire, owed, strays, tokN, sigN, a, avail, chunk, ncon, outcome,
          hist        \* what the device put on the wire, in order ("ans" = its answer, else the stray's command): lets a behaviour be replayed
vars == <<cfg, hpc, keyi, hostTok, hostArg0, wire, owed, strays, tokN, sigN, a, avail, chunk, ncon, outcome, hist>>

Cfgs == [nkeys : 0..MaxKeys, acceptAt : 0..MaxKeys, pubAccept : BOOLEAN, badAt : 0..(MaxKeys + 1), cb : BOOLEAN, md : MDs, needAuth : BOOLEAN]
Init == /\ cfg \in Cfgs /\ hpc = "start" /\ keyi = 0 /\ hostTok = 0 /\ hostArg0 = Zero /\ wire = <<>> /\ owed = "none" /\ strays = 0
        /\ tokN = 0 /\ sigN = 0 /\ a = AuthInit /\ avail = FALSE /\ chunk = 2048 /\ ncon = 1 /\ outcome = "none" /\ hist = <<>>

Pkt(c, a0, tok, md) == [cmd |-> c, a0 |-> a0, a1 |-> md, tok |-> tok]

(* ---- host *)
Start == /\ hpc = "start"
         /\ a' = AuthTx(AuthCall(a, [nkeys |-> cfg.nkeys, cb |-> cfg.cb, auth_timeout |-> 7]), [kind |-> "CNXN", fields |-> TRUE])
         /\ avail' = FALSE /\ wire' = <<>> /\ owed' = "cnxn" /\ strays' = 0 /\ tokN' = 0 /\ sigN' = 0 /\ keyi' = 0 /\ hpc' = "wait1" /\ outcome' = "none" /\ hist' = <<>>
         /\ UNCHANGED <<cfg, hostTok, hostArg0, chunk, ncon>>
Expected == IF hpc = "wait3" THEN {"CNXN"} ELSE {"AUTH", "CNXN"}
Raise(cls) == /\ a' = AuthExc(a, [cls |-> cls, avail |-> FALSE]) /\ avail' = FALSE /\ hpc' = "done" /\ outcome' = cls
Succeed(md) == /\ a' = AuthRet(AuthRd(a, [cmd |-> "CNXN", a0 |-> Zero, a1 |-> md, tok |-> 0]), [value |-> TRUE, avail |-> TRUE, chunk |-> ChunkOf(md)])
               /\ avail' = TRUE /\ chunk' = ChunkOf(md) /\ hpc' = "done" /\ outcome' = "ok"
\* step 6: sign with the next key, or fall through to the public key
AfterChallenge(a1, arg0, tok) ==
  IF cfg.nkeys = 0 THEN /\ a' = AuthExc(a1, [cls |-> "DeviceAuthError", avail |-> FALSE]) /\ avail' = FALSE /\ hpc' = "done" /\ outcome' = "DeviceAuthError"
                        /\ UNCHANGED <<keyi, owed, strays, chunk>>
  ELSE IF keyi < cfg.nkeys THEN
         IF arg0 # Token THEN /\ a' = AuthExc(a1, [cls |-> "InvalidResponseError", avail |-> FALSE]) /\ avail' = FALSE /\ hpc' = "done"
                              /\ outcome' = "InvalidResponseError" /\ UNCHANGED <<keyi, owed, strays, chunk>>
         ELSE /\ a' = AuthTx(a1, [kind |-> "SIG", key |-> keyi + 1, tok |-> tok]) /\ keyi' = keyi + 1 /\ owed' = "sig" /\ strays' = 0 /\ hpc' = "wait2"
              /\ UNCHANGED <<avail, chunk, outcome>>
  ELSE /\ a' = AuthWait(AuthTx(IF cfg.cb THEN AuthCb(a1, [x |-> 0]) ELSE a1, [kind |-> "PUB", key |-> 1, nul |-> TRUE]), [timeout |-> 7])
       /\ owed' = "pub" /\ strays' = 0 /\ hpc' = "wait3" /\ UNCHANGED <<keyi, avail, chunk, outcome>>
HostRead == /\ hpc \in {"wait1", "wait2", "wait3"} /\ wire # <<>>
            /\ LET p == Head(wire) IN
               /\ wire' = Tail(wire)
               /\ IF p.cmd \notin Expected THEN a' = AuthRd(a, p) /\ UNCHANGED <<hpc, keyi, hostTok, hostArg0, owed, strays, avail, chunk, outcome>>
                  ELSE IF p.cmd = "CNXN" THEN Succeed(p.a1) /\ UNCHANGED <<keyi, hostTok, hostArg0, owed, strays>>
                  ELSE /\ hostTok' = p.tok /\ hostArg0' = p.a0 /\ AfterChallenge(AuthRd(a, p), p.a0, p.tok)
            /\ UNCHANGED <<cfg, tokN, sigN, ncon, hist>>
\* nothing will ever arrive: the read loop ends in a timeout error
HostTimeout == /\ hpc \in {"wait1", "wait2", "wait3"} /\ wire = <<>> /\ owed = "none" /\ Raise("AdbTimeoutError")
               /\ UNCHANGED <<cfg, keyi, hostTok, hostArg0, wire, owed, strays, tokN, sigN, chunk, ncon, hist>>
Again == /\ hpc = "done" /\ ncon < Connects /\ ncon' = ncon + 1 /\ hpc' = "start" /\ cfg' \in Cfgs
         /\ UNCHANGED <<keyi, hostTok, hostArg0, wire, owed, strays, tokN, sigN, a, avail, chunk, outcome, hist>>

(* ---- device *)
Stray == /\ owed # "none" /\ strays < MaxStray /\ strays' = strays + 1
         /\ \E c \in {"OKAY", "WRTE", "CLSE"} : wire' = Append(wire, Pkt(c, Zero, 0, Zero)) /\ hist' = Append(hist, c)
         /\ UNCHANGED <<cfg, hpc, keyi, hostTok, hostArg0, owed, tokN, sigN, a, avail, chunk, ncon, outcome>>
Challenge == /\ tokN' = tokN + 1
             /\ wire' = Append(wire, Pkt("AUTH", IF cfg.badAt = tokN + 1 THEN BadType ELSE Token, tokN + 1, Zero))
Answer == /\ owed # "none" /\ owed' = "none" /\ hist' = Append(hist, "ans")
          /\ CASE owed = "cnxn" -> IF cfg.needAuth THEN Challenge /\ UNCHANGED sigN ELSE wire' = Append(wire, Pkt("CNXN", Zero, 0, cfg.md)) /\ UNCHANGED <<tokN, sigN>>
               [] owed = "sig" -> /\ sigN' = sigN + 1
                                  /\ IF cfg.acceptAt = sigN + 1 THEN wire' = Append(wire, Pkt("CNXN", Zero, 0, cfg.md)) /\ UNCHANGED tokN ELSE Challenge
               [] owed = "pub" -> /\ UNCHANGED <<tokN, sigN>>
                                  /\ IF cfg.pubAccept THEN wire' = Append(wire, Pkt("CNXN", Zero, 0, cfg.md)) ELSE UNCHANGED wire
          /\ UNCHANGED <<cfg, hpc, keyi, hostTok, hostArg0, strays, a, avail, chunk, ncon, outcome>>
Finished == hpc = "done" /\ ncon = Connects /\ UNCHANGED vars
Next == Start \/ HostRead \/ HostTimeout \/ Again \/ Stray \/ Answer \/ Finished
Spec == Init /\ [][Next]_vars

\* one JSON row per completed single connect(): configuration, what the device put on the wire, what the host did (replayed on the real code)
EndRow == (hpc = "done" /\ ncon = 1) => PrintT(<<"END", ToJson([cfg |-> cfg, hist |-> hist, outcome |-> outcome, sigs |-> a.sigs, pub |-> a.pub, cb |-> a.cb, avail |-> avail, chunk |-> chunk])>>)
\* the history variable multiplies states without adding behaviour: the exhaustive configurations hide it
ViewNoHist == <<cfg, hpc, keyi, hostTok, hostArg0, wire, owed, strays, tokN, sigN, a, avail, chunk, ncon, outcome>>
AuthOK == a.verdict = "ok"
AvailIffOk == (hpc = "done") => (avail = (outcome = "ok"))
\* connect succeeds exactly when the device's last word is CNXN
SuccessWhenAccepted == (hpc = "done" /\ outcome = "ok") => a.devCnxn
=============================================================================
