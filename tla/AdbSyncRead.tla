---------------------------- MODULE AdbSyncRead ----------------------------
(* C08 / C09 design spec: the buffered FileSync record reader                                            *)
(*   _filesync_read_buffered(size): while len(recv_buffer) < size: recv_buffer += payload of next WRTE   *)
(*                                  result = recv_buffer[:size]; recv_buffer = recv_buffer[size:]        *)
(*   _filesync_read:                header = read_buffered(H); body = read_buffered(size field of header) *)
(* against a device that sends records (header of H bytes + body) cut into WRITE payloads at an arbitrary *)
(* set of positions, including inside a header.  Bytes are named by their position in the stream.         *)
EXTENDS Naturals, Sequences, FiniteSets, TLC, Json
CONSTANTS H, Sizes, MaxRecs
VARIABLES recs,     \* body sizes of the records the device sends
          cuts,     \* set of stream positions after which a WRITE payload ends (besides the end of the stream)
          wi, buf, phase, want, parsed, ndone
vars == <<recs, cuts, wi, buf, phase, want, parsed, ndone>>
RECURSIVE Total(_)
Total(rs) == IF rs = <<>> THEN 0 ELSE H + Head(rs) + Total(Tail(rs))
Start(i) == Total(SubSeq(recs, 1, i - 1)) + 1                       \* position of the first header byte of record i
Bounds == cuts \cup {Total(recs)}
NthBound(k) == CHOOSE b \in Bounds : Cardinality({x \in Bounds : x <= b}) = k
Payload(k) == LET lo == IF k = 1 THEN 0 ELSE NthBound(k - 1) hi == NthBound(k) IN [j \in 1..(hi - lo) |-> lo + j]
Init == /\ recs \in UNION {[1..k -> Sizes] : k \in 1..MaxRecs}
        /\ cuts \in SUBSET (1..(Total(recs) - 1))
        /\ wi = 1 /\ buf = <<>> /\ phase = "hdr" /\ want = H /\ parsed = <<>> /\ ndone = 0
Fill == /\ Len(buf) < want /\ wi <= Cardinality(Bounds)
        /\ buf' = buf \o Payload(wi) /\ wi' = wi + 1 /\ UNCHANGED <<recs, cuts, phase, want, parsed, ndone>>
\* the size field the host reads from the bytes it believes to be a header: right iff they are the header of a record
SizeIn(hdr) == IF \E i \in 1..Len(recs) : hdr = [j \in 1..H |-> Start(i) + j - 1]
               THEN recs[CHOOSE i \in 1..Len(recs) : hdr[1] = Start(i)] ELSE 99
Take == /\ Len(buf) >= want /\ ndone < Len(recs)
        /\ LET res == SubSeq(buf, 1, want) IN
           /\ buf' = SubSeq(buf, want + 1, Len(buf))
           /\ IF phase = "hdr" THEN /\ phase' = "body" /\ want' = SizeIn(res) /\ parsed' = Append(parsed, [hdr |-> res, body |-> <<>>]) /\ ndone' = ndone
              ELSE /\ phase' = "hdr" /\ want' = H /\ parsed' = [parsed EXCEPT ![Len(parsed)].body = res] /\ ndone' = ndone + 1
        /\ UNCHANGED <<recs, cuts, wi>>
AllRead == ndone = Len(recs)
Finished == AllRead /\ UNCHANGED vars
Next == Fill \/ Take \/ Finished
Spec == Init /\ [][Next]_vars
\* every record is delivered exactly: header bytes and body bytes are the record's own, for every cut
ParseOK == \A i \in 1..Len(parsed) :
             /\ parsed[i].hdr = [j \in 1..H |-> Start(i) + j - 1]
             /\ (i <= ndone => parsed[i].body = [j \in 1..recs[i] |-> Start(i) + H + j - 1])
NoLeftover == AllRead => (buf = <<>> /\ wi = Cardinality(Bounds) + 1)
Scen == AllRead => PrintT(<<"SCEN", ToJson([recs |-> recs, cuts |-> cuts])>>)
=============================================================================
