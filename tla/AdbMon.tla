---------------------------- MODULE AdbMon ----------------------------
(* Layer A: the observable protocol monitor.  Pure operators over one monitor record `m`; the same     *)
(* operators are (1) conjoined to the host actions of the design spec AdbHost, so that TLC shows        *)
(* design => property for every schedule and device choice, and (2) driven by TraceEnv over event       *)
(* traces recorded from the real library.  The monitor is total: a failed clause is stored in           *)
(* m.verdict ("C04.OkayWithoutWrite", ...) and freezes the monitor; nothing is ever disabled.           *)
(*                                                                                                      *)
(* Streams are keyed by the host's local id.  Ids are words <<hi16, lo16>>.                             *)
EXTENDS AdbWords, AdbDecode, FiniteSets, TLC

ShellLike == {"shell", "exec_out", "root", "streaming_shell"}
NoClose == {"reboot", "connect", "close"}          \* APIs that do not end with a closed stream of their own

MonInit == [st |-> <<>>,            \* local id -> stream record
            maxdata |-> <<0, 4096>>,
            callno |-> <<>>,        \* thread -> number of API calls started
            api |-> <<>>,           \* thread -> [api, decode] of the call in progress
            closed |-> FALSE,       \* close() has been called and no connection was made since (C13)
            mustfail |-> {},        \* threads whose call in progress started while `closed`
            verdict |-> "ok"]

Bad(m, c) == IF m.verdict = "ok" THEN [m EXCEPT !.verdict = c] ELSE m
Upd(f, k, v) == [x \in DOMAIN f \cup {k} |-> IF x = k THEN v ELSE f[x]]
Live(m, l) == l \in DOMAIN m.st /\ ~m.st[l].hostClosed
CallNo(m, t) == IF t \in DOMAIN m.callno THEN m.callno[t] ELSE 0

NewStream(t, cn) == [ph |-> "opening", rid |-> Zero, devUn |-> 0, hostUn |-> FALSE, devClosed |-> FALSE, hostClosed |-> FALSE,
                     owner |-> t, call |-> cn, nsent |-> 0, wrote |-> <<>>,
                     ownClse |-> FALSE,    \* the stream's CLSE was read off the wire by its owner while the stream was open (so the owner's operation has seen it)
                     foreign |-> FALSE,    \* a non-CLSE packet of this stream was read off the wire by a thread that does not own it
                     k1 |-> FALSE]         \* history signature of finding K1: the stream's CLSE was read by another thread while nothing of the stream had been parked

(* ---- a host packet on the wire: e = [t, cmd, a0, a1, len, nul] ------------------------------------ *)
MonStreamTx(m, e) ==
  LET l == e.a0 IN
  CASE e.cmd = "OPEN" ->
         IF l = Zero THEN Bad(m, "C14.IdNonZero")
         ELSE IF Live(m, l) THEN Bad(m, "C14.UniqueLiveIds")
         ELSE IF l \in DOMAIN m.st THEN Bad(m, "C04.FreshId")      \* "a fresh local id": never the id of an earlier OPEN of this history, even a closed or refused one
         ELSE IF e.a1 # Zero THEN Bad(m, "C04.OpenArg1")
         ELSE IF ~e.nul THEN Bad(m, "C04.OpenNul")
         ELSE [m EXCEPT !.st = Upd(m.st, l, NewStream(e.t, CallNo(m, e.t)))]
    [] e.cmd \in {"OKAY", "WRTE", "CLSE"} ->
         IF l \notin DOMAIN m.st THEN Bad(m, "C04.UnknownStream")
         ELSE LET s == m.st[l] IN
           IF s.hostClosed THEN Bad(m, "C04.AfterClose")
           ELSE IF s.ph = "opening" \/ e.a1 # s.rid THEN Bad(m, "C04.Ids")
           ELSE (CASE e.cmd = "OKAY" -> IF s.devUn = 0 THEN Bad(m, "C04.OkayWithoutWrite")
                                       ELSE [m EXCEPT !.st[l].devUn = @ - 1]
                  [] e.cmd = "WRTE" -> IF s.hostUn THEN Bad(m, "C04.WriteBeforeOkay")
                                       ELSE IF ~NatLe(e.len, m.maxdata) THEN Bad(m, "C04.Maxdata")
                                       ELSE [m EXCEPT !.st[l].hostUn = TRUE]
                  [] e.cmd = "CLSE" -> [m EXCEPT !.st[l].hostClosed = TRUE])
    [] OTHER -> m                   \* CNXN / AUTH: the handshake monitor (AdbAuth) judges those

(* ---- a device packet consumed off the wire by host thread e.t: e = [t, cmd, a0, a1] ---------------- *)
\* the stream a device packet belongs to: its arg1, unless the device used the legacy zero ids (then the environment names it in `sl`)
StreamOf(e) == IF "sl" \in DOMAIN e THEN e.sl ELSE e.a1
MonRdStream(m, e) ==
  LET l == StreamOf(e) s == m.st[l] IN
    CASE e.cmd = "OKAY" -> IF s.ph = "opening" THEN [m EXCEPT !.st[l].ph = "open", !.st[l].rid = e.a0]
                           ELSE [m EXCEPT !.st[l].hostUn = FALSE]
      [] e.cmd = "WRTE" -> IF s.ph = "opening" THEN m        \* data before the OPEN was answered: the device is out of line, nothing is owed for it
                           ELSE [m EXCEPT !.st[l].devUn = @ + 1]
      [] e.cmd = "CLSE" -> IF s.ph = "opening" /\ e.a0 = Zero
                           THEN [m EXCEPT !.st[l].devClosed = TRUE, !.st[l].hostClosed = TRUE]     \* the device refused the OPEN: the stream never existed, its id is free again
                           ELSE [m EXCEPT !.st[l].devClosed = TRUE]
      [] OTHER -> m
MonRd(m, e) ==
  LET l == StreamOf(e) IN
  IF e.cmd = "CNXN" THEN [m EXCEPT !.maxdata = e.a1]
  ELSE IF l \notin DOMAIN m.st THEN m
  ELSE LET m1 == MonRdStream(m, e) s == m.st[l] IN
       IF e.t = s.owner THEN (IF e.cmd = "CLSE" /\ s.ph = "open" THEN [m1 EXCEPT !.st[l].ownClse = TRUE] ELSE m1)
       ELSE IF e.cmd = "CLSE" THEN [m1 EXCEPT !.st[l].k1 = ~s.foreign]
       ELSE [m1 EXCEPT !.st[l].foreign = TRUE]

(* ---- the device puts a packet on the wire: e = [cmd, a0, a1, syms] -------------------------------- *)
MonDv(m, e) ==
  LET l == StreamOf(e) IN
  IF e.cmd = "WRTE" /\ l \in DOMAIN m.st
  THEN [m EXCEPT !.st[l].nsent = @ + 1, !.st[l].wrote = Append(@, e.syms)]
  ELSE m

(* ---- API level ------------------------------------------------------------------------------------ *)
\* C13: from the moment close() is called until a connection is made again, every operation that is started (whoever starts it,
\* while close() itself may still be waiting for a lock) raises and puts nothing on the wire
MonCall(m, e) == [m EXCEPT !.callno = Upd(m.callno, e.t, CallNo(m, e.t) + 1),
                           !.api = Upd(m.api, e.t, [api |-> e.api, decode |-> e.decode]),
                           !.closed = IF e.api = "close" THEN TRUE ELSE @,
                           !.mustfail = IF m.closed /\ e.api \notin {"connect", "close"} THEN @ \cup {e.t} ELSE @ \ {e.t}]
MonTxAllowed(m, e) == IF e.t \in m.mustfail THEN Bad(m, "C13.NothingSentWhenClosed") ELSE m

Mine(m, t) == {l \in DOMAIN m.st : m.st[l].owner = t /\ m.st[l].call = CallNo(m, t)}

\* what shell/exec_out/root must return and streaming_shell must yield, in symbols
ExpectedContent(api, decode, wrote) ==
  IF api = "streaming_shell" THEN (IF decode THEN DecodeEach(wrote) ELSE wrote)
  ELSE IF decode THEN DecodeWhole(wrote) ELSE Flat(wrote)

ContentClause(m, e, l) ==
  LET s == m.st[l] a == m.api[e.t] IN
  IF e.mode = "units"       \* payloads named by the projection as <<local id, index>>
  THEN IF e.units = [i \in 1..s.nsent |-> <<l, i>>] THEN "ok"
       ELSE IF \E i \in 1..Len(e.units) : e.units[i][1] # l THEN "C01.NoCrossTalk"
       ELSE "C01.ExactConcatenation"
  ELSE IF e.syms = ExpectedContent(a.api, a.decode, s.wrote) THEN "ok"
       ELSE IF a.decode THEN "C01.DecodeWholeVsEach" ELSE "C01.ExactConcatenation"

MonRet(m, e) ==
  LET mine == Mine(m, e.t) IN
  IF e.t \in m.mustfail THEN Bad(m, "C13.RaisesWhenClosed")
  ELSE IF e.api \in NoClose THEN m
  ELSE IF \E l \in mine : ~m.st[l].hostClosed THEN Bad(m, "C04.MissingClose")
  ELSE IF \E l \in mine : m.st[l].devUn > 0 THEN Bad(m, "C04.MissingOkay")
  ELSE IF e.api \in ShellLike /\ e.api # "root"
       THEN IF Cardinality(mine) # 1 THEN Bad(m, "C04.OneStreamPerCommand")
            ELSE LET c == ContentClause(m, e, CHOOSE l \in mine : TRUE) IN IF c = "ok" THEN m ELSE Bad(m, c)
  ELSE m

\* a new connection is made: every stream of the previous one is gone, on both sides - stream ids are scoped to a connection (adbd
\* forgets them as well), so an id counts as fresh again; a packet the host still sends for a stream of the old connection is
\* reported as C04.UnknownStream
MonConn(m) == [m EXCEPT !.st = <<>>, !.closed = FALSE]

\* the caller closes a streaming generator before the device closed the stream: whatever was delivered to the caller has been acknowledged
\* (the stream itself is left as it is: the library sends nothing when a generator is closed)
MonAbandon(m, e) == IF \E l \in Mine(m, e.t) : m.st[l].devUn > 0 /\ ~m.st[l].hostClosed THEN Bad(m, "C04.MissingOkay") ELSE m

\* C06: an operation that can never complete although the device owes it nothing more (reported by the scheduler, never waited for)
MonStuck(m, e) == IF \E l \in Mine(m, e.t) : m.st[l].k1 THEN Bad(m, "C06.Stuck.K1") ELSE Bad(m, "C06.Stuck")

\* the transport has nothing for the reader e.t although the device is up: if a stream of the reader's own call still owes the
\* device an OKAY for a WRITE it consumed, the device is waiting for that OKAY (stop-and-wait) - the host forgot to acknowledge
MonStall(m, e) == IF \E l \in Mine(m, e.t) : m.st[l].devUn > 0 /\ ~m.st[l].hostClosed THEN Bad(m, "C04.MissingOkay") ELSE m

\* a shell-like command that gives up on its own (AdbTimeoutError: a deadline of the library, not a failure of the transport) after it
\* has taken the device's CLOSE off the wire must have answered it: "a device CLOSE is answered with exactly one CLOSE"
CloseUnanswered(m, e) == /\ e.cls = "AdbTimeoutError" /\ e.t \in DOMAIN m.api /\ m.api[e.t].api \in ShellLike
                         /\ \E l \in Mine(m, e.t) : m.st[l].ownClse /\ ~m.st[l].hostClosed
MonExc(m, e) == IF e.cls = "UnicodeDecodeError" THEN Bad(m, "C01.NoDecodeError")
                ELSE IF CloseUnanswered(m, e) THEN Bad(m, "C04.CloseUnanswered")
                ELSE IF e.t \in m.mustfail /\ e.cls \notin {"AdbConnectionError", "DevicePathInvalidError"} THEN Bad(m, "C13.RaisesWhenClosed")
                ELSE [m EXCEPT !.mustfail = @ \ {e.t}]
=============================================================================
