---------------------------- MODULE AdbTransport ----------------------------
(* C18 / C20: the BaseTransport contract as the I/O manager relies on it.                                     *)
(*   connect / close (idempotent) / bulk_read(n, timeout) / bulk_write                                       *)
(* Peer bytes are named 1, 2, 3, ... in the order written.  A read returns a non-empty prefix of the          *)
(* undelivered bytes, at most n of them; it may time out only when nothing is undelivered.  A read whose      *)
(* timeout is 0 is a poll: the same contract (what has arrived is returned at once).                          *)
EXTENDS Naturals, Sequences, TLC, Json
CONSTANTS MaxWrite, MaxReq, MaxBytes
VARIABLES connected, written, delivered, act
vars == <<connected, written, delivered, act>>
Init == connected = FALSE /\ written = 0 /\ delivered = 0 /\ act = [op |-> "init"]
Undelivered == written - delivered
Connect == /\ ~connected /\ connected' = TRUE /\ written' = 0 /\ delivered' = 0 /\ act' = [op |-> "connect"]
Close == /\ connected' = FALSE /\ act' = [op |-> "close"] /\ UNCHANGED <<written, delivered>>
PeerWrite(m) == /\ connected /\ written + m <= MaxBytes /\ written' = written + m /\ act' = [op |-> "pw", m |-> m] /\ UNCHANGED <<connected, delivered>>
ReadOk(n, k, z) == /\ connected /\ Undelivered > 0 /\ k >= 1 /\ k <= n /\ k <= Undelivered
                   /\ delivered' = delivered + k /\ act' = [op |-> "read", n |-> n, k |-> k, first |-> delivered + 1, poll |-> z] /\ UNCHANGED <<connected, written>>
ReadTimeout(n, z) == /\ connected /\ Undelivered = 0 /\ act' = [op |-> "timeout", n |-> n, poll |-> z] /\ UNCHANGED <<connected, written, delivered>>
Next == Connect \/ Close \/ (\E m \in 1..MaxWrite : PeerWrite(m)) \/ (\E n \in 1..MaxReq, z \in BOOLEAN : ReadTimeout(n, z) \/ \E k \in 1..n : ReadOk(n, k, z))
Spec == Init /\ [][Next]_vars
InOrderNoLossNoDup == delivered <= written
ReadAtMost == act.op = "read" => act.k <= act.n
TimeoutOnlyWhenEmpty == act.op = "timeout" => Undelivered = 0
View == <<connected, written, delivered>>
EmitEdge == PrintT(<<"EDGE", ToJson([from |-> [c |-> connected, w |-> written, d |-> delivered], act |-> act', to |-> [c |-> connected', w |-> written', d |-> delivered']])>>)
=============================================================================
