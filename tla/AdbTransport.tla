---------------------------- MODULE AdbTransport ----------------------------
(* C18 / C20: the BaseTransport contract as the I/O manager relies on it.                                     *)
(*   connect / close (idempotent) / bulk_read(n, timeout) / bulk_write                                       *)
(* Peer bytes are named 1, 2, 3, ... in the order written.  A read returns a non-empty prefix of the          *)
(* undelivered bytes, at most n of them; it may time out only when nothing is undelivered.  A read whose      *)
(* timeout is 0 is a poll: the same contract (what has arrived is returned at once).  A read that is          *)
(* abandoned (its asyncio task cancelled) consumes nothing.  Urgent (out-of-band) data of the peer is not     *)
(* part of the byte stream: it neither makes a read return nor raise anything but the timeout error.           *)
(* bulk_write(data, timeout) hands a non-empty prefix of data to the peer and reports its length, or raises    *)
(* the timeout error having sent nothing; the peer receives exactly the reported bytes, in order.              *)
EXTENDS Naturals, Sequences, TLC, Json
CONSTANTS MaxWrite, MaxReq, MaxBytes
VARIABLES connected, written, delivered, act, hsent
vars == <<connected, written, delivered, act, hsent>>
Init == connected = FALSE /\ written = 0 /\ delivered = 0 /\ act = [op |-> "init"] /\ hsent = 0
Undelivered == written - delivered
Connect == /\ ~connected /\ connected' = TRUE /\ written' = 0 /\ delivered' = 0 /\ act' = [op |-> "connect"] /\ hsent' = 0
Close == /\ connected' = FALSE /\ act' = [op |-> "close"] /\ UNCHANGED <<written, delivered, hsent>>
PeerWrite(m) == /\ connected /\ written + m <= MaxBytes /\ written' = written + m /\ act' = [op |-> "pw", m |-> m] /\ UNCHANGED <<connected, delivered, hsent>>
ReadOk(n, k, z) == /\ connected /\ Undelivered > 0 /\ k >= 1 /\ k <= n /\ k <= Undelivered
                   /\ delivered' = delivered + k /\ act' = [op |-> "read", n |-> n, k |-> k, first |-> delivered + 1, poll |-> z] /\ UNCHANGED <<connected, written, hsent>>
ReadTimeout(n, z) == /\ connected /\ Undelivered = 0 /\ act' = [op |-> "timeout", n |-> n, poll |-> z] /\ UNCHANGED <<connected, written, delivered, hsent>>
\* the host writes n bytes; k of them (1..n) are accepted and reach the peer
HostWrite(n, k) == /\ connected /\ hsent + k <= MaxBytes /\ k >= 1 /\ k <= n /\ hsent' = hsent + k
                   /\ act' = [op |-> "hw", n |-> n, k |-> k] /\ UNCHANGED <<connected, written, delivered>>
Next == Connect \/ Close \/ (\E m \in 1..MaxWrite : PeerWrite(m)) \/ (\E n \in 1..MaxReq, z \in BOOLEAN : ReadTimeout(n, z) \/ \E k \in 1..n : ReadOk(n, k, z))
        \/ (\E n \in 1..MaxWrite : \E k \in 1..n : HostWrite(n, k))
Spec == Init /\ [][Next]_vars
InOrderNoLossNoDup == delivered <= written
ReadAtMost == act.op = "read" => act.k <= act.n
TimeoutOnlyWhenEmpty == act.op = "timeout" => Undelivered = 0
WriteAtMost == act.op = "hw" => (act.k >= 1 /\ act.k <= act.n)
View == <<connected, written, delivered>>     \* hsent only counts: kept out of the view
EmitEdge == PrintT(<<"EDGE", ToJson([from |-> [c |-> connected, w |-> written, d |-> delivered], act |-> act', to |-> [c |-> connected', w |-> written', d |-> delivered']])>>)
=============================================================================
